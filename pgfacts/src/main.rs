//! pgfacts: a rustc driver that dumps typed syntax trees (THIR), MIR assert/call/cast
//! summaries, layouts, consts and type facts as JSON for the crates named in PGFACTS_CRATES.
//! Used as RUSTC_WRAPPER: argv[1] is the real rustc path and is dropped.
#![feature(rustc_private, box_patterns)]
#![allow(clippy::all)]

extern crate rustc_abi;
extern crate rustc_ast;
extern crate rustc_driver;
extern crate rustc_hir;
extern crate rustc_interface;
extern crate rustc_middle;
extern crate rustc_span;

mod json;
use json::J;

use rustc_hir::def::DefKind;
use rustc_hir::def_id::{DefId, LocalDefId};
use rustc_middle::mir;
use rustc_middle::thir::{self, ExprId, ExprKind, Pat, PatKind, StmtKind, Thir};
use rustc_middle::ty::{self, Ty, TyCtxt, TypingEnv};
use rustc_span::Span;
use std::collections::HashSet;

struct NoCb;
impl rustc_driver::Callbacks for NoCb {}

struct Cb {
    out_dir: String,
    bodies: Vec<J>,
    errors: Vec<String>,
}

fn span_str(tcx: TyCtxt<'_>, sp: Span) -> String {
    let sm = tcx.sess.source_map();
    let lo = sm.lookup_char_pos(sp.lo());
    let hi = sm.lookup_char_pos(sp.hi());
    format!(
        "{}:{}:{}-{}:{}",
        lo.file.name.prefer_local_unconditionally(),
        lo.line,
        lo.col.0 + 1,
        hi.line,
        hi.col.0 + 1
    )
}

/// span of the outermost macro call site (so that sites inside `writeln!` etc. are locatable)
fn root_span(sp: Span) -> Span {
    sp.source_callsite()
}

fn krate_of(tcx: TyCtxt<'_>, did: DefId) -> String {
    tcx.crate_name(did.krate).to_string()
}

fn path_of(tcx: TyCtxt<'_>, did: DefId) -> String {
    // crate-qualified, generic-free path; unique per definition
    let p = tcx.def_path_str(did);
    if did.is_local() {
        format!("{}::{}", tcx.crate_name(did.krate), p)
    } else {
        p
    }
}

/// viewpoint-independent identity of a definition (re-exports do not change it)
fn dp_of(tcx: TyCtxt<'_>, did: DefId) -> String {
    format!(
        "{}{}",
        tcx.crate_name(did.krate),
        tcx.def_path(did).to_string_no_crate_verbose()
    )
}

fn wanted_crate(name: &str) -> bool {
    let crates = std::env::var("PGFACTS_CRATES").unwrap_or_else(|_| "proguard,watto,leb128".into());
    crates.split(',').any(|w| w == name)
}

/// is it safe to hand this (type, value) to rustc's const pretty printer? It ICEs on array types whose length is
/// not yet evaluated (e.g. `[u8; SOME_CONST]`), so only fully evaluated, simple shapes are printed.
fn safe_mode() -> bool {
    std::env::var("PGFACTS_SAFE").map(|v| v == "1").unwrap_or(false)
}

fn printable_const_ty<'tcx>(tcx: TyCtxt<'tcx>, t: Ty<'tcx>) -> bool {
    if safe_mode() {
        return false;
    }
    match *t.kind() {
        ty::Bool | ty::Char | ty::Int(_) | ty::Uint(_) | ty::Str => true,
        ty::Ref(_, inner, _) => printable_const_ty(tcx, inner),
        ty::Slice(inner) => printable_const_ty(tcx, inner),
        ty::Array(inner, len) => len.try_to_target_usize(tcx).is_some() && printable_const_ty(tcx, inner),
        _ => false,
    }
}

fn ty_str(t: Ty<'_>) -> String {
    format!("{}", t)
}

struct Cx<'a, 'tcx> {
    tcx: TyCtxt<'tcx>,
    thir: &'a Thir<'tcx>,
    owner: LocalDefId,
    errors: Vec<String>,
    unsafe_blocks: Vec<J>,
}

impl<'a, 'tcx> Cx<'a, 'tcx> {
    fn var_name(&self, v: thir::LocalVarId) -> String {
        self.tcx.hir_name(v.0).to_string()
    }
    fn var_id(&self, v: thir::LocalVarId) -> i128 {
        v.0.local_id.as_u32() as i128
    }

    fn node(&self, k: &str, e: &thir::Expr<'tcx>) -> J {
        J::obj()
            .set("k", J::s(k))
            .set("ty", J::s(ty_str(e.ty)))
            .set("sp", J::s(span_str(self.tcx, root_span(e.span))))
            .set("exp", J::Bool(e.span.from_expansion()))
    }

    fn fn_ref(&self, fty: Ty<'tcx>) -> Option<J> {
        if let ty::FnDef(did, args) = *fty.kind() {
            let tcx = self.tcx;
            let mut o = J::obj()
                .set("path", J::s(path_of(tcx, did)))
                .set("dp", J::s(dp_of(tcx, did)))
                .set("krate", J::s(krate_of(tcx, did)))
                .set("full", J::s(tcx.def_path_str_with_args(did, args)))
                .set(
                    "targs",
                    J::Arr(args.iter().map(|a| J::s(format!("{}", a))).collect()),
                );
            // tuple-struct / tuple-variant constructor used as a function value (`.map(Self::Frame)`)
            if let rustc_hir::def::DefKind::Ctor(of, rustc_hir::def::CtorKind::Fn) = tcx.def_kind(did) {
                let vdid = tcx.parent(did);
                let (adt_did, vname) = match of {
                    rustc_hir::def::CtorOf::Variant => (tcx.parent(vdid), tcx.item_name(vdid).to_string()),
                    rustc_hir::def::CtorOf::Struct => (vdid, tcx.item_name(vdid).to_string()),
                };
                let adt = tcx.adt_def(adt_did);
                let nf = adt
                    .variants()
                    .iter()
                    .find(|v| v.ctor_def_id() == Some(did))
                    .map(|v| v.fields.len())
                    .unwrap_or(0);
                o.put(
                    "ctor",
                    J::obj()
                        .set("adt", J::s(path_of(tcx, adt_did)))
                        .set("variant", J::s(vname))
                        .set("nfields", J::Int(nf as i128)),
                );
            }
            // local-crate-family ADTs mentioned in the callee's generic arguments: foreign generic
            // code may call their trait impls (Iterator::next, Display::fmt, ...)
            let mut mentions: Vec<String> = Vec::new();
            for a in args.iter() {
                let mut walker = a.walk();
                while let Some(inner) = walker.next() {
                    if let Some(t) = inner.as_type() {
                        // a closure handed to foreign generic code can only be *called* by it: the types it captures are
                        // private to the closure body (whose own calls are edges of the closure)
                        if matches!(t.kind(), ty::Closure(..) | ty::CoroutineClosure(..)) {
                            walker.skip_current_subtree();
                            continue;
                        }
                        if let ty::Adt(def, _) = t.kind() {
                            let cn = tcx.crate_name(def.did().krate).to_string();
                            if wanted_crate(&cn) {
                                let d = dp_of(tcx, def.did());
                                if !mentions.contains(&d) {
                                    mentions.push(d);
                                }
                            }
                        }
                    }
                }
            }
            if !mentions.is_empty() {
                o.put("mentions", J::Arr(mentions.into_iter().map(J::s).collect()));
            }
            // trait method? try to resolve to the impl
            if let Some(tr) = tcx.trait_of_assoc(did) {
                o.put("trait", J::s(path_of(tcx, tr)));
                let env = TypingEnv::post_analysis(tcx, self.owner.to_def_id());
                let has_params = args.iter().any(|a| {
                    use rustc_middle::ty::TypeVisitableExt;
                    a.has_param() || a.has_infer() || a.has_aliases()
                });
                if !has_params && !safe_mode() {
                    if let Ok(Some(inst)) = ty::Instance::try_resolve(tcx, env, did, args) {
                        let rd = inst.def_id();
                        o.put("resolved", J::s(path_of(tcx, rd)));
                        o.put("resolved_dp", J::s(dp_of(tcx, rd)));
                        o.put("resolved_krate", J::s(krate_of(tcx, rd)));
                    }
                }
            } else if let Some(imp) = tcx.impl_of_assoc(did) {
                let self_ty = tcx.type_of(imp).instantiate_identity().skip_norm_wip();
                o.put("impl_self", J::s(ty_str(self_ty)));
            }
            Some(o)
        } else {
            None
        }
    }

    fn lit(&self, lit: &rustc_hir::Lit, neg: bool) -> J {
        use rustc_ast::LitKind;
        match lit.node {
            LitKind::Str(s, _) => J::obj().set("t", J::s("str")).set("v", J::s(s.as_str())),
            LitKind::ByteStr(ref b, _) | LitKind::CStr(ref b, _) => {
                let bytes: &[u8] = b.as_byte_str();
                J::obj().set("t", J::s("bytes")).set(
                    "v",
                    J::Arr(bytes.iter().map(|x| J::Int(*x as i128)).collect()),
                )
            }
            LitKind::Byte(b) => J::obj().set("t", J::s("int")).set("v", J::Int(b as i128)),
            LitKind::Char(c) => J::obj()
                .set("t", J::s("char"))
                .set("v", J::s(c.to_string())),
            LitKind::Int(v, _) => {
                let v = v.get() as i128;
                J::obj()
                    .set("t", J::s("int"))
                    .set("v", J::Int(if neg { -v } else { v }))
            }
            LitKind::Float(s, _) => J::obj().set("t", J::s("float")).set("v", J::s(s.as_str())),
            LitKind::Bool(b) => J::obj().set("t", J::s("bool")).set("v", J::Bool(b)),
            LitKind::Err(_) => J::obj().set("t", J::s("err")),
        }
    }

    fn const_val(&self, did: DefId, t: Ty<'tcx>) -> J {
        // evaluated value of a const when it is a scalar or a byte array/slice ref
        let tcx = self.tcx;
        // an associated const *declared* in a trait (`const LIMIT: usize;`) has no body to evaluate; the value depends on the impl
        if matches!(tcx.def_kind(did), DefKind::AssocConst { .. })
            && matches!(tcx.def_kind(tcx.parent(did)), DefKind::Trait)
            && !tcx.defaultness(did).has_value()
        {
            return J::Null;
        }
        if let Ok(val) = tcx.const_eval_poly(did) {
            if let Some(s) = val.try_to_scalar_int() {
                return J::obj()
                    .set("t", J::s("int"))
                    .set("v", J::Int(s.to_bits_unchecked() as i128));
            }
            // byte arrays etc: render with the pretty printer (only for shapes it is known to handle)
            if printable_const_ty(tcx, t) {
                let c = mir::Const::Val(val, t);
                return J::obj().set("t", J::s("pretty")).set("v", J::s(format!("{}", c)));
            }
            return J::obj().set("t", J::s("opaque")).set("v", J::s(ty_str(t)));
        }
        J::Null
    }

    fn expr(&mut self, id: ExprId) -> J {
        let e = &self.thir[id];
        let tcx = self.tcx;
        match &e.kind {
            ExprKind::Scope { value, .. } => self.expr(*value),
            ExprKind::Use { source } => self.expr(*source),
            ExprKind::NeverToAny { source } => self.expr(*source),
            ExprKind::ValueTypeAscription { source, .. }
            | ExprKind::PlaceTypeAscription { source, .. } => self.expr(*source),
            ExprKind::PointerCoercion { cast, source, .. } => {
                let inner = self.expr(*source);
                self.node("Coerce", e)
                    .set("cast", J::s(format!("{:?}", cast)))
                    .set("e", inner)
            }
            ExprKind::If {
                cond,
                then,
                else_opt,
                ..
            } => {
                let c = self.expr(*cond);
                let t = self.expr(*then);
                let el = else_opt.map(|x| self.expr(x));
                self.node("If", e)
                    .set("cond", c)
                    .set("then", t)
                    .set("else", J::opt(el))
            }
            ExprKind::Call {
                ty: fty,
                fun,
                args,
                from_hir_call,
                fn_span,
            } => {
                let a: Vec<J> = args.iter().map(|x| self.expr(*x)).collect();
                let mut n = self
                    .node("Call", e)
                    .set("args", J::Arr(a))
                    .set("hir_call", J::Bool(*from_hir_call))
                    .set("fn_sp", J::s(span_str(tcx, root_span(*fn_span))));
                match self.fn_ref(*fty) {
                    Some(f) => n.put("fn", f),
                    None => {
                        let f = self.expr(*fun);
                        n.put("fun", f);
                    }
                }
                n
            }
            ExprKind::ByUse { expr, .. } => self.expr(*expr),
            ExprKind::Deref { arg } => {
                let a = self.expr(*arg);
                self.node("Deref", e).set("e", a)
            }
            ExprKind::Binary { op, lhs, rhs } => {
                let l = self.expr(*lhs);
                let r = self.expr(*rhs);
                self.node("Binary", e)
                    .set("op", J::s(format!("{:?}", op)))
                    .set("l", l)
                    .set("r", r)
            }
            ExprKind::LogicalOp { op, lhs, rhs } => {
                let l = self.expr(*lhs);
                let r = self.expr(*rhs);
                self.node("Logical", e)
                    .set("op", J::s(format!("{:?}", op)))
                    .set("l", l)
                    .set("r", r)
            }
            ExprKind::Unary { op, arg } => {
                let a = self.expr(*arg);
                self.node("Unary", e)
                    .set("op", J::s(format!("{:?}", op)))
                    .set("e", a)
            }
            ExprKind::Cast { source } => {
                let from = ty_str(self.thir[*source].ty);
                let a = self.expr(*source);
                self.node("Cast", e).set("from", J::s(from)).set("e", a)
            }
            ExprKind::Loop { body } => {
                let b = self.expr(*body);
                self.node("Loop", e).set("body", b)
            }
            ExprKind::Let { expr, pat } => {
                let x = self.expr(*expr);
                let p = self.pat(pat);
                self.node("LetExpr", e).set("pat", p).set("e", x)
            }
            ExprKind::Match {
                scrutinee,
                arms,
                match_source,
            } => {
                let s = self.expr(*scrutinee);
                let mut av = Vec::new();
                for a in arms.iter() {
                    let arm = &self.thir[*a];
                    let p = self.pat(&arm.pattern);
                    let g = arm.guard.map(|g| self.expr(g));
                    let b = self.expr(arm.body);
                    av.push(
                        J::obj()
                            .set("pat", p)
                            .set("guard", J::opt(g))
                            .set("body", b)
                            .set("sp", J::s(span_str(tcx, root_span(arm.span)))),
                    );
                }
                self.node("Match", e)
                    .set("src", J::s(format!("{:?}", match_source)))
                    .set("scrut", s)
                    .set("arms", J::Arr(av))
            }
            ExprKind::Block { block } => {
                let b = &self.thir[*block];
                if let thir::BlockSafety::ExplicitUnsafe(_) = b.safety_mode {
                    self.unsafe_blocks.push(
                        J::obj()
                            .set("sp", J::s(span_str(tcx, root_span(b.span))))
                            .set("exp", J::Bool(b.span.from_expansion())),
                    );
                }
                let mut stmts = Vec::new();
                for s in b.stmts.iter() {
                    let st = &self.thir[*s];
                    match &st.kind {
                        StmtKind::Expr { expr, .. } => {
                            let x = self.expr(*expr);
                            stmts.push(J::obj().set("k", J::s("Expr")).set("e", x));
                        }
                        StmtKind::Let {
                            pattern,
                            initializer,
                            else_block,
                            span,
                            ..
                        } => {
                            let p = self.pat(pattern);
                            let i = initializer.map(|x| self.expr(x));
                            let el = else_block.map(|bid| self.block_as_expr(bid));
                            stmts.push(
                                J::obj()
                                    .set("k", J::s("Let"))
                                    .set("pat", p)
                                    .set("init", J::opt(i))
                                    .set("else", J::opt(el))
                                    .set("sp", J::s(span_str(tcx, root_span(*span)))),
                            );
                        }
                    }
                }
                let tail = b.expr.map(|x| self.expr(x));
                self.node("Block", e)
                    .set("stmts", J::Arr(stmts))
                    .set("tail", J::opt(tail))
                    .set(
                        "unsafe",
                        J::Bool(matches!(b.safety_mode, thir::BlockSafety::ExplicitUnsafe(_))),
                    )
            }
            ExprKind::Assign { lhs, rhs } => {
                let l = self.expr(*lhs);
                let r = self.expr(*rhs);
                self.node("Assign", e).set("l", l).set("r", r)
            }
            ExprKind::AssignOp { op, lhs, rhs } => {
                let l = self.expr(*lhs);
                let r = self.expr(*rhs);
                self.node("AssignOp", e)
                    .set("op", J::s(format!("{:?}", op)))
                    .set("l", l)
                    .set("r", r)
            }
            ExprKind::Field {
                lhs,
                variant_index,
                name,
            } => {
                let lty = self.thir[*lhs].ty;
                let fname = match lty.kind() {
                    ty::Adt(def, _) => def.variant(*variant_index).fields[*name].name.to_string(),
                    _ => format!("{}", name.as_u32()),
                };
                let l = self.expr(*lhs);
                self.node("Field", e)
                    .set("name", J::s(fname))
                    .set("idx", J::Int(name.as_u32() as i128))
                    .set("base_ty", J::s(ty_str(lty)))
                    .set("e", l)
            }
            ExprKind::Index { lhs, index } => {
                let l = self.expr(*lhs);
                let i = self.expr(*index);
                self.node("Index", e).set("e", l).set("index", i)
            }
            ExprKind::VarRef { id } => self
                .node("Var", e)
                .set("id", J::Int(self.var_id(*id)))
                .set("name", J::s(self.var_name(*id))),
            ExprKind::UpvarRef { var_hir_id, .. } => self
                .node("Upvar", e)
                .set("id", J::Int(self.var_id(*var_hir_id)))
                .set("name", J::s(self.var_name(*var_hir_id))),
            ExprKind::Borrow { borrow_kind, arg } => {
                let a = self.expr(*arg);
                let m = matches!(borrow_kind, mir::BorrowKind::Mut { .. });
                self.node("Borrow", e).set("mut", J::Bool(m)).set("e", a)
            }
            ExprKind::RawBorrow { arg, .. } => {
                let a = self.expr(*arg);
                self.node("RawBorrow", e).set("e", a)
            }
            ExprKind::Break { value, .. } => {
                let v = value.map(|x| self.expr(x));
                self.node("Break", e).set("e", J::opt(v))
            }
            ExprKind::Continue { .. } => self.node("Continue", e),
            ExprKind::Return { value } => {
                let v = value.map(|x| self.expr(x));
                self.node("Return", e).set("e", J::opt(v))
            }
            ExprKind::Repeat { value, count } => {
                let v = self.expr(*value);
                self.node("Repeat", e)
                    .set("e", v)
                    .set("count", J::s(format!("{}", count)))
            }
            ExprKind::Array { fields } => {
                let f: Vec<J> = fields.iter().map(|x| self.expr(*x)).collect();
                self.node("Array", e).set("fields", J::Arr(f))
            }
            ExprKind::Tuple { fields } => {
                let f: Vec<J> = fields.iter().map(|x| self.expr(*x)).collect();
                self.node("Tuple", e).set("fields", J::Arr(f))
            }
            ExprKind::Adt(box adt) => {
                let variant = adt.adt_def.variant(adt.variant_index);
                let mut fs = Vec::new();
                for f in adt.fields.iter() {
                    let v = self.expr(f.expr);
                    fs.push(
                        J::obj()
                            .set("name", J::s(variant.fields[f.name].name.to_string()))
                            .set("idx", J::Int(f.name.as_u32() as i128))
                            .set("e", v),
                    );
                }
                let base = match &adt.base {
                    thir::AdtExprBase::None => J::Null,
                    thir::AdtExprBase::Base(fru) => self.expr(fru.base),
                    thir::AdtExprBase::DefaultFields(_) => J::s("default-fields"),
                };
                self.node("Adt", e)
                    .set("adt", J::s(path_of(tcx, adt.adt_def.did())))
                    .set("variant", J::s(variant.name.to_string()))
                    .set(
                        "all_fields",
                        J::Arr(
                            variant
                                .fields
                                .iter()
                                .map(|f| J::s(f.name.to_string()))
                                .collect(),
                        ),
                    )
                    .set("fields", J::Arr(fs))
                    .set("base", base)
            }
            ExprKind::Closure(box c) => {
                let up: Vec<J> = c.upvars.iter().map(|x| self.expr(*x)).collect();
                self.node("Closure", e)
                    .set("def", J::s(path_of(tcx, c.closure_id.to_def_id())))
                    .set("def_dp", J::s(dp_of(tcx, c.closure_id.to_def_id())))
                    .set("upvars", J::Arr(up))
            }
            ExprKind::Literal { lit, neg } => {
                let l = self.lit(lit, *neg);
                self.node("Lit", e).set("lit", l)
            }
            ExprKind::NonHirLiteral { lit, .. } => self.node("Lit", e).set(
                "lit",
                J::obj()
                    .set("t", J::s("int"))
                    .set("v", J::Int(lit.to_bits_unchecked() as i128)),
            ),
            ExprKind::ZstLiteral { .. } => {
                let n = self.node("Zst", e);
                match self.fn_ref(e.ty) {
                    Some(f) => n.set("fn", f),
                    None => n,
                }
            }
            ExprKind::NamedConst { def_id, .. } => {
                let v = self.const_val(*def_id, e.ty);
                self.node("Const", e)
                    .set("path", J::s(path_of(tcx, *def_id)))
                    .set("val", v)
            }
            ExprKind::ConstParam { def_id, .. } => self
                .node("ConstParam", e)
                .set("path", J::s(path_of(tcx, *def_id))),
            ExprKind::StaticRef { def_id, .. } => self
                .node("Static", e)
                .set("path", J::s(path_of(tcx, *def_id))),
            ExprKind::ThreadLocalRef(def_id) => self
                .node("ThreadLocal", e)
                .set("path", J::s(path_of(tcx, *def_id))),
            ExprKind::ConstBlock { did, .. } => self
                .node("ConstBlock", e)
                .set("path", J::s(path_of(tcx, *did))),
            other => {
                let name = format!("{:?}", other);
                let name = name.split(|c: char| !c.is_alphanumeric()).next().unwrap_or("?").to_string();
                self.errors.push(format!(
                    "unknown ExprKind {} at {}",
                    name,
                    span_str(tcx, e.span)
                ));
                self.node("Unknown", e).set("what", J::s(name))
            }
        }
    }

    fn block_as_expr(&mut self, bid: thir::BlockId) -> J {
        let b = &self.thir[bid];
        let tcx = self.tcx;
        let mut stmts = Vec::new();
        for s in b.stmts.iter() {
            let st = &self.thir[*s];
            match &st.kind {
                StmtKind::Expr { expr, .. } => {
                    let x = self.expr(*expr);
                    stmts.push(J::obj().set("k", J::s("Expr")).set("e", x));
                }
                StmtKind::Let {
                    pattern,
                    initializer,
                    else_block,
                    span,
                    ..
                } => {
                    let p = self.pat(pattern);
                    let i = initializer.map(|x| self.expr(x));
                    let el = else_block.map(|bid| self.block_as_expr(bid));
                    stmts.push(
                        J::obj()
                            .set("k", J::s("Let"))
                            .set("pat", p)
                            .set("init", J::opt(i))
                            .set("else", J::opt(el))
                            .set("sp", J::s(span_str(tcx, root_span(*span)))),
                    );
                }
            }
        }
        let tail = b.expr.map(|x| self.expr(x));
        J::obj()
            .set("k", J::s("Block"))
            .set("ty", J::s("!"))
            .set("sp", J::s(span_str(tcx, root_span(b.span))))
            .set("exp", J::Bool(b.span.from_expansion()))
            .set("stmts", J::Arr(stmts))
            .set("tail", J::opt(tail))
            .set("unsafe", J::Bool(false))
    }

    fn pat(&mut self, p: &Pat<'tcx>) -> J {
        let tcx = self.tcx;
        let base = |k: &str| {
            J::obj()
                .set("k", J::s(k))
                .set("ty", J::s(ty_str(p.ty)))
        };
        match &p.kind {
            PatKind::Missing | PatKind::Wild => base("Wild"),
            PatKind::Binding {
                name,
                mode,
                var,
                subpattern,
                ..
            } => {
                let sub = subpattern.as_ref().map(|s| self.pat(s));
                base("Bind")
                    .set("name", J::s(name.to_string()))
                    .set("id", J::Int(self.var_id(*var)))
                    .set("byref", J::Bool(!matches!(mode.0, rustc_hir::ByRef::No)))
                    .set("mut", J::Bool(matches!(mode.1, rustc_ast::Mutability::Mut)))
                    .set("sub", J::opt(sub))
            }
            PatKind::Variant {
                adt_def,
                variant_index,
                subpatterns,
                ..
            } => {
                let variant = adt_def.variant(*variant_index);
                let mut fs = Vec::new();
                for f in subpatterns {
                    let sp = self.pat(&f.pattern);
                    fs.push(
                        J::obj()
                            .set("name", J::s(variant.fields[f.field].name.to_string()))
                            .set("idx", J::Int(f.field.as_u32() as i128))
                            .set("pat", sp),
                    );
                }
                base("Variant")
                    .set("adt", J::s(path_of(tcx, adt_def.did())))
                    .set("variant", J::s(variant.name.to_string()))
                    .set("fields", J::Arr(fs))
            }
            PatKind::Leaf { subpatterns } => {
                let mut fs = Vec::new();
                for f in subpatterns {
                    let name = match p.ty.kind() {
                        ty::Adt(def, _) if def.is_struct() => {
                            def.non_enum_variant().fields[f.field].name.to_string()
                        }
                        _ => format!("{}", f.field.as_u32()),
                    };
                    let sp = self.pat(&f.pattern);
                    fs.push(
                        J::obj()
                            .set("name", J::s(name))
                            .set("idx", J::Int(f.field.as_u32() as i128))
                            .set("pat", sp),
                    );
                }
                let mut o = base("Leaf").set("fields", J::Arr(fs));
                if let ty::Adt(def, _) = p.ty.kind() {
                    o.put("adt", J::s(path_of(tcx, def.did())));
                }
                o
            }
            PatKind::Deref { subpattern, .. } | PatKind::DerefPattern { subpattern, .. } => {
                let s = self.pat(subpattern);
                base("Deref").set("pat", s)
            }
            PatKind::Constant { value } => base("Const").set("v", J::s(format!("{}", value))),
            PatKind::Range(r) => base("Range").set("v", J::s(format!("{}", r))),
            PatKind::Slice {
                prefix,
                slice,
                suffix,
            }
            | PatKind::Array {
                prefix,
                slice,
                suffix,
            } => {
                let pre: Vec<J> = prefix.iter().map(|x| self.pat(x)).collect();
                let suf: Vec<J> = suffix.iter().map(|x| self.pat(x)).collect();
                let sl = slice.as_ref().map(|x| self.pat(x));
                base("Slice")
                    .set("prefix", J::Arr(pre))
                    .set("slice", J::opt(sl))
                    .set("suffix", J::Arr(suf))
            }
            PatKind::Or { pats } => {
                let ps: Vec<J> = pats.iter().map(|x| self.pat(x)).collect();
                base("Or").set("pats", J::Arr(ps))
            }
            PatKind::Guard {
                subpattern,
                condition,
            } => {
                let s = self.pat(subpattern);
                let c = self.expr(*condition);
                base("Guard").set("pat", s).set("cond", c)
            }
            PatKind::Never => base("Never"),
            PatKind::Error(_) => base("Error"),
        }
    }
}

fn def_kind_str(tcx: TyCtxt<'_>, did: DefId) -> String {
    format!("{:?}", tcx.def_kind(did))
}

fn dump_thir<'tcx>(tcx: TyCtxt<'tcx>, cb: &mut Cb) {
    for owner in tcx.hir_body_owners() {
        let did = owner.to_def_id();
        let kind = tcx.def_kind(did);
        let Ok((steal, root)) = tcx.thir_body(owner) else {
            cb.errors.push(format!("thir_body failed for {}", path_of(tcx, did)));
            continue;
        };
        let thir = steal.borrow();
        let mut cx = Cx {
            tcx,
            thir: &thir,
            owner,
            errors: Vec::new(),
            unsafe_blocks: Vec::new(),
        };
        let mut params = Vec::new();
        for p in thir.params.iter() {
            let pat = p.pat.as_ref().map(|x| cx.pat(x));
            params.push(
                J::obj()
                    .set("pat", J::opt(pat))
                    .set("ty", J::s(ty_str(p.ty)))
                    .set(
                        "self_kind",
                        J::opt(p.self_kind.map(|k| J::s(format!("{:?}", k)))),
                    ),
            );
        }
        let root_j = cx.expr(root);
        let mut o = J::obj()
            .set("path", J::s(path_of(tcx, did)))
            .set("dp", J::s(dp_of(tcx, did)))
            .set("kind", J::s(format!("{:?}", kind)))
            .set("krate", J::s(krate_of(tcx, did)))
            .set("sp", J::s(span_str(tcx, tcx.def_span(did))))
            .set("exp", J::Bool(tcx.def_span(did).from_expansion()))
            .set("params", J::Arr(params));
        if matches!(kind, DefKind::Closure) {
            o.put("parent", J::s(path_of(tcx, tcx.typeck_root_def_id(did))));
        }
        if matches!(kind, DefKind::Fn | DefKind::AssocFn) {
            let sig = tcx.fn_sig(did).instantiate_identity().skip_norm_wip().skip_binder();
            o.put(
                "inputs",
                J::Arr(sig.inputs().iter().map(|t| J::s(ty_str(*t))).collect()),
            );
            o.put("output", J::s(ty_str(sig.output())));
            // generic parameter names in argument order (parents first): lets a caller's `targs` be substituted when a
            // generic helper is inlined by the analysis
            {
                let gens = tcx.generics_of(did);
                let mut names = Vec::new();
                for i in 0..gens.count() {
                    names.push(J::s(gens.param_at(i, tcx).name.to_string()));
                }
                o.put("generics", J::Arr(names));
            }
            o.put("vis", J::s(format!("{:?}", tcx.visibility(did))));
            o.put(
                "reachable_pub",
                J::Bool(tcx.effective_visibilities(()).is_reachable(owner)),
            );
            if let Some(imp) = tcx.impl_of_assoc(did) {
                let self_ty = tcx.type_of(imp).instantiate_identity().skip_norm_wip();
                o.put("impl_self", J::s(ty_str(self_ty)));
                if let ty::Adt(def, _) = self_ty.kind() {
                    o.put("impl_self_dp", J::s(dp_of(tcx, def.did())));
                }
                if let Some(tr) = tcx.impl_opt_trait_ref(imp) {
                    let tr = tr.instantiate_identity().skip_norm_wip();
                    o.put("impl_trait", J::s(path_of(tcx, tr.def_id)));
                }
            }
            if matches!(kind, DefKind::AssocFn) {
                o.put("name", J::s(tcx.item_name(did).to_string()));
            } else {
                o.put("name", J::s(tcx.item_name(did).to_string()));
            }
        }
        o.put("body", root_j);
        o.put("unsafe_blocks", J::Arr(cx.unsafe_blocks));
        cb.errors.extend(cx.errors);
        cb.bodies.push(o);
    }
}

fn operand_str<'tcx>(o: &mir::Operand<'tcx>) -> String {
    format!("{:?}", o)
}

fn dump_mir<'tcx>(tcx: TyCtxt<'tcx>) -> J {
    let mut out = Vec::new();
    for owner in tcx.hir_body_owners() {
        let did = owner.to_def_id();
        let kind = tcx.def_kind(did);
        if !matches!(kind, DefKind::Fn | DefKind::AssocFn | DefKind::Closure) {
            continue;
        }
        let body = tcx.optimized_mir(did);
        let mut asserts = Vec::new();
        let mut calls = Vec::new();
        let mut casts = Vec::new();
        for bb in body.basic_blocks.iter() {
            for st in bb.statements.iter() {
                if let mir::StatementKind::Assign(box (_, rv)) = &st.kind {
                    if let mir::Rvalue::Cast(ck, op, to) = rv {
                        let from = op.ty(&body.local_decls, tcx);
                        if from.is_integral() && to.is_integral() {
                            casts.push(
                                J::obj()
                                    .set("kind", J::s(format!("{:?}", ck)))
                                    .set("from", J::s(ty_str(from)))
                                    .set("to", J::s(ty_str(*to)))
                                    .set("sp", J::s(span_str(tcx, root_span(st.source_info.span))))
                                    .set("exp", J::Bool(st.source_info.span.from_expansion())),
                            );
                        }
                    }
                }
            }
            if let Some(term) = &bb.terminator {
                let sp = term.source_info.span;
                match &term.kind {
                    mir::TerminatorKind::Assert { msg, .. } => {
                        let (k, detail) = match &**msg {
                            mir::AssertKind::BoundsCheck { len, index } => (
                                "BoundsCheck",
                                format!("{} / {}", operand_str(index), operand_str(len)),
                            ),
                            mir::AssertKind::Overflow(op, a, b) => (
                                "Overflow",
                                format!("{:?} {} {}", op, operand_str(a), operand_str(b)),
                            ),
                            mir::AssertKind::OverflowNeg(a) => ("OverflowNeg", operand_str(a)),
                            mir::AssertKind::DivisionByZero(a) => ("DivisionByZero", operand_str(a)),
                            mir::AssertKind::RemainderByZero(a) => {
                                ("RemainderByZero", operand_str(a))
                            }
                            mir::AssertKind::MisalignedPointerDereference { .. } => {
                                ("MisalignedPointerDereference", String::new())
                            }
                            mir::AssertKind::NullPointerDereference => {
                                ("NullPointerDereference", String::new())
                            }
                            _ => ("Other", format!("{:?}", msg)),
                        };
                        asserts.push(
                            J::obj()
                                .set("kind", J::s(k))
                                .set("detail", J::s(detail))
                                .set("sp", J::s(span_str(tcx, root_span(sp))))
                                .set("exp", J::Bool(sp.from_expansion())),
                        );
                    }
                    mir::TerminatorKind::Call { func, .. } => {
                        let fty = func.ty(&body.local_decls, tcx);
                        if let ty::FnDef(cd, args) = *fty.kind() {
                            let mut c = J::obj()
                                .set("path", J::s(path_of(tcx, cd)))
                                .set("krate", J::s(krate_of(tcx, cd)))
                                .set("sp", J::s(span_str(tcx, root_span(sp))))
                                .set("exp", J::Bool(sp.from_expansion()));
                            let env = TypingEnv::post_analysis(tcx, did);
                            use rustc_middle::ty::TypeVisitableExt;
                            if !args.iter().any(|a| a.has_param() || a.has_aliases()) {
                                if let Ok(Some(inst)) = ty::Instance::try_resolve(tcx, env, cd, args)
                                {
                                    c.put("resolved", J::s(path_of(tcx, inst.def_id())));
                                }
                            }
                            calls.push(c);
                        } else {
                            calls.push(
                                J::obj()
                                    .set("path", J::s("<indirect>"))
                                    .set("sp", J::s(span_str(tcx, root_span(sp)))),
                            );
                        }
                    }
                    _ => {}
                }
            }
        }
        out.push(
            J::obj()
                .set("path", J::s(path_of(tcx, did)))
                .set("asserts", J::Arr(asserts))
                .set("calls", J::Arr(calls))
                .set("casts", J::Arr(casts)),
        );
    }
    J::Arr(out)
}

/// Walks a type tree (ADT fields *and* generic args, through refs/boxes/slices/tuples) looking
/// for interior mutability (`UnsafeCell`), `Rc`, raw pointers to non-primitive data and opaque
/// `dyn`/param types.
struct TyWalk<'tcx> {
    tcx: TyCtxt<'tcx>,
    seen: HashSet<Ty<'tcx>>,
    found: Vec<J>,
}

impl<'tcx> TyWalk<'tcx> {
    fn walk(&mut self, t: Ty<'tcx>, path: &str, depth: usize) {
        if depth > 40 || !self.seen.insert(t) {
            return;
        }
        let tcx = self.tcx;
        match *t.kind() {
            ty::Adt(def, args) => {
                let p = tcx.def_path_str(def.did());
                if def.is_unsafe_cell() {
                    self.found.push(
                        J::obj()
                            .set("what", J::s("UnsafeCell"))
                            .set("via", J::s(path))
                            .set("ty", J::s(ty_str(t))),
                    );
                    return;
                }
                if p == "std::rc::Rc" || p == "alloc::rc::Rc" || p == "std::rc::Weak" {
                    self.found.push(
                        J::obj()
                            .set("what", J::s("Rc"))
                            .set("via", J::s(path))
                            .set("ty", J::s(ty_str(t))),
                    );
                }
                for a in args.iter() {
                    if let Some(at) = a.as_type() {
                        self.walk(at, &format!("{}<{}>", path, p), depth + 1);
                    }
                }
                for v in def.variants() {
                    for f in v.fields.iter() {
                        let ft = f.ty(tcx, args);
                        self.walk(ft, &format!("{}.{}", path, f.name), depth + 1);
                    }
                }
            }
            ty::Ref(_, inner, _) | ty::Slice(inner) | ty::Array(inner, _) => {
                self.walk(inner, path, depth + 1)
            }
            ty::RawPtr(inner, _) => self.walk(inner, &format!("{}*", path), depth + 1),
            ty::Tuple(ts) => {
                for (i, x) in ts.iter().enumerate() {
                    self.walk(x, &format!("{}.{}", path, i), depth + 1);
                }
            }
            ty::Dynamic(..) => self.found.push(
                J::obj()
                    .set("what", J::s("dyn"))
                    .set("via", J::s(path))
                    .set("ty", J::s(ty_str(t))),
            ),
            ty::Param(_) | ty::Alias(..) => self.found.push(
                J::obj()
                    .set("what", J::s("opaque"))
                    .set("via", J::s(path))
                    .set("ty", J::s(ty_str(t))),
            ),
            _ => {}
        }
    }
}

fn dump_items<'tcx>(tcx: TyCtxt<'tcx>) -> J {
    let mut adts = Vec::new();
    let mut consts = Vec::new();
    let mut statics = Vec::new();
    let mut impls = Vec::new();
    let eff = tcx.effective_visibilities(());
    for id in tcx.hir_free_items() {
        let did = id.owner_id.to_def_id();
        let kind = tcx.def_kind(did);
        match kind {
            DefKind::Struct | DefKind::Enum | DefKind::Union => {
                let def = tcx.adt_def(did);
                let t = tcx.type_of(did).instantiate_identity().skip_norm_wip();
                let ident_args = ty::GenericArgs::identity_for_item(tcx, did);
                let mut variants = Vec::new();
                for v in def.variants() {
                    let mut fs = Vec::new();
                    for f in v.fields.iter() {
                        let ft = f.ty(tcx, ident_args);
                        fs.push(
                            J::obj()
                                .set("name", J::s(f.name.to_string()))
                                .set("ty", J::s(ty_str(ft)))
                                .set("vis", J::s(format!("{:?}", f.vis))),
                        );
                    }
                    variants.push(
                        J::obj()
                            .set("name", J::s(v.name.to_string()))
                            .set("fields", J::Arr(fs)),
                    );
                }
                let mut w = TyWalk {
                    tcx,
                    seen: HashSet::new(),
                    found: Vec::new(),
                };
                w.walk(t, "", 0);
                let repr = def.repr();
                let mut o = J::obj()
                    .set("path", J::s(path_of(tcx, did)))
                    .set("kind", J::s(format!("{:?}", kind)))
                    .set("sp", J::s(span_str(tcx, tcx.def_span(did))))
                    .set("vis", J::s(format!("{:?}", tcx.visibility(did))))
                    .set("reachable_pub", J::Bool(eff.is_reachable(id.owner_id.def_id)))
                    .set("repr_c", J::Bool(repr.c()))
                    .set("repr_packed", J::Bool(repr.packed()))
                    .set("repr_transparent", J::Bool(repr.transparent()))
                    .set("repr_align", J::opt(repr.align.map(|a| J::Int(a.bytes() as i128))))
                    .set("variants", J::Arr(variants))
                    .set("interior", J::Arr(w.found))
                    .set("n_generics", J::Int(tcx.generics_of(did).own_params.len() as i128));
                // layout: only for types without type/const params (lifetimes erased)
                let gens = tcx.generics_of(did);
                let only_lt = gens
                    .own_params
                    .iter()
                    .all(|p| matches!(p.kind, ty::GenericParamDefKind::Lifetime));
                if only_lt {
                    let erased = tcx.erase_and_anonymize_regions(t);
                    let env = TypingEnv::fully_monomorphized();
                    if let Ok(layout) = tcx.layout_of(env.as_query_input(erased)) {
                        let mut offs = Vec::new();
                        if let rustc_abi::FieldsShape::Arbitrary { offsets, .. } = &layout.fields {
                            for o2 in offsets.iter() {
                                offs.push(J::Int(o2.bytes() as i128));
                            }
                        }
                        o.put("size", J::Int(layout.size.bytes() as i128));
                        o.put("align", J::Int(layout.align.abi.bytes() as i128));
                        o.put("offsets", J::Arr(offs));
                    }
                    o.put("freeze", J::Bool(erased.is_freeze(tcx, env)));
                }
                adts.push(o);
            }
            DefKind::Const { .. } => {
                let t = tcx.type_of(did).instantiate_identity().skip_norm_wip();
                let mut o = J::obj()
                    .set("path", J::s(path_of(tcx, did)))
                    .set("ty", J::s(ty_str(t)))
                    .set("sp", J::s(span_str(tcx, tcx.def_span(did))));
                if tcx.generics_of(did).count() == 0 {
                    if let Ok(val) = tcx.const_eval_poly(did) {
                        if let Some(s) = val.try_to_scalar_int() {
                            o.put("int", J::Int(s.to_bits_unchecked() as i128));
                        }
                        if printable_const_ty(tcx, t) {
                            let c = mir::Const::Val(val, t);
                            o.put("pretty", J::s(format!("{}", c)));
                        }
                    }
                }
                consts.push(o);
            }
            DefKind::Static { mutability, .. } => {
                let t = tcx.type_of(did).instantiate_identity().skip_norm_wip();
                let env = TypingEnv::fully_monomorphized();
                let mut w = TyWalk {
                    tcx,
                    seen: HashSet::new(),
                    found: Vec::new(),
                };
                w.walk(t, "", 0);
                statics.push(
                    J::obj()
                        .set("path", J::s(path_of(tcx, did)))
                        .set("ty", J::s(ty_str(t)))
                        .set("mut", J::Bool(matches!(mutability, rustc_ast::Mutability::Mut)))
                        .set("freeze", J::Bool(t.is_freeze(tcx, env)))
                        .set("interior", J::Arr(w.found))
                        .set("thread_local", J::Bool(tcx.is_thread_local_static(did)))
                        .set("exp", J::Bool(tcx.def_span(did).from_expansion()))
                        .set("sp", J::s(span_str(tcx, root_span(tcx.def_span(did))))),
                );
            }
            DefKind::Impl { .. } => {
                let self_ty = tcx.type_of(did).instantiate_identity().skip_norm_wip();
                let mut o = J::obj()
                    .set("self", J::s(ty_str(self_ty)))
                    .set("sp", J::s(span_str(tcx, root_span(tcx.def_span(did)))))
                    .set("exp", J::Bool(tcx.def_span(did).from_expansion()));
                if let Some(tr) = tcx.impl_opt_trait_ref(did) {
                    let tr = tr.instantiate_identity().skip_norm_wip();
                    o.put("trait", J::s(path_of(tcx, tr.def_id)));
                    let unsafe_impl = tcx.trait_def(tr.def_id).safety.is_unsafe();
                    o.put("unsafe", J::Bool(unsafe_impl));
                }
                impls.push(o);
            }
            _ => {}
        }
    }
    J::obj()
        .set("adts", J::Arr(adts))
        .set("consts", J::Arr(consts))
        .set("statics", J::Arr(statics))
        .set("impls", J::Arr(impls))
}

impl rustc_driver::Callbacks for Cb {
    fn after_expansion<'tcx>(
        &mut self,
        _compiler: &rustc_interface::interface::Compiler,
        tcx: TyCtxt<'tcx>,
    ) -> rustc_driver::Compilation {
        dump_thir(tcx, self);
        rustc_driver::Compilation::Continue
    }

    fn after_analysis<'tcx>(
        &mut self,
        _compiler: &rustc_interface::interface::Compiler,
        tcx: TyCtxt<'tcx>,
    ) -> rustc_driver::Compilation {
        let mir = dump_mir(tcx);
        let items = dump_items(tcx);
        let krate = tcx.crate_name(rustc_hir::def_id::LOCAL_CRATE).to_string();
        let doc = J::obj()
            .set("crate", J::s(krate.clone()))
            .set("bodies", J::Arr(std::mem::take(&mut self.bodies)))
            .set("mir", mir)
            .set("items", items)
            .set(
                "errors",
                J::Arr(self.errors.iter().map(|e| J::s(e.clone())).collect()),
            );
        let mut s = String::new();
        doc.write(&mut s);
        let path = format!("{}/{}.json", self.out_dir, krate);
        // one write per process
        std::fs::write(&path, s).expect("pgfacts: cannot write fact file");
        rustc_driver::Compilation::Continue
    }
}

fn main() {
    let mut args: Vec<String> = std::env::args().collect();
    // RUSTC_WRAPPER protocol: argv[1] is the path of the real rustc
    if args.len() > 1 && (args[1].ends_with("rustc") || args[1].contains("/rustc")) {
        args.remove(1);
    }
    let crates = std::env::var("PGFACTS_CRATES").unwrap_or_else(|_| "proguard,watto,leb128".into());
    let out_dir = std::env::var("PGFACTS_OUT").unwrap_or_default();
    let mut crate_name = None;
    let mut i = 0;
    while i < args.len() {
        if args[i] == "--crate-name" && i + 1 < args.len() {
            crate_name = Some(args[i + 1].clone());
        }
        i += 1;
    }
    let is_lib_build = !args.iter().any(|a| a == "--test") && !args.iter().any(|a| a == "-vV" || a == "--version" || a.starts_with("--print"));
    let wanted = crate_name
        .as_deref()
        .map(|c| crates.split(',').any(|w| w == c))
        .unwrap_or(false);
    if wanted && is_lib_build && !out_dir.is_empty() {
        let mut cb = Cb {
            out_dir,
            bodies: Vec::new(),
            errors: Vec::new(),
        };
        rustc_driver::run_compiler(&args, &mut cb);
    } else {
        rustc_driver::run_compiler(&args, &mut NoCb);
    }
}
