#!/bin/bash
# MANIFEST.setup_cmd: build the fact extractor offline (nightly toolchain, zero cargo deps).
set -e
cd "$(dirname "$0")/pgfacts"
CARGO_NET_OFFLINE=true cargo build --release --offline
mkdir -p ../.work ../evidence/replay
python3 -m compileall -q ../sa >/dev/null
echo "setup ok"
