//! C20 controls: interior mutability / Rc hidden at various depths of a type tree.
use std::cell::{Cell, RefCell};
use std::collections::HashMap;
use std::rc::Rc;
use std::sync::atomic::AtomicUsize;
use std::sync::Mutex;

pub struct PlainOk<'a> {
    pub a: &'a str,
    pub b: HashMap<&'a str, Vec<u32>>,
}
pub struct BadCell {
    pub hits: Cell<u32>,
}
pub struct BadRc {
    pub shared: Rc<u8>,
}
/// the signature says nothing about auto traits, the hidden type (a boxed trait object) is neither Send nor Sync
pub fn bad_opaque(x: &str) -> impl Iterator<Item = &str> {
    Box::new(x.split(',')) as Box<dyn Iterator<Item = &str>>
}
/// Send + Sync, but history-dependent: must be found by the type-tree walk, not by auto traits.
pub struct BadMutexMemo {
    pub memo: Mutex<HashMap<String, String>>,
}
pub struct BadAtomicCounter {
    pub n: AtomicUsize,
}
/// `Vec<Cell<_>>` is `Freeze` (heap indirection) - the walk must look through generic args.
pub struct BadNested<'a> {
    pub v: HashMap<&'a str, Vec<RefCell<u8>>>,
}
pub static mut BAD_STATIC_MUT: u32 = 0;
pub static BAD_STATIC_ATOMIC: AtomicUsize = AtomicUsize::new(0);
thread_local! { pub static BAD_TLS: Cell<u32> = Cell::new(0); }

pub struct Handle;
impl Handle {
    /// control for the `&self`-only query rule
    pub fn query_mut(&mut self, x: &str) -> usize {
        x.len()
    }
    pub fn unsafe_read(&self, p: *const u8) -> u8 {
        unsafe { *p }
    }
}
