//! EFF controls.
use std::collections::{HashMap, HashSet};
use std::io::Write;

pub fn ctl_hash_iter(m: &HashMap<String, u32>, out: &mut Vec<u32>) {
    for (_, v) in m.iter() {
        out.push(*v);
    }
}
pub fn ctl_hash_into_iter(m: HashSet<u32>, out: &mut Vec<u32>) {
    for v in m {
        out.push(v);
    }
}
pub fn ctl_hash_extend(m: HashSet<u32>, out: &mut Vec<u32>) {
    out.extend(m);
}
pub fn ok_hash_membership(m: &mut HashSet<u32>, x: u32) -> bool {
    m.insert(x) && m.contains(&x)
}
pub fn ctl_time() -> u64 {
    std::time::SystemTime::now().elapsed().map(|d| d.as_secs()).unwrap_or(0)
}
pub fn ctl_ptr_cast(x: &[u8]) -> usize {
    x.as_ptr() as usize
}
pub fn ctl_dropped_write_count<W: Write>(w: &mut W, pad: &[u8]) -> std::io::Result<()> {
    let _ = w.write(pad)?;
    Ok(())
}
pub fn ctl_returned_write_count<W: Write>(w: &mut W, pad: &[u8]) -> std::io::Result<usize> {
    w.write(pad)
}
pub fn ctl_swallowed_error<W: Write>(w: &mut W, data: &[u8]) -> std::io::Result<()> {
    let _ = w.write_all(data);
    w.write_all(data).ok();
    Ok(())
}
pub fn ok_propagated<W: Write>(w: &mut W, data: &[u8]) -> std::io::Result<()> {
    w.write_all(data)?;
    w.write_all(data)
}
pub fn ctl_flush_dependence<W: Write>(w: &mut W, data: &[u8]) -> std::io::Result<()> {
    w.write_all(data)?;
    w.flush()
}
