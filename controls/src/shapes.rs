//! FC controls: decision structures that differ from / equal the references.
pub fn ctl_range_filter_le(line: usize, start: usize, end: usize) -> bool {
    // wrong on purpose: `<=` instead of `<`
    if end > 0 && (line <= start || line > end) {
        return false;
    }
    true
}
pub fn ok_range_filter(line: usize, start: usize, end: usize) -> bool {
    if end > 0 && (line < start || end < line) {
        false
    } else {
        true
    }
}
pub fn ctl_and_then_drops(x: Option<&u32>, f: impl Fn(&u32) -> Option<u32>) -> Option<u32> {
    x.and_then(|t| f(t))
}
pub fn ok_map_keeps(x: Option<&u32>, f: impl Fn(&u32) -> Option<u32>) -> Option<u32> {
    x.map(|t| f(t).unwrap_or(*t))
}
pub fn ctl_early_negative_exit(xs: &[Option<u32>]) -> bool {
    for x in xs {
        match x {
            Some(_) => return true,
            None => return false,
        }
    }
    false
}
pub fn ctl_any_instead_of_all(xs: &[u32], first: u32) -> bool {
    xs.iter().any(|x| *x == first)
}
