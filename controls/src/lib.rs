//! Positive controls: one tiny example per zero-count rule. Every rule whose expected number of
//! matches on /repo is zero must fire on its control here in the same run, otherwise the
//! matcher is blind and the check fails closed. Nothing in here is ever executed.
#![allow(dead_code, unused_variables, clippy::all)]

pub mod types;
pub mod effects;
pub mod census;
pub mod shapes;
