//! Census controls: each `ctl_*` contains exactly one site that no discharge rule may accept;
//! each `ok_*` is the guarded twin that must be discharged.
pub struct Rec {
    pub a: u32,
    pub b: u32,
}
pub fn ctl_unchecked_add_fields(r: &Rec, line: usize) -> usize {
    r.a as usize + line
}
pub fn ctl_unchecked_sub(r: &Rec, line: usize) -> usize {
    line - r.b as usize
}
pub fn ctl_index_unguarded(x: &[u8]) -> u8 {
    x[0]
}
pub fn ctl_unwrap(x: Option<u8>) -> u8 {
    x.unwrap()
}
pub fn ctl_split_at_foreign_pos<'a>(x: &'a [u8], y: &[u8]) -> (&'a [u8], &'a [u8]) {
    match y.iter().position(|c| *c == 0) {
        Some(pos) => x.split_at(pos),
        None => (x, &[]),
    }
}
pub fn ctl_range_index(x: &[u8], n: usize) -> &[u8] {
    &x[n..]
}
pub fn ctl_shift_var(x: u64, s: u32) -> u64 {
    x << s
}
pub fn ctl_div_var(x: usize, d: usize) -> usize {
    x / d
}
pub fn ctl_u32_counter(xs: &[u8]) -> u32 {
    let mut n: u32 = 0;
    for _ in xs {
        n += 1;
    }
    n
}
pub fn ctl_explicit_panic(x: u8) -> u8 {
    if x == 3 {
        panic!("boom");
    }
    x
}
pub fn ctl_sum_u32(xs: &[u32]) -> u32 {
    xs.iter().copied().sum::<u32>()
}

pub fn ok_guarded_idx0(x: &[u8]) -> bool {
    !x.is_empty() && x[0] == 1
}
pub fn ok_pos_split(x: &[u8]) -> (&[u8], &[u8]) {
    match x.iter().position(|c| *c == 0) {
        Some(pos) => x.split_at(pos),
        None => (x, &[]),
    }
}
pub fn ok_two_indices(x: &[u8]) -> usize {
    match x.iter().position(|c| *c == 0) {
        Some(pos) => pos + 1,
        None => x.len(),
    }
}
pub fn ok_counter(xs: &[u8]) -> usize {
    let mut n = 0usize;
    for _ in xs {
        n += 1;
    }
    n
}
