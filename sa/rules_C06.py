"""C06 - parsing is total and a bad line never affects the lines after it (CEN + SEQ + FC)."""
import facts as F
import anchors as A
import parser_rules as PR
import cen_rules as CR
import rules_C01 as R1
import rules_C12 as R12

LEVEL = "other"
TECHNIQUE = ("panic/overflow census over everything reachable from the record iterator; grammar-skeleton extraction with byte-set "
             "predicates (line-bounded scans); combinator shape rules (suffix property, progress); loop-idiom recognition")
EXPLANATION = ("Decided in full modulo trusted std summaries: (1) no panic: every arithmetic/index/slice/unwrap site reachable from "
               "ProguardRecordIter::next and ProguardRecord::try_parse is discharged by a local rule; (2) strict progress: each combinator "
               "returns as rest a suffix of its cursor (split_at(..).1 / strip_prefix / bytes[p..] / empty), every success path of the three "
               "record parsers consumes a mandatory non-empty literal, the error path consumes split_line(line start) = position(newline)+1 "
               "or everything, next() returns None iff the slice is empty and otherwise stores the returned rest => each item consumes >= 1 "
               "byte => termination and at most one item per byte; (3) line-bounded scans: every scan's stop set contains \\r and \\n, "
               "literals are newline-free, captures are scan results or trims/splits of them => no yielded string contains a terminator; "
               "(4) resynchronisation: (3) + the error path consumes exactly the current line from its start + every parser ends with "
               "consume_leading_newlines.")
RULE_TEXT = "one instance per census site, per scan / literal of the skeletons, per combinator shape, per loop"
TRUSTED = R12.TRUSTED


def run(ctx, rep):
    fx = ctx.facts("")
    rep.configs.append("default")
    roots = []
    for what, cands in (("ProguardRecordIter::next", A.method(fx, "mapping::ProguardRecordIter", "next", trait="Iterator")),
                        ("ProguardRecord::try_parse", A.method(fx, "mapping::ProguardRecord", "try_parse")),
                        ("ProguardMapping::iter", A.method(fx, "mapping::ProguardMapping", "iter"))):
        p = A.one(rep, "C06.roots", what, cands)
        if p:
            roots.append(p)
    seen, n_sites, _ = CR.run_census(fx, rep, "C06.1", roots, dict(a_size=False))
    import recursion as RC
    RC.check_recursion(fx, rep, "C06.rec", seen)
    rep.floor("C06.1", n_sites, 3, "census sites on the parser paths (counted: bytes[0], 3x split_at, bytes[pos..], pos+1; a refactor may legitimately remove some)")
    n_loops = R12.check_loops(fx, rep, "C06.1.loops", seen)
    import api_rules as AR
    AR.check_mapping_wiring(fx, rep, "C06.api")
    # consumers: the two builders read every Ok record of the whole stream (an error item ends nothing)
    import builder_rules as BR
    for impl in ("mapper", "cache"):
        rl = BR.record_loop(fx, rep, "C06.5", impl)
        if rl is not None:
            BR.check_record_stream(fx, rep, "C06.5", impl, rl)
    PR.check_combinators(fx, rep, "C06.2")
    PR.is_newline_set(fx, rep, "C06.2")
    PR.check_dispatch(fx, rep, "C06.2")
    PR.check_iterator(fx, rep, "C06.2")
    sks = {}
    sks["member"] = PR.check_member_parser(fx, rep, "C06.g2")
    sks["class"] = PR.check_class_parser(fx, rep, "C06.g3")
    sks["header"] = PR.check_header_parser(fx, rep, "C06.g3")
    n = PR.all_scans_line_bounded(rep, "C06.3", sks)
    rep.floor("C06.3", n, 9, "scan steps on success paths of the record parsers")
    # progress: a mandatory non-empty literal on every success path; every parser tail skips newlines
    for name, sk in sks.items():
        okp = bool(sk)
        okt = bool(sk)
        for events, rec, idx_of, st in sk or []:
            okp = okp and any(k == "lit" and x for k, x in events)
            okt = okt and events[-1][0] == "skipnl"
        rep.check("C06.2", "C06.2/progress/%s" % name, okp, found="%d success path(s) all consume a non-empty literal: %s" % (len(sk or []), okp),
                  expected="every Ok path consumes at least one byte")
        rep.check("C06.4", "C06.4/tail-skips-newlines/%s" % name, okt, found="every success path ends with consume_leading_newlines: %s" % okt,
                  expected="the next record starts at the next non-empty line")
    CR.run_controls(ctx, rep, "C06.1")
    rep.assumptions += ["std: Iterator::position / split_at / strip_prefix / from_utf8 semantics as documented"]
