"""C16 - valid JVM descriptors deobfuscate to the right Java types, invalid ones to none (TAB + FC + TWIN + CEN)."""
import re
import facts as F
import sym as S
import fc
import refs as R
import anchors as A
import rules_C01 as R1
import rules_C02 as R2
import census as C
import flow as FL
import models as M
from sym import some, NONE, lit_int, mk_field, mk_payload

LEVEL = "other"
TECHNIQUE = R1.TECHNIQUE + "; literal table agreement; per-implementation references (twin comparison as cross-reference); slicing census"
EXPLANATION = ("Decided clauses: the JVM primitive table (Z,B,C,S,I,J,F,D,V -> keywords, anything else none); the per-character state machine "
               "of byte_code_type_to_java_type(_cache) ('[' appends \"[]\" to the suffix, 'L' requires a trailing ';' else none, body has '/' "
               "replaced by '.', result is remap_class(name) else name followed by the suffix, primitive -> keyword + suffix, exhausted -> "
               "none); the guards of the signature splitter (leading '(', last ')', non-empty return type, ';'-terminated object types, all "
               "slicing through get()); assembly (parameters = non-empty tokens converted in order, dropped if unconvertible; return type "
               "mandatory) and format_signature ('(' + join(\", \") + ')' and ': ' + ret unless empty or void); mapper and cache copies "
               "each equal the same reference (class registration in both builders, class lookup and the public entry points included). slice bounds are byte offsets only (no item counts). the tokenizer's per-iteration bookkeeping (token = slice from the token start to the "
               "terminator inclusive, start := terminator + 1, '[' keeps the start, object scan stops at the first ';') equals the reference. "
               "NOT decided: the inductive argument that this bookkeeping cuts every valid descriptor at type boundaries (paper argument over the per-iteration clauses).")
RULE_TEXT = R1.RULE_TEXT
TRUSTED = R1.TRUSTED

PRIMS = {"Z": "boolean", "B": "byte", "C": "char", "S": "short", "I": "int", "J": "long", "F": "float", "D": "double", "V": "void"}


def call(name, *args):
    return ("call", name, tuple(args))


def check_prim_table(fx, rep, rule):
    p = A.one(rep, rule, "java::java_base_types", A.func(fx, "java", "java_base_types"))
    if not p:
        return None
    rep.fn(p)
    b = fx.bodies[p]
    sy = S.Sym(fx)
    res = sy.eval_body(b)
    x = ("in", b["params"][0]["pat"]["name"])
    table = {}
    default = []
    okshape = True
    for st, (k, v) in res:
        pos = [a for a, pol in st.conds if pol]
        if len(pos) == 1 and pos[0][0] == "eq" and pos[0][1] == x and pos[0][2][0] == "lit":
            if v[0] == "adt" and v[2] == "Some" and v[3][0][1][0] == "lit":
                table[pos[0][2][2]] = v[3][0][1][2]
            else:
                okshape = False
        elif not pos:
            default.append(v)
        else:
            okshape = False
    rep.check(rule, "%s/primitive-table" % rule, okshape and table == PRIMS and default == [NONE], loc=F.short_file(b["sp"]),
              found="table %s default %s" % (table, [S.tstr(d) for d in default]), expected="%s, anything else None" % PRIMS)
    return p


def shared_renderer(fx, entry_name, remap_path, prim_path):
    """the two renderers merged into one private function that gets the class lookup handed in (a closure, or a type parameter
    bound by a crate trait): found by role (the function of java.rs with a loop that consults the primitive table), and judged
    *as called from this implementation's entry point* - with the lookup argument that entry point passes.
    Returns (renderer path, argument values, type substitution, receiver term) or None."""
    cands = [q for q, b_ in fx.bodies.items() if q.startswith("proguard::java::") and b_["kind"] == "Fn" and S.has_loop(b_)
             and (b_.get("output") or "") == "std::option::Option<std::string::String>"
             and any(n_.get("k") == "Call" and "fn" in n_ and fx.by_dp.get(n_["fn"].get("dp")) == prim_path for n_ in F.walk(b_["body"]))]
    entry = A.func(fx, "java", entry_name)
    if len(cands) != 1 or len(entry) != 1:
        return None
    rp_, eb = cands[0], fx.bodies[entry[0]]
    rb = fx.bodies[rp_]
    if len(rb["params"]) != 2 or len(eb["params"]) != 2:
        return None
    splitter = A.func(fx, "java", "parse_obfuscated_bytecode_signature")
    sy0 = S.Sym(fx, opaque=lambda q: q in (rp_, remap_path, prim_path) or q in splitter, inline_mut=True)
    try:
        res0 = sy0.eval_body(eb)
    except S.Undecidable:
        return None
    args1 = set()

    def g(t):
        if t[0] in ("call", "mcall") and t[1] == S.short_path(rp_) and len(t[2]) == 2:
            args1.add(t[2][1])
        return None
    for st_, (k_, v_) in res0:
        fc.rewrite(v_, g)
        for a_, p_ in st_.conds:
            fc.rewrite(a_, g)
    if len(args1) != 1:
        return None
    arg1 = list(args1)[0]
    ename = eb["params"][1]["pat"]["name"] if eb["params"][1].get("pat") else None
    recv = ("in", ename)
    tsub = {}
    if arg1 == recv:
        # handed on as it is: the renderer is generic over the implementation (`R: ClassRemapper`)
        gens = [g_ for g_ in (rb.get("generics") or []) if not g_.startswith("'")]
        pty, aty = rb["params"][1].get("ty") or "", eb["params"][1].get("ty") or ""
        m_ = re.match(r"^&(%s)$" % "|".join(re.escape(g_) for g_ in gens), pty) if gens else None
        if not m_ or not aty.startswith("&"):
            return None
        tsub = {m_.group(1): aty[1:]}
    elif arg1[0] != "closure":
        return None
    names = [prm["pat"]["name"] for prm in rb["params"] if prm.get("pat")]
    return rp_, [("in", names[0]), arg1], tsub, recv


def check_type_renderer(fx, rep, rule, name, remap_path, prim_path, entry_name=None):
    cand = A.func(fx, "java", name)
    shared = None
    both = all(len(A.func(fx, "java", n_)) == 1 for n_ in ("byte_code_type_to_java_type", "byte_code_type_to_java_type_cache"))
    if not both and entry_name:
        # (one of the two names may survive as the name of the merged, generic function)
        shared = shared_renderer(fx, entry_name, remap_path, prim_path)
    if shared:
        p = shared[0]
    else:
        p = A.one(rep, rule, "java::" + name, cand)
    if not p:
        return
    rep.fn(p)
    b = fx.bodies[p]
    # (a shared generic helper taking the class lookup as a closure is inlined, loop included)
    sy = S.Sym(fx, opaque=lambda q: q in (remap_path, prim_path), inline_mut=True)
    try:
        if shared:
            sy.tsubst.append(shared[2])
            res = sy.eval_body(b, shared[1], S.St())
        else:
            res = sy.eval_body(b)
    except S.Undecidable as e:
        rep.undecidable(rule, "%s/%s/shape" % (rule, name), loc=F.loc(e.node) if isinstance(e.node, dict) else "", construct=e.msg)
        return
    if len(sy.loop_order) != 1:
        rep.undecidable(rule, "%s/%s/shape" % (rule, name), loc=F.short_file(b["sp"]), construct="%d loops" % len(sy.loop_order))
        return
    L = sy.loops[sy.loop_order[0]]
    idx = L["index"]
    names = [prm["pat"]["name"] for prm in b["params"] if prm.get("pat")]
    recv = shared[3] if shared else ("in", names[1])
    # role of the suffix accumulator: the String place receiving push_str
    sufs = {e[2][0][1] for st, o in L["paths"] for e in st.effects if e[0] == "call" and e[1].endswith("String::push_str") and e[2][0][0] == "place"}
    if len(sufs) != 1:
        rep.undecidable(rule, "%s/%s/suffix" % (rule, name), loc=F.short_file(b["sp"]), construct="suffix accumulators: %s" % sorted(sufs))
        return
    suf = ("loop", list(sufs)[0], idx)
    RC, PT = S.short_path(remap_path), S.short_path(prim_path)
    tok = R.ELEM

    def rw(t):
        r = R.rw_iter(t)
        if r is not None:
            return r
        if t[0] == "mcall" and t[1].endswith("DoubleEndedIterator::next_back"):
            return ("in", "LASTCH")
        if t[0] == "after" and t[1] == ("in", "LASTCH"):
            return ("in", "BODY")
        # `chars.as_str().strip_suffix(';')` right after the `L` was taken: Some(body) iff the last character is ';' (one test for
        # "there is a last character" and "it is ';'", linked to the reference's two atoms by `strip_axioms` below)
        if t[0] == "call" and t[1] == "core::str::strip_suffix" and len(t[2]) == 2 and t[2][1] == ("lit", "char", ";") and t[2][0] in (("after", R.NEXT), ("after", R.NEXT, 0)):
            return ("in", "STRIPPED")
        if t[0] == "payload" and t[1] == ("in", "STRIPPED") and t[2] == "Some":
            return ("in", "BODY")
        return None
    last = ("in", "LASTCH")

    def strip_axioms(a_):
        s_ = a_.get(("is", ("in", "STRIPPED"), "Some"))
        l_ = a_.get(("is", last, "Some"))
        e_ = a_.get(fc.canon_atom(("eq", mk_payload(last, "Some", "0"), ("lit", "char", ";")))[0])
        if s_ is True and (l_ is False or e_ is False):
            return False
        if s_ is False and l_ is True and e_ is True:
            return False
        return True

    def fmt2(a, b_):
        return some(("format", ("fmtargs", (("hole",), ("hole",)), (("display", a), ("display", b_)))))

    def ref(o):
        if not o(("is", R.NEXT, "Some")):
            return ("end", ())
        if o(("eq", tok, ("lit", "char", "L"))):
            if not o(("is", last, "Some")):
                return ("ret", NONE, ())
            if not o(("eq", mk_payload(last, "Some", "0"), ("lit", "char", ";"))):
                return ("ret", NONE, ())
            obf = call("std::str::replace", ("in", "BODY"), ("lit", "char", "/"), ("lit", "str", "."))
            m = call(RC, recv, obf)
            if o(("is", m, "Some")):
                return ("ret", fmt2(mk_payload(m, "Some", "0"), suf), ())
            return ("ret", fmt2(obf, suf), ())
        if o(("eq", tok, ("lit", "char", "["))):
            return ("cont", (("push_str", ("lit", "str", "[]")),))
        pt = call(PT, tok)
        if o(("is", pt, "Some")):
            return ("ret", fmt2(mk_payload(pt, "Some", "0"), suf), ())
        return ("cont", ())

    def outcome(st, out):
        k, v = out
        effs = tuple(("push_str", fc.rewrite(e[2][1], rw)) for e in st.effects if e[0] == "call" and e[1].endswith("String::push_str"))
        other = [e for e in st.effects if e[0] == "call" and not (R.is_next(e[1]) or e[1].endswith(("next_back", "push_str")))]
        if other:
            return ("other-effects", tuple(other))
        if k == S.BRK:
            return ("end", effs)
        if k == S.RET:
            return ("ret", fc.rewrite(v, rw), effs)
        return ("cont", effs)
    base = len(L["entry"].conds)
    # exits from inside the loop are taken at function level: when the loop lives in a private helper, what the helper returns
    # there is not yet the function's answer - the caller's continuation (its match on the helper's result) is part of the path
    lpaths = [(st, o) for st, o in L["paths"] if o[0] != S.RET]
    for st, (k, v) in res:
        if ("inloop", idx) in st.effects:
            st2 = st.copy()
            st2.effects = tuple(st.effects[st.effects.index(("inloop", idx)) + 1:])
            lpaths.append((st2, (S.RET, v)))
    bad, n = fc.compare_paths(lpaths, ref, outcome, rw=rw, axioms=strip_axioms, base=base)
    if not bad:
        rep.ok(rule, "%s/%s/state-machine" % (rule, name), loc=F.loc(L["node"]),
               found="%d canonical paths equal the reference ('[' -> suffix += \"[]\"; 'L..;' -> remap_class(dotted) else dotted; primitive -> keyword; + suffix)" % len(L["paths"]))
    else:
        for conds, io, ro, comp in bad[:3]:
            rep.violation(rule, "%s/%s/state-machine/%s" % (rule, name, R1.short_hash(S.cstr(conds) + repr(io))), loc=F.loc(L["node"]),
                          found="when %s: %s" % (S.cstr(tuple((fc.rewrite(a, rw), p_) for a, p_ in conds)), S.tstr(io)[:300]), expected=S.tstr(ro)[:300])
    tails = [o for st, o in res if not any(e[0] == "inloop" for e in st.effects)]
    rep.check(rule, "%s/%s/exhausted" % (rule, name), tails == [(S.VAL, NONE)], loc=F.short_file(b["sp"]), found=[S.tstr(o[1]) for o in tails],
              expected="None when the characters are exhausted without a type", nontrivial=False)
    # driver: chars() of the descriptor
    drv = None
    for nn in F.walk(L["node"]["body"]):
        if F.is_call(nn, "std::iter::Iterator::next"):
            v = F.strip(nn["args"][0])
            drv = L["pre"].env.get(v["id"]) if v.get("k") in ("Var", "Upvar") else None
            break
    rep.check(rule, "%s/%s/driver" % (rule, name), drv == call("core::str::chars", ("in", names[0])), loc=F.loc(L["node"]),
              found="loop iterates %s" % (S.tstr(drv) if drv else "?"), expected="chars() of the descriptor", nontrivial=False)


def check_splitter_guards(fx, rep, rule):
    p = A.one(rep, rule, "java::parse_obfuscated_bytecode_signature", A.func(fx, "java", "parse_obfuscated_bytecode_signature"))
    if not p:
        return
    rep.fn(p)
    b = fx.bodies[p]
    prim = A.func(fx, "java", "java_base_types")
    sy = S.Sym(fx, opaque=lambda q: q in prim, inline_mut=True)
    try:
        res = sy.eval_body(b)
    except S.Undecidable as e:
        rep.undecidable(rule, "%s/splitter/shape" % rule, loc=F.loc(e.node) if isinstance(e.node, dict) else "", construct=e.msg)
        return
    sig = ("in", b["params"][0]["pat"]["name"])
    sp_ = call("core::str::strip_prefix", sig, ("lit", "char", "("))
    rs = call("core::str::rsplit_once", mk_payload(sp_, "Some", "0"), ("lit", "char", ")"))
    ret = mk_field(mk_payload(rs, "Some", "0"), "1")
    somes = [(st, v) for st, (k, v) in res if v[0] == "adt" and v[2] == "Some"]
    good = len(somes) >= 1
    for st, v in somes:
        a = fc.assignment(st.conds)
        g = a.get(("is", sp_, "Some")) is True and a.get(("is", rs, "Some")) is True and a.get(("empty", ret)) is False
        tup = v[3][0][1]
        g = g and tup[0] == "tuple" and tup[1][1] == ret and tup[1][0][0] in ("loop", "after")
        good = good and g
    rep.check(rule, "%s/splitter/result-guards" % rule, good, loc=F.short_file(b["sp"]),
              found="%d Some path(s); %s" % (len(somes), [S.cstr(st.conds)[:200] for st, v in somes][:2]),
              expected="Some((types, return_type)) only after strip_prefix('(')?, rsplit_once(')')? and a non-empty return type")
    # pushes in the 'L' arm are dominated by ends_with([';']) and non-empty
    ok_push = True
    n_push = 0
    for key in sy.loop_order:
        L = sy.loops[key]
        for st, (k, v) in L["paths"]:
            for e in st.effects:
                if e[0] == "call" and e[1].endswith("Vec::push"):
                    n_push += 1
                    a = fc.assignment(st.conds)
                    is_L = any(at[0] == "eq" and at[2] == ("lit", "char", "L") and pol for at, pol in a.items())
                    if is_L:
                        ew = [pol for at, pol in a.items() if at[0] == "bool" and at[1][0] == "call" and at[1][1].endswith("str::ends_with")]
                        em = [pol for at, pol in a.items() if at[0] == "empty"]
                        # find form: the token ends at the `;` that `find(|&(_, c)| c == ';')?` stopped at (predicate and slice end
                        # are decided by the tokenizer rule C16.6/object-scan), so the terminator needs no second test
                        found_semicolon = any(at[0] == "is" and at[2] == "Some" and pol and at[1][0] == "mcall" and at[1][1] == "std::iter::Iterator::find"
                                              for at, pol in a.items())
                        if not ((ew and all(ew) and em and not any(em)) or found_semicolon):
                            ok_push = False
    rep.check(rule, "%s/splitter/object-type-terminated" % rule, ok_push and n_push >= 2, loc=F.short_file(b["sp"]),
              found="%d push path(s); every object-type push is guarded by ends_with([';']) and non-empty: %s" % (n_push, ok_push),
              expected="an unterminated `L...` token yields None, never a type")
    # slicing only through get()
    hb_ = [fx.bodies[q] for q in fx.reachable([p]) if fx.bodies[q]["krate"] == "proguard" and q.startswith("proguard::java::")
           and not q.endswith("java_base_types")]
    idxs = [n for hb in hb_ for n in F.walk(hb["body"]) if n.get("k") == "Index" or F.is_call(n, "std::ops::Index::index")]
    gets = [n for hb in hb_ for n in F.walk(hb["body"]) if F.is_call(n, "core::str::<impl str>::get")]
    rep.check(rule, "%s/splitter/checked-slicing" % rule, not idxs and len(gets) >= 1, loc=F.short_file(b["sp"]),
              found="%d raw index/slice operations, %d get(..) calls" % (len(idxs), len(gets)), expected="all slicing by computed byte indices goes through str::get(..)?", nontrivial=False)


def byte_offset(n, fam, seen=None):
    """reason if the usize expression is a byte offset into the scanned str (char_indices index, str len,
    literal, or a sum of those); None if it mixes in anything else (e.g. an item count from position())"""
    seen = seen or set()
    n = FL.peel(n)
    if C.int_lit(n) is not None:
        return "literal"
    if F.is_call(n, "core::str::<impl str>::len"):
        return "str len"
    if F.is_call(n, "core::char::methods::<impl char>::len_utf8", "std::char::methods::<impl char>::len_utf8"):
        return "width of a character in bytes"
    if n.get("k") == "Binary" and n["op"] == "Add":
        a, b = byte_offset(n["l"], fam, seen), byte_offset(n["r"], fam, seen)
        return "sum" if (a and b) else None
    if n.get("k") == "Field" and n.get("name") == "0" and FL.try_operand(F.strip(n["e"])) is not None:
        r_ = C.payload_is_index(n["e"], [("field", "0")], fam, seen)
        if r_ and "char_indices" in r_:
            return "index component of a char_indices() item"
    if n.get("k") in ("If", "Match", "Block") and len(seen) < 12:
        # a value chosen by if / match / block: every branch that yields a value yields a byte offset
        k_ = n["k"]
        if k_ == "If":
            branches = [n["then"], n["else"]] if n.get("else") is not None else None
        elif k_ == "Match":
            branches = [a_["body"] for a_ in n["arms"]] if FL.try_operand(n) is None else None
        else:
            branches = [n["tail"]] if n.get("tail") is not None else None
        if branches is None:
            return None
        got = []
        for br in branches:
            b_ = F.strip(br)
            if b_.get("ty") == "!" or b_.get("k") in ("Continue", "Break", "Return"):
                continue
            r_ = byte_offset(br, fam, seen)
            if r_ is None:
                return None
            got.append(r_)
        return "byte offset on every branch" if got else None
    if n.get("k") == "Call" and "fn" in n and len(seen) < 12:
        # a private helper returning an index (e.g. `skip_object_type(&mut chars, start) -> usize`): its result is a byte offset
        # if its tail value is one inside the helper, where its own usize parameters are byte offsets because every argument
        # passed here is
        fx_ = fam.fx
        tgt = fx_.by_dp.get(n["fn"].get("dp"))
        if tgt and tgt in fx_.bodies and fx_.bodies[tgt]["krate"] == "proguard" and fx_.bodies[tgt].get("output") == "usize":
            hb = fx_.bodies[tgt]
            ok_args = True
            usize_params = set()
            for prm, arg in zip(hb["params"], n["args"]):
                if (prm.get("ty") or "") == "usize":
                    if byte_offset(arg, fam, seen) is None:
                        ok_args = False
                    elif prm.get("pat") and prm["pat"].get("k") == "Bind":
                        usize_params.add(prm["pat"]["id"])
            if ok_args:
                hfam = C.Family(fx_, tgt)
                tail = F.strip(hb["body"])
                while tail.get("k") == "Block" and tail.get("tail") is not None:
                    tail = F.strip(tail["tail"])
                r = byte_offset(tail, hfam, seen | {("trusted-params",) + tuple(sorted(usize_params))})
                return ("result of %s: %s" % (tgt.split("::")[-1], r)) if r else None
        return None
    if n.get("k") in ("Var", "Upvar"):
        if n["id"] in seen:
            return "cyclic"
        seen = seen | {n["id"]}
        srcs = fam.origins.sources(n["id"])
        if not srcs:
            return None
        trusted = set()
        for x_ in seen:
            if isinstance(x_, tuple) and x_ and x_[0] == "trusted-params":
                trusted |= set(x_[1:])
        for path, expr, how in srcs:
            if how == "param" and n["id"] in trusted:
                continue
            if how == "assign" or (how == "let" and path == ()):
                if expr is None or byte_offset(expr, fam, seen) is None:
                    return None
            elif how in ("match", "iflet", "let") and expr is not None:
                r = C.payload_is_index(expr, path, fam, seen)
                if not r or "char_indices" not in r:
                    return None
            else:
                return None
        return "byte offset"
    return None


def check_byte_offsets(fx, rep, rule):
    """C16.3: every bound used to slice the descriptor is a byte offset (char_indices indices, literals, len):
    mixing in an item count (position(), enumerate()) is a unit error for non-ASCII names"""
    p = A.func(fx, "java", "parse_obfuscated_bytecode_signature")
    if len(p) != 1:
        A.one(rep, rule, "java::parse_obfuscated_bytecode_signature", p)
        return
    n_b = 0
    # the splitter and the private helpers it delegates to
    bodies_ = [q for q in fx.reachable([p[0]]) if fx.bodies[q]["krate"] == "proguard" and q.startswith("proguard::java::")
               and fx.bodies[q]["kind"] in ("Fn", "AssocFn") and not q.endswith("java_base_types")]
    for q in sorted(bodies_):
      b = fx.bodies[q]
      fam = C.Family(fx, q)
      for n in F.walk(b["body"]):
        if F.is_call(n, "core::str::<impl str>::get"):
            rng = F.strip(n["args"][1])
            if rng.get("k") == "Adt":
                for f in rng["fields"]:
                    n_b += 1
                    r = byte_offset(f["e"], fam)
                    rep.check(rule, "%s/splitter/byte-offset/%s/%s" % (rule, f["name"], C.canon(f["e"])), r is not None, loc=F.loc(n),
                              found="slice bound %s = %s%s" % (f["name"], F.pp(f["e"]), (" (%s)" % r) if r else " mixes in a value that is not a byte offset"),
                              expected="slice bounds are byte offsets: char_indices() indices, literals, str len, and sums of those")
    rep.floor(rule + "/byte-offset", n_b, 2, "slice bounds in the descriptor splitter (4 counted; merged arms leave one slice with two bounds)")


def check_tokenizer(fx, rep, rule):
    """C16.6: per-iteration bookkeeping of the descriptor tokenizer: a type token is the slice from `first_idx` (start of the
    token, array brackets included) to the terminating character inclusive; `first_idx` then moves just past it; '[' alone
    consumes nothing; unknown characters are skipped. The object-type scan records the index of every character it consumes
    and stops at the first ';'."""
    p = A.func(fx, "java", "parse_obfuscated_bytecode_signature")
    prim = A.func(fx, "java", "java_base_types")
    if len(p) != 1 or len(prim) != 1:
        A.one(rep, rule, "java::parse_obfuscated_bytecode_signature / java::java_base_types", [])
        return
    b = fx.bodies[p[0]]
    sy = S.Sym(fx, opaque=lambda q: q in prim, inline_mut=True)        # (private helpers of the splitter are inlined, loops included)
    try:
        res = sy.eval_body(b)
    except S.Undecidable as e:
        rep.undecidable(rule, "%s/tokenizer/shape" % rule, loc=F.loc(e.node) if isinstance(e.node, dict) else "", construct=e.msg)
        return
    loops = sorted(sy.loops.values(), key=lambda L: L["index"])
    find_form = None
    if len(loops) == 1:
        # the object-type scan written as `iter.by_ref().find(|&(_, c)| c == ';')?` instead of an inner loop
        finds = {("mcall",) + tuple(e[1:]) for st, o in loops[0]["paths"] for e in st.effects if e[0] == "call" and e[1] == "std::iter::Iterator::find"}
        if len(finds) == 1:
            find_form = list(finds)[0]
    if len(loops) != 2 and find_form is None:
        rep.undecidable(rule, "%s/tokenizer/shape" % rule, loc=F.short_file(b["sp"]), construct="%d loops (expected the token loop and the object-type scan)" % len(loops))
        return
    outer = loops[0]
    inner = loops[1] if find_form is None else None
    sig = ("in", b["params"][0]["pat"]["name"])
    sp_ = call("core::str::strip_prefix", sig, ("lit", "char", "("))
    rs = call("core::str::rsplit_once", mk_payload(sp_, "Some", "0"), ("lit", "char", ")"))
    ptypes = mk_field(mk_payload(rs, "Some", "0"), "0")
    PT = S.short_path(prim[0])
    # role names of the loop-carried variables from the effects
    names_first = {e[1][1] for st, o in outer["paths"] for e in st.effects if e[0] == "assign" and e[1][0] == "place"}
    names_last = {e[1][1] for st, o in inner["paths"] for e in st.effects if e[0] == "assign" and e[1][0] == "place"} if inner else {"<find>"}
    pushes = {e[2][0][1] for st, o in outer["paths"] for e in st.effects if e[0] == "call" and e[1].endswith("Vec::push") and e[2][0][0] == "place"}
    if len(names_first) != 1 or len(names_last) != 1 or len(pushes) != 1:
        rep.undecidable(rule, "%s/tokenizer/state" % rule, loc=F.short_file(b["sp"]),
                        construct="state variables: token start %s, scan position %s, output %s" % (sorted(names_first), sorted(names_last), sorted(pushes)))
        return
    first = ("loop", list(names_first)[0], outer["index"])
    FIND = fc.rewrite(find_form, R.rw_iter) if find_form else None
    last = ("loop", list(names_last)[0], inner["index"]) if inner else mk_field(mk_payload(FIND, "Some", "0"), "0")
    out = ("place", list(pushes)[0], ())
    idx, tok = mk_field(R.ELEM, "0"), mk_field(R.ELEM, "1")

    def get(a, b_):
        return call("core::str::get", ptypes, ("adt", "Range", "Range", (("start", a), ("end", S.lin_norm([(b_, 1)], 1)))))

    def ref(o):
        if not o(("is", R.NEXT, "Some")):
            return ("end", ())
        if o(("eq", tok, ("lit", "char", "L"))):
            if FIND is not None and not o(("is", FIND, "Some")):
                # no terminator: the inner-loop form reaches the same None through the `ends_with(';')` guard
                return ("ret", NONE, ())
            ty = get(first, last)
            if not o(("is", ty, "Some")):
                return ("ret", NONE, ())
            t = mk_payload(ty, "Some", "0")
            if o(("empty", t)) or not o(("bool", call("core::str::ends_with", t, ("array", (("lit", "char", ";"),))))):
                return ("ret", NONE, ())
            return ("cont", (("push", out, t), ("assign", first[1], S.lin_norm([(last, 1)], 1))))
        if o(("eq", tok, ("lit", "char", "["))):
            return ("cont", ())
        if o(("is", call(PT, tok), "Some")):
            ty = get(first, idx)
            if not o(("is", ty, "Some")):
                return ("ret", NONE, ())
            return ("cont", (("push", out, mk_payload(ty, "Some", "0")), ("assign", first[1], S.lin_norm([(idx, 1)], 1))))
        return ("cont", ())

    def rw_tok(t):
        r_ = R.rw_iter(t)
        if r_ is not None:
            return r_
        # `ends_with([';'])` and `ends_with(';')` are the same pattern
        if t[0] == "call" and t[1] == "core::str::ends_with" and len(t[2]) == 2 and t[2][1] == ("lit", "char", ";"):
            return ("call", t[1], (t[2][0], ("array", (("lit", "char", ";"),))))
        return None

    def tok_axioms(a_):
        """an empty token cannot end with ';' (so a missing `is_empty()` test is not a different decision); a character that
        is not a key of the primitive table (C16.1: exactly Z B C S I J F D V) has no base type, so `'['` falling into a
        catch-all arm behind the base-type test is the same decision"""
        for k_, v_ in a_.items():
            if k_[0] == "eq" and v_ is True and k_[2][0] == "lit" and k_[2][1] == "char" and k_[2][2] not in PRIMS:
                for k2, v2 in a_.items():
                    if k2[0] == "is" and k2[2] == "Some" and k2[1] == ("call", PT, (k_[1],)) and v2 is True:
                        return False
        if FIND is not None:
            # find form: the token ends at the character find() stopped at, which satisfies the predicate `c == ';'` (checked
            # by the object-scan rule) - the token is non-empty and ends with ';' whether or not the code re-tests it
            tk = mk_payload(get(first, last), "Some", "0")
            if a_.get(("empty", tk)) is True:
                return False
            if a_.get(("bool", call("core::str::ends_with", tk, ("array", (("lit", "char", ";"),))))) is False:
                return False
        for k_, v_ in a_.items():
            if k_[0] == "empty" and v_ is True:
                for k2, v2 in a_.items():
                    if k2[0] == "bool" and k2[1][0] == "call" and k2[1][1] == "core::str::ends_with" and k2[1][2][0] == k_[1] and v2 is True:
                        return False
        return True

    def effs(st):
        o_ = []
        for e in st.effects:
            e = fc.rewrite(e, rw_tok)
            if e[0] == "call" and e[1].endswith("Vec::push"):
                o_.append(("push", e[2][0], e[2][1]))
            elif e[0] == "assign" and e[1][0] == "place":
                o_.append(("assign", e[1][1], e[2]))
            elif e[0] == "call" and R.is_next(e[1]) or e[0] in ("loopsum", "inloop"):
                continue
            elif FIND is not None and e[0] == "call" and ("mcall",) + tuple(e[1:]) == FIND:
                continue
            else:
                o_.append(("other", e))
        return tuple(o_)

    def ascii_token(st):
        """on this path the current token is known to be one byte wide: it equals an ASCII literal or is a key of the primitive
        table (C16.1: Z B C S I J F D V)"""
        a_ = fc.assignment(st.conds, rw_tok)
        for k_, v_ in a_.items():
            if v_ is True and k_[0] == "eq" and k_[1] == tok and k_[2][0] == "lit" and k_[2][1] == "char" and ord(k_[2][2]) < 128:
                return True
            if v_ is True and k_ == ("is", call(PT, tok), "Some"):
                return True
        return False

    def fold_len_utf8(t, st):
        def f(x):
            if x[0] == "call" and x[1].endswith("len_utf8") and len(x[2]) == 1 and x[2][0] == tok and ascii_token(st):
                return lit_int(1)
            return None
        r = fc.rewrite(t, f)

        def renorm(x):
            # `idx + 1` written as a sum with the folded literal
            if x[0] == "lin":
                return S.lin_norm([(a_, c_) for a_, c_ in x[1]], x[2])
            if x[0] == "bin" and x[1] == "Add":
                return S.lin_norm([(x[2], 1), (x[3], 1)])
            return None
        return fc.rewrite(r, renorm)

    def outcome(st, o_):
        k, v = o_
        ef = tuple(fold_len_utf8(fc.rewrite(e_, rw_tok), st) for e_ in effs(st))
        if k == S.BRK:
            return ("end", ef)
        if k == S.RET:
            return ("ret", fc.rewrite(v, rw_tok), ef)
        return ("cont", ef)
    base = len(outer["entry"].conds)
    # the width of a token that is known to be ASCII on its path is 1, in conditions as well as in effects
    folded_paths = []
    for st_, o_ in outer["paths"]:
        st2 = st_.copy()
        st2.conds = tuple((fold_len_utf8(fc.rewrite(a_, rw_tok), st_), p_) for a_, p_ in st_.conds)
        folded_paths.append((st2, (o_[0], fold_len_utf8(fc.rewrite(o_[1], rw_tok), st_) if o_[1] is not None else None)))
    bad, n = fc.compare_paths(folded_paths, ref, outcome, rw=rw_tok, base=base, axioms=tok_axioms)
    if not bad:
        rep.ok(rule, "%s/tokenizer/token-loop" % rule, loc=F.loc(outer["node"]),
               found="%d canonical paths: token = descriptor[token_start ..= terminator]; token_start := terminator + 1; '[' keeps token_start; unknown characters skipped" % len(outer["paths"]))
    else:
        for conds, io, ro, comp in bad[:3]:
            rep.violation(rule, "%s/tokenizer/token-loop/%s" % (rule, R1.short_hash(S.cstr(conds) + repr(io))), loc=F.loc(outer["node"]),
                          found="when %s: %s" % (S.cstr(tuple((fc.rewrite(a, R.rw_iter), p_) for a, p_ in conds))[-400:], S.tstr(io)[:400]), expected=S.tstr(ro)[:400])
    if find_form is not None:
        # the scan: find() over the token iterator itself, predicate `c == ';'` on the character component
        recv_ok = find_form[2][0][0] == "place" and any(e[0] == "call" and R.is_next(e[1]) and e[2][0] == find_form[2][0] for st, o_ in outer["paths"] for e in st.effects)
        pred = M.closure_term(sy, find_form[2][1], 1, S.St(), {"sp": "?"}) if find_form[2][1][0] == "closure" else None
        pred_ok = pred in (("eq", mk_field(("bound", 0), "1"), ("lit", "char", ";")), ("eq", ("lit", "char", ";"), mk_field(("bound", 0), "1")))
        rep.check(rule, "%s/tokenizer/object-scan" % rule, recv_ok and pred_ok, loc=F.loc(outer["node"]),
                  found="find() on the token iterator: %s; predicate %s" % (recv_ok, S.tstr(pred) if pred else "?"),
                  expected="the scan consumes characters from the same iterator and stops at the first ';' (find(|(_, c)| c == ';'))")
        inner = None
    else:
        _check_inner_scan(fx, rep, rule, b, outer, inner, last, outcome)
    # first_idx starts at 0
    init0 = False
    for n_ in F.walk(outer["node"]["body"]):
        if n_.get("k") in ("Var", "Upvar") and n_.get("name") == first[1]:
            init0 = outer["pre"].env.get(n_["id"]) == lit_int(0)       # value of the token start on loop entry
            if init0:
                break
    rep.check(rule, "%s/tokenizer/start-at-zero" % rule, init0, loc=F.short_file(b["sp"]), found="token start initialised to 0: %s" % init0, expected="0", nontrivial=False)


def _check_inner_scan(fx, rep, rule, b, outer, inner, last, outcome):
    # inner scan: records every consumed index, stops at ';'; driven by the same char_indices iterator; starts at the index of 'L'
    ib = len(inner["entry"].conds)
    i_idx, i_c = mk_field(R.ELEM, "0"), mk_field(R.ELEM, "1")

    def iref(o):
        if not o(("is", R.NEXT, "Some")):
            return ("end", ())
        if o(("eq", i_c, ("lit", "char", ";"))):
            return ("end", (("assign", last[1], i_idx),))
        return ("cont", (("assign", last[1], i_idx),))
    bad2, n2 = fc.compare_paths(inner["paths"], iref, outcome, rw=R.rw_iter, base=ib)
    # initial value of the scan position = index of the 'L'
    init_ok = False
    for n_ in F.walk(inner["node"]["body"]):
        if n_.get("k") in ("Var", "Upvar") and n_.get("name") == last[1]:
            pv = inner["pre"].env.get(n_["id"])
            # value of the scan position when the scan starts: the index of the 'L' (the token loop's current element index)
            init_ok = pv is not None and fc.rewrite(pv, R.rw_iter) == mk_field(R.ELEM, "0")
            if init_ok:
                break
    drv = None
    for n_ in F.walk(inner["node"]["body"]):
        if F.is_call(n_, "std::iter::Iterator::next"):
            v = F.strip(n_["args"][0])
            drv = inner["pre"].env.get(v["id"]) if v.get("k") in ("Var", "Upvar") else None
            break
    drv_ok = drv is not None and drv[0] == "place" and any(e[0] == "call" and R.is_next(e[1]) and e[2][0] == drv for st, o_ in outer["paths"] for e in st.effects)
    rep.check(rule, "%s/tokenizer/object-scan" % rule, not bad2 and init_ok and drv_ok, loc=F.loc(inner["node"]),
              found="scan paths equal reference: %s; starts at the index of 'L': %s; continues the token iterator (by_ref): %s" % (not bad2, init_ok, drv_ok),
              expected="the scan consumes characters from the same iterator, records each index, and stops at the first ';'")


def check_assembly(fx, rep, rule, name, conv_name):
    p = A.one(rep, rule, "java::" + name, A.func(fx, "java", name))
    if not p:
        return
    rep.fn(p)
    b = fx.bodies[p]
    splitter = A.func(fx, "java", "parse_obfuscated_bytecode_signature")
    conv = A.func(fx, "java", conv_name)
    if len(splitter) != 1 or len(conv) != 1:
        A.one(rep, rule, "helpers of " + name, [])
        return
    sy = S.Sym(fx, opaque=lambda q: q in (splitter[0], conv[0]))
    try:
        res = sy.eval_body(b)
    except S.Undecidable as e:
        rep.undecidable(rule, "%s/%s/shape" % (rule, name), loc=F.loc(e.node) if isinstance(e.node, dict) else "", construct=e.msg)
        return
    names = [prm["pat"]["name"] for prm in b["params"] if prm.get("pat")]
    sig, recv = ("in", names[0]), ("in", names[1])
    SPL, CV = S.short_path(splitter[0]), S.short_path(conv[0])
    ps = call(SPL, sig)
    tup = mk_payload(ps, "Some", "0")
    types, ret = mk_field(tup, "0"), mk_field(tup, "1")
    clos = []

    def rw(t):
        if t[0] == "closure":
            clos.append(t)
            return ("closure#",)
        return None

    def ref(o):
        if not o(("is", ps, "Some")):
            return NONE
        params = call("std::iter::Iterator::collect", call("std::iter::Iterator::filter_map", call("std::iter::Iterator::filter", types, ("closure#",)), ("closure#",)))
        r = call(CV, ret, recv)
        if not o(("is", r, "Some")):
            return NONE
        return some(("tuple", (params, mk_payload(r, "Some", "0"))))
    # explicit-loop form: `for p in types { if p.is_empty() { continue } if let Some(t) = convert(p, recv) { out.push(t) } }`
    loop_ok = None
    if len(sy.loop_order) == 1:
        loop_ok = params_loop_form(fx, sy, sy.loops[sy.loop_order[0]], types, CV, recv)
    if loop_ok is not None:
        okl, desc_l, V, idx = loop_ok
        PARAMS = call("std::iter::Iterator::collect", call("std::iter::Iterator::filter_map", call("std::iter::Iterator::filter", types, ("closure#",)), ("closure#",)))

        def rw2(t):
            if okl and t == ("loop", V, idx):
                return PARAMS
            return None
        bad, n = fc.compare_paths(res, ref, lambda st, out: fc.rewrite(out[1], rw2), rw=rw2)
        R1.report_cmp(rep, rule, "%s/%s/assembly" % (rule, name), b, res, bad,
                      "split?; parameters = the non-empty tokens converted in order (explicit loop); return = convert(ret)?")
        rep.check(rule, "%s/%s/closures" % (rule, name), okl, loc=F.short_file(b["sp"]), found=desc_l,
                  expected="per token: skipped if empty, pushed if convert(token, mapping) is Some, dropped otherwise; nothing else")
        return
    # `filter_map(|p| if p.is_empty() { None } else { convert(p, recv) })`: filter and filter_map fused into one closure
    fused = []

    def unfuse(t):
        if t[0] == "call" and t[1] == "std::iter::Iterator::filter_map" and len(t[2]) == 2 and t[2][0] == types and t[2][1][0] == "closure":
            try:
                cps = sy.apply(t[2][1], [("bound", 0)], S.St(), {"sp": "?"})
            except S.Undecidable:
                return None
            got = set()
            for st_, (k_, v_) in cps:
                if st_.effects:
                    return None
                a_ = fc.assignment(st_.conds)
                e_ = a_.get(("empty", ("bound", 0)))
                if e_ is None or len(a_) != 1:
                    return None
                got.add((e_, v_))
            if got == {(True, NONE), (False, call(CV, ("bound", 0), recv))}:
                fused.append(t[2][1])
                return call("std::iter::Iterator::filter_map", call("std::iter::Iterator::filter", types, ("closure#",)), ("closure#",))
        return None
    bad, n = fc.compare_paths(res, ref, lambda st, out: fc.rewrite(fc.rewrite(out[1], unfuse), rw), rw=rw)
    R1.report_cmp(rep, rule, "%s/%s/assembly" % (rule, name), b, res, bad,
                  "split?; parameters = types.filter(non-empty).filter_map(convert).collect(); return = convert(ret)?")
    if fused and not clos:
        rep.ok(rule, "%s/%s/closures" % (rule, name), loc=F.short_file(b["sp"]),
               found="one filter_map closure: None for an empty token, convert(token, mapping) otherwise")
        return
    # the two closures: |p| !p.is_empty() and |p| convert(p, recv)
    seen = []
    for c_ in clos:
        if c_ not in seen:
            seen.append(c_)
    okc = len(seen) == 2
    descs = []
    if okc:
        import models as M
        t0 = M.closure_term(sy, seen[0], 1, S.St(), {"sp": "?"})
        t1 = M.closure_term(sy, seen[1], 1, S.St(), {"sp": "?"})
        descs = [S.tstr(t0), S.tstr(t1)]
        okc = t0 == ("not", ("empty", ("bound", 0))) and t1 == call(CV, ("bound", 0), recv)
    rep.check(rule, "%s/%s/closures" % (rule, name), okc, loc=F.short_file(b["sp"]), found=descs or "%d closures" % len(seen),
              expected="filter(|p| !p.is_empty()) and filter_map(|p| convert(p, mapping))")


def params_loop_form(fx, sy, L, types, CV, recv):
    """(ok, description, accumulator name, loop index) for the explicit-loop form of the parameter conversion, or None"""
    import readers as RD
    drv = RD.driver_of_loop(L)
    if drv not in (types, call("std::iter::IntoIterator::into_iter", types), call("core::slice::iter", types), call("std::vec::Vec::into_iter", types)):
        return None
    base = len(L["entry"].conds)
    accs = {e[2][0][1] for st, o in L["paths"] for e in st.effects if e[0] == "call" and e[1].endswith("Vec::push") and e[2][0][0] == "place"}
    if len(accs) != 1:
        return None
    V = list(accs)[0]
    vid = None
    for n_ in F.walk(L["node"]["body"]):
        if n_.get("k") in ("Var", "Upvar") and n_.get("name") == V:
            vid = n_["id"]
    pre = L["pre"].env.get(vid)
    okp = pre is not None and pre[0] == "call" and pre[1] in ("std::vec::Vec::new", "std::vec::Vec::with_capacity")
    desc = ["driver %s" % S.tstr(drv), "initial %s" % (S.tstr(pre) if pre else "?")]
    conv = call(CV, R.ELEM, recv)
    seen_kinds = set()
    for st, (k, v) in L["paths"]:
        conds = tuple((fc.rewrite(a_, R.rw_iter), p_) for a_, p_ in st.conds[base:])
        effs = [fc.rewrite(e_, R.rw_iter) for e_ in st.effects if e_[0] == "call" and not R.is_next(e_[1])]
        a_ = fc.assignment(conds)
        desc.append("%s -> %s [%s]" % (S.cstr(conds)[:140], [S.tstr(e_)[:80] for e_ in effs], k))
        if a_.get(("is", R.NEXT, "Some")) is False:
            okp = okp and k == S.BRK and not effs
            seen_kinds.add("end")
            continue
        emp = a_.get(fc.canon_atom(("empty", R.ELEM))[0])
        has = a_.get(fc.canon_atom(("is", conv, "Some"))[0])
        if emp is True:
            okp = okp and k == S.CONT and not effs
            seen_kinds.add("empty")
        elif emp is False and has is True:
            okp = okp and k == S.CONT and len(effs) == 1 and effs[0][1].endswith("Vec::push") and effs[0][2] == (("place", V, ()), mk_payload(conv, "Some", "0"))
            seen_kinds.add("push")
        elif emp is False and has is False:
            okp = okp and k == S.CONT and not effs
            seen_kinds.add("drop")
        else:
            okp = False
    okp = okp and seen_kinds == {"end", "empty", "push", "drop"}
    return okp, desc, V, L["index"]


def str_pieces(t):
    """a string-valued term as a flat list of pieces: ("txt", literal text) / ("val", term). format!, `[..].concat()`, `a + b`,
    push_str (as `strcat`), String::from / to_string / to_owned / as_str of a string are looked through; adjacent text is merged."""
    out = []

    def add(x):
        if x[0] == "txt" and out and out[-1][0] == "txt":
            out[-1] = ("txt", out[-1][1] + x[1])
        elif not (x[0] == "txt" and x[1] == ""):
            out.append(x)

    def go(u):
        if u[0] == "lit" and u[1] == "str":
            add(("txt", u[2]))
        elif u[0] == "lit" and u[1] == "char":
            add(("txt", u[2]))
        elif u[0] == "format" and u[1][0] == "fmtargs":
            args = list(u[1][2])
            for pc in u[1][1]:
                if pc[0] == "txt":
                    add(("txt", pc[1]))
                else:
                    a_ = args.pop(0) if args else ("display", ("?",))
                    if a_[0] == "display":
                        go(a_[1])
                    else:
                        add(("val", a_))
        elif u[0] == "strcat":
            go(u[1])
            go(u[2])
        elif u[0] == "call" and u[1].endswith("::concat") and len(u[2]) == 1 and u[2][0][0] == "array":
            for e_ in u[2][0][1]:
                go(e_)
        elif u[0] == "call" and u[1] == "std::ops::Add::add" and len(u[2]) == 2:
            go(u[2][0])
            go(u[2][1])
        elif u[0] == "call" and len(u[2]) == 1 and u[1].split("::")[-1] in ("as_str", "to_string", "to_owned", "from", "into", "deref", "as_ref", "clone", "borrow") \
                and (u[2][0][0] in ("format", "strcat", "lit") or (u[2][0][0] == "call" and u[2][0][1].endswith("::concat"))):
            go(u[2][0])
        elif u[0] == "call" and u[1].endswith("String::new") and not u[2]:
            pass
        else:
            add(("val", u))
    go(t)
    return tuple(out)


def check_format_signature(fx, rep, rule):
    """the string format_signature returns, read off its value whichever way it is assembled (format!, push_str, concat, +):
    "(" + parameters.join(", ") + ")" and, iff the return type is neither empty nor "void", ": " + return type"""
    p = A.one(rep, rule, "DeobfuscatedSignature::format_signature", A.method(fx, "mapper::DeobfuscatedSignature", "format_signature"))
    if not p:
        return
    rep.fn(p)
    b = fx.bodies[p]
    sy = S.Sym(fx, inline_mut=True, string_values=True)
    try:
        res = sy.eval_body(b)
    except S.Undecidable as e:
        rep.undecidable(rule, "%s/format_signature/shape" % rule, loc=F.short_file(b["sp"]), construct=e.msg)
        return
    slf = ("in", "self")
    ret = mk_field(slf, "return_type")
    if len(sy.loop_order) > 1:
        rep.undecidable(rule, "%s/format_signature/shape" % rule, loc=F.short_file(b["sp"]), construct="%d loops in format_signature" % len(sy.loop_order))
        return
    def is_join(t):
        return t[0] == "call" and t[1].endswith("::join") and len(t[2]) == 2 and t[2][0] == mk_field(slf, "parameters")

    def join_loop_sep(L):
        """the loop appends the elements of self.parameters to the string, separated by a literal: `for (i, p) in
        self.parameters.iter().enumerate() { if i > 0 { s.push_str(SEP) } s.push_str(p) }` -> SEP term, else None"""
        import readers as RD_
        drv = RD_.driver_of_loop(L)
        if drv != call("std::iter::Iterator::enumerate", call("core::slice::iter", mk_field(slf, "parameters"))):
            return None
        base = len(L["entry"].conds)
        idx, el = mk_field(R.ELEM, "0"), mk_field(R.ELEM, "1")
        sep, seen = None, set()
        for st_, (k_, v_) in L["paths"]:
            a_ = fc.assignment(st_.conds[base:], R.rw_iter)
            effs = [fc.rewrite(e_, R.rw_iter) for e_ in st_.effects if e_[0] == "call" and not R.is_next(e_[1])]
            if a_.get(("is", R.NEXT, "Some")) is False:
                if effs or k_ != S.BRK:
                    return None
                continue
            first = a_.get(("eq", idx, lit_int(0)))
            if first is None:
                first = None if a_.get(("lt", lit_int(0), idx)) is None else (not a_.get(("lt", lit_int(0), idx)))
            if first is None or k_ != S.CONT:
                return None
            args = [e_[2][1] for e_ in effs if e_[1].endswith(("String::push_str", "String::push"))]
            if len(args) != len(effs):
                return None
            if first:
                if args != [el]:
                    return None
            else:
                if len(args) != 2 or args[1] != el or args[0][0] != "lit":
                    return None
                if sep not in (None, args[0]):
                    return None
                sep = args[0]
            seen.add(first)
        return sep if seen == {True, False} else None

    def pieces_from_effects(st):
        """the string assembled by push / push_str / a join loop on one local String that starts empty"""
        names = {e[2][0][1] for e in st.effects if e[0] == "call" and e[1].endswith(("String::push_str", "String::push")) and e[2][0][0] == "place"}
        if len(names) != 1:
            return None
        nm = list(names)[0]
        init = None
        for q_ in [b] + [fx.bodies[x] for x in fx.bodies if x.startswith(b["path"].rsplit("::", 1)[0]) and fx.bodies[x]["krate"] == "proguard"]:
            for nn in F.walk(q_["body"]):
                if nn.get("k") == "Block":
                    for s_ in nn["stmts"]:
                        if s_["k"] == "Let" and s_["pat"].get("k") == "Bind" and s_["pat"].get("name") == nm and s_.get("init") is not None and q_ is b:
                            init = F.strip(s_["init"])
        if init is None or not (init.get("k") == "Call" and "fn" in init and init["fn"]["path"].endswith(("String::new", "String::with_capacity"))):
            return None
        t = ("lit", "str", "")
        for e in st.effects:
            if e[0] == "call" and e[1].endswith(("String::push_str", "String::push")) and e[2][0] == ("place", nm, ()):
                t = ("strcat", t, e[2][1])
            elif e[0] == "loopsum":
                L = next((sy.loops[k_] for k_ in sy.loop_order if sy.loops[k_]["index"] == e[1]), None)
                sep = join_loop_sep(L) if L else None
                if sep is None:
                    return None
                t = ("strcat", t, call("alloc::slice::join", mk_field(slf, "parameters"), sep if sep[1] != "char" else ("lit", "str", sep[2])))
            elif e[0] in ("call", "assign", "opassign"):
                return None
        return t

    def outcome(st, out):
        v_ = out[1]
        if sy.loop_order:
            v_ = pieces_from_effects(st) or v_
        pcs = str_pieces(v_)
        # the parameter list: join(self.parameters, <sep>) with the separator made visible
        norm = []
        for pc in pcs:
            if pc[0] == "val" and is_join(pc[1]):
                norm.append(("params-joined-by", pc[1][2][1]))
            else:
                norm.append(pc)
        return tuple(norm)

    def ref(o):
        base = (("txt", "("), ("params-joined-by", ("lit", "str", ", ")), ("txt", ")"))
        if (not o(("empty", ret))) and (not o(("eq", ret, ("lit", "str", "void")))):
            return base[:2] + (("txt", "): "), ("val", ret))
        return base
    bad, n = fc.compare_paths(res, ref, outcome)
    R1.report_cmp(rep, rule, "%s/format_signature/return-part" % rule, b, res, bad,
                  "\"(\" + parameters.join(\", \") + \")\", then \": \" + return type iff it is neither empty nor \"void\"")
    tpl_ok = not bad and all(outcome(st, o)[:2] == (("txt", "("), ("params-joined-by", ("lit", "str", ", "))) for st, o in res)
    rep.check(rule, "%s/format_signature/template" % rule, tpl_ok, loc=F.short_file(b["sp"]),
              found="every path starts with \"(\" + parameters.join(\", \")" if tpl_ok else [S.tstr(outcome(st, o))[:200] for st, o in res][:3],
              expected='"({})" around parameters joined by ", "')


def check_entry_points(fx, rep, rule):
    """ProguardMapper / ProguardCache::deobfuscate_signature(sig) = <java.rs function>(sig, self).map(DeobfuscatedSignature::new)"""
    for T, jn, impl in ((A.MAPPER, "deobfuscate_bytecode_signature", "mapper"), (A.CACHE, "deobfuscate_bytecode_signature_cache", "cache")):
        p = A.one(rep, rule, "%s::deobfuscate_signature" % impl, A.method(fx, T, "deobfuscate_signature"))
        jf = A.func(fx, "java", jn)
        if p and len(jf) != 1:
            A.one(rep, rule, "java::" + jn, jf)
        if not p or len(jf) != 1:
            continue
        rep.fn(p)
        newp = A.method(fx, "mapper::DeobfuscatedSignature", "new")
        opq = set(jf) | set(newp)
        sy = S.Sym(fx, opaque=lambda q: q in opq)
        try:
            res = sy.eval_body(fx.bodies[p])
        except S.Undecidable as e:
            rep.undecidable(rule, "%s/entry/%s/shape" % (rule, impl), loc=F.short_file(fx.bodies[p]["sp"]), construct=e.msg)
            continue
        b = fx.bodies[p]
        names = [prm["pat"]["name"] for prm in b["params"] if prm.get("pat") and prm["pat"].get("k") == "Bind"]
        sig = [n_ for n_ in names if n_ != "self"]
        inner = ("call", S.short_path(jf[0]), (("in", sig[0] if sig else "?"), ("in", "self")))

        def ref(o):
            if o(("is", inner, "Some")):
                return some(("call", S.short_path(newp[0]) if newp else "?", (mk_payload(inner, "Some", "0"),)))
            return NONE
        bad, n = fc.compare_paths(res, ref, lambda st, out: out[1])
        rep.check(rule, "%s/entry/%s" % (rule, impl), not bad and not any(st.effects for st, o in res), loc=F.short_file(b["sp"]),
                  found=[("%s => %s" % (S.cstr(st.conds), S.tstr(o[1])))[:200] for st, o in res],
                  expected="%s(<the given string>, self).map(DeobfuscatedSignature::new)" % jn)


def check_entry_semantic(fx, rep, rule, impl):
    """the public deobfuscate_signature of one implementation, evaluated end to end (assembly function, constructor and any
    private plumbing inlined; only the splitter and the type renderer stay opaque), equals:
        split(sig)? -> parameters = non-empty tokens rendered in order (unrenderable dropped); return type rendered or None;
        Some(DeobfuscatedSignature { parameters, return_type })
    Returns True when decided (pass or violation recorded), False when the shape is outside this rule (fine-grained rules run)."""
    T, conv_name = (A.MAPPER, "byte_code_type_to_java_type") if impl == "mapper" else (A.CACHE, "byte_code_type_to_java_type_cache")
    pe = A.method(fx, T, "deobfuscate_signature")
    splitter = A.func(fx, "java", "parse_obfuscated_bytecode_signature")
    conv = A.func(fx, "java", conv_name)
    shared = None
    if not all(len(A.func(fx, "java", n_)) == 1 for n_ in ("byte_code_type_to_java_type", "byte_code_type_to_java_type_cache")):
        rmc, prim_ = A.method(fx, T, "remap_class"), A.func(fx, "java", "java_base_types")
        if len(rmc) == 1 and len(prim_) == 1:
            shared = shared_renderer(fx, "deobfuscate_bytecode_signature" + ("" if impl == "mapper" else "_cache"), rmc[0], prim_[0])
            if shared:
                conv = [shared[0]]
    if len(pe) != 1 or len(splitter) != 1 or len(conv) != 1:
        return False
    b = fx.bodies[pe[0]]
    opq = {splitter[0], conv[0]}
    if shared:
        opq.add(rmc[0])
    sy = S.Sym(fx, opaque=lambda q: q in opq, inline_mut=True, inline_depth=6)
    try:
        res = sy.eval_body(b)
    except S.Undecidable:
        return False
    names = [prm["pat"]["name"] for prm in b["params"] if prm.get("pat") and prm["pat"].get("k") == "Bind"]
    sig = ("in", [n_ for n_ in names if n_ != "self"][0]) if len(names) == 2 else None
    if sig is None:
        return False
    recv = ("in", "self")
    SPL, CV = S.short_path(splitter[0]), S.short_path(conv[0])
    if shared:
        # the lookup argument every call of the shared renderer gets on this path: the receiver itself, or a closure that is
        # exactly `|class| self.remap_class(class)`
        a1 = set()

        def g_(t):
            if t[0] in ("call", "mcall") and t[1] == CV and len(t[2]) == 2:
                a1.add(t[2][1])
            return None
        for st_, (k_, v_) in res:
            fc.rewrite(v_, g_)
            for a_, p_ in st_.conds:
                fc.rewrite(a_, g_)
        if len(a1) != 1:
            return False
        arg1 = list(a1)[0]
        if arg1 != recv:
            if arg1[0] != "closure":
                return False
            import models as M0
            ct = M0.closure_term(sy, arg1, 1, S.St(), {"sp": "?"})
            if ct != call(S.short_path(rmc[0]), recv, ("bound", 0)):
                return False
        recv = arg1
    ps = call(SPL, sig)
    tup = mk_payload(ps, "Some", "0")
    types, ret = mk_field(tup, "0"), mk_field(tup, "1")
    PARAMS = ("PARAMS",)
    loop_ok = None
    if len(sy.loop_order) == 1:
        loop_ok = params_loop_form(fx, sy, sy.loops[sy.loop_order[0]], types, CV, recv)
    clos = []

    def rw(t):
        if t[0] == "call" and t[1] == "std::iter::Iterator::collect" and t[2] and t[2][0][0] == "call" and t[2][0][1] == "std::iter::Iterator::filter_map" \
                and t[2][0][2][0][0] == "call" and t[2][0][2][0][1] == "std::iter::Iterator::filter" and t[2][0][2][0][2][0] in (types, call("std::iter::IntoIterator::into_iter", types)):
            clos.append((t[2][0][2][0][2][1], t[2][0][2][1]))
            return PARAMS
        if loop_ok is not None and loop_ok[0] and t == ("loop", loop_ok[2], loop_ok[3]):
            return PARAMS
        return None

    def ref(o):
        if not o(("is", ps, "Some")):
            return NONE
        r = call(CV, ret, recv)
        if not o(("is", r, "Some")):
            return NONE
        return some(("adt", "DeobfuscatedSignature", "DeobfuscatedSignature", (("parameters", PARAMS), ("return_type", mk_payload(r, "Some", "0")))))

    def outcome(st, out):
        v = fc.rewrite(out[1], rw)
        if v[0] == "adt" and v[2] == "Some" and v[3][0][1][0] == "adt" and v[3][0][1][1] == "DeobfuscatedSignature":
            d = dict(v[3][0][1][3])
            return some(("adt", "DeobfuscatedSignature", "DeobfuscatedSignature", (("parameters", d.get("parameters")), ("return_type", d.get("return_type")))))
        return v
    bad, n = fc.compare_paths(res, ref, outcome, rw=rw)
    okc = True
    if clos:
        import models as M
        for c0, c1 in clos:
            t0 = M.closure_term(sy, c0, 1, S.St(), {"sp": "?"})
            t1 = M.closure_term(sy, c1, 1, S.St(), {"sp": "?"})
            okc = okc and t0 == ("not", ("empty", ("bound", 0))) and t1 == call(CV, ("bound", 0), recv)
    elif loop_ok is None or not loop_ok[0]:
        okc = False
    if any(st.effects and any(e[0] == "call" for e in st.effects if e[0] not in ("loopsum", "inloop")) and False for st, o in res):
        okc = False
    if bad or not okc:
        return False       # let the fine-grained rules name the function that differs
    rep.fn(pe[0])
    rep.ok(rule, "%s/entry-to-end/%s" % (rule, impl), loc=F.short_file(b["sp"]),
           found="%d canonical paths: split?; parameters = non-empty tokens rendered in order, unrenderable dropped; return type rendered?; "
                 "Some(DeobfuscatedSignature{parameters, return_type})" % len(res))
    return True


def check_both_impls(fx, rep, rule):
    """the per-implementation rules of signature deobfuscation (used by C02 for mapper == cache)"""
    prim = check_prim_table(fx, rep, rule)
    rm = A.method(fx, A.MAPPER, "remap_class")
    rc = A.method(fx, A.CACHE, "remap_class")
    if prim and len(rm) == 1 and len(rc) == 1:
        check_type_renderer(fx, rep, rule, "byte_code_type_to_java_type", rm[0], prim, "deobfuscate_bytecode_signature")
        check_type_renderer(fx, rep, rule, "byte_code_type_to_java_type_cache", rc[0], prim, "deobfuscate_bytecode_signature_cache")
    e2e = {impl: check_entry_semantic(fx, rep, rule, impl) for impl in ("mapper", "cache")}
    if not e2e["mapper"]:
        check_assembly(fx, rep, rule, "deobfuscate_bytecode_signature", "byte_code_type_to_java_type")
    if not e2e["cache"]:
        check_assembly(fx, rep, rule, "deobfuscate_bytecode_signature_cache", "byte_code_type_to_java_type_cache")
    if not all(e2e.values()):
        check_entry_points(fx, rep, rule)


def run(ctx, rep):
    fx = ctx.facts("")
    rep.configs.append("default")
    prim = check_prim_table(fx, rep, "C16.1")
    rm = A.method(fx, A.MAPPER, "remap_class")
    rc = A.method(fx, A.CACHE, "remap_class")
    if prim and len(rm) == 1 and len(rc) == 1:
        check_type_renderer(fx, rep, "C16.2", "byte_code_type_to_java_type", rm[0], prim, "deobfuscate_bytecode_signature")
        check_type_renderer(fx, rep, "C16.2", "byte_code_type_to_java_type_cache", rc[0], prim, "deobfuscate_bytecode_signature_cache")
    check_splitter_guards(fx, rep, "C16.3")
    check_byte_offsets(fx, rep, "C16.3")
    check_tokenizer(fx, rep, "C16.6")
    # end-to-end form first: if the public entry point of an implementation evaluates to the reference as a whole, how the work is
    # split between the assembly function, the constructor and the entry point does not matter
    e2e = {impl: check_entry_semantic(fx, rep, "C16.4", impl) for impl in ("mapper", "cache")}
    if not e2e["mapper"]:
        check_assembly(fx, rep, "C16.4", "deobfuscate_bytecode_signature", "byte_code_type_to_java_type")
    if not e2e["cache"]:
        check_assembly(fx, rep, "C16.4", "deobfuscate_bytecode_signature_cache", "byte_code_type_to_java_type_cache")
    check_format_signature(fx, rep, "C16.4")
    import api_rules as AR
    AR.check_getters(fx, rep, "C16.api", "mapper::DeobfuscatedSignature")
    # `parameters_types()` is how "one Java type per descriptor parameter, in order" is observed: every stored parameter, in
    # stored order, each as it is (an iterator over `self.parameters`, un-adapted but for an element-wise `as_ref`/`as_str`)
    pt_ = A.method(fx, "mapper::DeobfuscatedSignature", "parameters_types")
    p_pt = A.one(rep, "C16.api", "DeobfuscatedSignature::parameters_types", pt_)
    if p_pt:
        rep.fn(p_pt)
        import models as M_pt
        try:
            res_pt = S.Sym(fx).eval_body(fx.bodies[p_pt])
        except S.Undecidable:
            res_pt = []
        it_pt = ("call", "core::slice::iter", (mk_field(("in", "self"), "parameters"),))
        good_pt = False
        if len(res_pt) == 1 and not res_pt[0][0].conds and not res_pt[0][0].effects:
            v_pt = res_pt[0][1][1]
            if v_pt == it_pt:
                good_pt = True
            elif v_pt[0] == "call" and v_pt[1] == "std::iter::Iterator::map" and v_pt[2][0] == it_pt and v_pt[2][1][0] in ("closure", "fnref"):
                try:
                    good_pt = M_pt.closure_term(S.Sym(fx), v_pt[2][1], 1, S.St(), {"sp": "?"}) == ("bound", 0)
                except S.Undecidable:
                    good_pt = False
        rep.check("C16.api", "C16.api/accessor/parameters_types", good_pt, loc=F.short_file(fx.bodies[p_pt]["sp"]),
                  found=[S.tstr(o_[1])[:200] for s_, o_ in res_pt], expected="iter(self.parameters) with each element as it is (no skip/take/rev/filter)")
    if all(e2e.values()):
        n = R2.check_twins(fx, rep, "C16.5", only=("deobfuscate_signature", "byte_code_type_to_java_type", "deobfuscate_bytecode_signature"))
        rep.floor("C16.5", n, 1, "twin pairs")
        import builder_rules as BR
        import lookup_rules as LR
        for impl in ("mapper", "cache"):
            BR.check_class_header_arms(fx, rep, "C16.7", impl)
        LR.check_class_lookup(fx, rep, "C16.7")
        return
    # the single (tuple) parameter may be bound to a name or destructured in the parameter pattern
    ds_new = A.method(fx, "mapper::DeobfuscatedSignature", "new")
    pn = "signature"
    if len(ds_new) == 1:
        pp_ = [prm.get("pat") for prm in fx.bodies[ds_new[0]]["params"] if prm.get("pat")]
        pn = pp_[0].get("name", "arg0") if pp_ and pp_[0].get("k") == "Bind" else "arg0"
    AR.check_constructor(fx, rep, "C16.api", "mapper::DeobfuscatedSignature", "new", {"parameters": ("lit", mk_field(("in", pn), "0")), "return_type": ("lit", mk_field(("in", pn), "1"))})
    check_entry_points(fx, rep, "C16.api")
    # "replaced by the original class name when the mapping knows it": class registration in both builders and the
    # exact class lookup (shared with C04.1 / C04.2) are premises of the object-type clause and of mapper == cache
    import builder_rules as BR
    import lookup_rules as LR
    for impl in ("mapper", "cache"):
        BR.check_class_header_arms(fx, rep, "C16.7", impl)
    LR.check_class_lookup(fx, rep, "C16.7")
    n = R2.check_twins(fx, rep, "C16.5", only=("deobfuscate_signature", "byte_code_type_to_java_type", "deobfuscate_bytecode_signature"))
    rep.floor("C16.5", n, 3, "twin pairs")
