"""FC rules for class / method lookup, comparators and section slicing (C02.4-6, C03.4, C04.2-5)."""
import facts as F
import sym as S
import fc
import refs as R
import anchors as A
import rules_C01 as R1
from sym import some, NONE, lit_int, mk_field, mk_payload

GET = "std::collections::HashMap::get"
BSEARCH = "core::slice::binary_search_by"
SGET = "core::slice::get"
GREATER = ("adt", "Ordering", "Greater", ())


def call(name, *args):
    return ("call", name, tuple(args))


def ev(fx, rep, rule, key, path, opaque=()):
    rep.fn(path)
    sy = S.Sym(fx, opaque=lambda q: q in opaque, inline_mut=True)
    try:
        return sy, sy.eval_body(fx.bodies[path])
    except S.Undecidable as e:
        rep.undecidable(rule, key + "/shape", loc=F.loc(e.node) if isinstance(e.node, dict) else "", construct=e.msg)
        return None, None


def closure_paths(sy, clo):
    return sy.apply(clo, [("bound", 0)], S.St(), {"sp": "?"})


def check_comparator(fx, rep, rule, key, sy, clo, sb, field, query, params=None, context=()):
    """C02.4: comparator = entry string (read from `field`) compared with the query by str::cmp,
    entry on the left; unreadable strings sort Greater. `context`: what is known where this comparator is used (one closure
    shared by the by-method and the by-params lookup decides on `frame.parameters` inside)."""
    m = ("bound", 0)
    try:
        paths = closure_paths(sy, clo)
    except S.Undecidable as e:
        rep.undecidable(rule, key + "/shape", loc="", construct=e.msg)
        return
    if context:
        kept = []
        for st_, o_ in paths:
            a_ = fc.assignment(st_.conds)
            if any(a_.get(fc.canon_atom(at)[0]) is (not pol) for at, pol in context):
                continue
            st2 = st_.copy()
            ctx = {fc.canon_atom(at)[0] for at, pol in context}
            st2.conds = tuple((a0, p0) for a0, p0 in st_.conds if fc.canon_atom(a0)[0] not in ctx)
            kept.append((st2, o_))
        paths = kept
    rd = call(R.READ, sb, mk_field(m, field))

    def ref(o):
        if not o(("is", rd, "Ok")):
            return GREATER
        name = mk_payload(rd, "Ok", "0")
        if params is None:
            return ("cmp3", name, query)
        pr = call(R.READ, sb, mk_field(m, "params_offset"))
        pv = mk_payload(pr, "Ok", "0") if o(("is", pr, "Ok")) else ("lit", "str", "")
        return ("then", ("cmp3", name, query), ("cmp3", pv, params))
    bad, n = fc.compare_paths(paths, ref, lambda st, out: out[1])
    cb = fx.bodies.get(clo[1])
    if not bad:
        rep.ok(rule, key, loc=F.short_file(cb["sp"]) if cb else "", found="%d paths: cmp(read(entry.%s)%s, query) with the entry on the left; unreadable -> Greater"
               % (len(paths), field, " , params or \"\"" if params is not None else ""))
    else:
        for conds, io, ro, comp in bad[:2]:
            rep.violation(rule, key + "/" + R1.short_hash(S.cstr(conds)), loc=F.short_file(cb["sp"]) if cb else "",
                          found="when %s: %s" % (S.cstr(conds), S.tstr(io)), expected=S.tstr(ro))


def check_class_lookup(fx, rep, rule):
    """C04.2: exact class lookup in both implementations; C04.5 remap_throwable"""
    # mapper: remap_class = classes.get(class).map(|c| c.original)
    p = A.one(rep, rule, "ProguardMapper::remap_class", A.method(fx, A.MAPPER, "remap_class"))
    if p:
        sy, res = ev(fx, rep, rule, "%s/remap_class/mapper" % rule, p)
        if res is not None:
            slf, cls = ("in", "self"), ("in", "class")
            g = call(GET, mk_field(slf, "classes"), cls)

            def ref(o):
                return some(mk_field(mk_payload(g, "Some", "0"), "original")) if o(("is", g, "Some")) else NONE
            bad, n = fc.compare_paths(res, ref, lambda st, out: out[1])
            R1.report_cmp(rep, rule, "%s/remap_class/mapper" % rule, fx.bodies[p], res, bad, "HashMap::get on the obfuscated name (exact match), original name of the hit")
        a = fx.adt("proguard::mapper::ProguardMapper")
        ty = a["variants"][0]["fields"][0]["ty"] if a else ""
        rep.check(rule, "%s/classes-keyed-by-str/mapper" % rule, ty.startswith("std::collections::HashMap<&") and "str, mapper::ClassMapping" in ty,
                  loc=F.short_file(a["sp"]) if a else "", found="classes: %s" % ty, expected="HashMap<&str, ClassMapping> (string equality, default hasher)", nontrivial=False)
    # cache: get_class + remap_class
    gc = A.one(rep, rule, "ProguardCache::get_class", A.method(fx, A.CACHE, "get_class"))
    if gc:
        sy, res = ev(fx, rep, rule, "%s/get_class/cache" % rule, gc)
        if res is not None:
            slf, name = ("in", "self"), ("in", "name")
            clos = set()

            def g(t):
                if t[0] == "closure":
                    clos.add(t)
                return None
            for st, (k, v) in res:
                fc.rewrite(v, g)
                for a_, pol in st.conds:
                    fc.rewrite(a_, g)
            if len(clos) == 1:
                clo = list(clos)[0]
                bs = call(BSEARCH, mk_field(slf, "classes"), clo)

                def ref(o):
                    return call(SGET, mk_field(slf, "classes"), mk_payload(bs, "Ok", "0")) if o(("is", bs, "Ok")) else NONE
                bad, n = fc.compare_paths(res, ref, lambda st, out: out[1])
                R1.report_cmp(rep, rule, "%s/get_class/cache" % rule, fx.bodies[gc], res, bad, "binary_search_by over the class section; only an exact (Ok) hit is a result")
                check_comparator(fx, rep, "C02.4" if rule.startswith("C02") else rule, "%s/comparator/classes" % rule, sy, clo,
                                 mk_field(slf, "string_bytes"), "obfuscated_name_offset", name)
            else:
                rep.undecidable(rule, "%s/get_class/cache/shape" % rule, loc=F.short_file(fx.bodies[gc]["sp"]), construct="%d comparator closures" % len(clos))
    rc = A.one(rep, rule, "ProguardCache::remap_class", A.method(fx, A.CACHE, "remap_class"))
    if rc and gc:
        sy, res = ev(fx, rep, rule, "%s/remap_class/cache" % rule, rc, opaque=(gc,))
        if res is not None:
            slf, cls = ("in", "self"), ("in", "class")
            g2 = call(S.short_path(gc), slf, cls)

            def ref(o):
                if not o(("is", g2, "Some")):
                    return NONE
                rd = call(R.READ, mk_field(slf, "string_bytes"), mk_field(mk_payload(g2, "Some", "0"), "original_name_offset"))
                return some(mk_payload(rd, "Ok", "0")) if o(("is", rd, "Ok")) else NONE
            bad, n = fc.compare_paths(res, ref, lambda st, out: out[1])
            R1.report_cmp(rep, rule, "%s/remap_class/cache" % rule, fx.bodies[rc], res, bad, "get_class hit -> its original name string")
    # remap_throwable (both): remap_class(throwable.class).map(|c| Throwable{class: c, message})
    for impl, recv in (("mapper", A.MAPPER), ("cache", A.CACHE)):
        rt = A.one(rep, rule, impl + "::remap_throwable", A.method(fx, recv, "remap_throwable"))
        rcl = A.method(fx, recv, "remap_class")
        if rt and len(rcl) != 1:
            A.one(rep, rule, impl + "::remap_class", rcl)
        if not rt or len(rcl) != 1:
            continue
        sy, res = ev(fx, rep, rule, "%s/remap_throwable/%s" % (rule, impl), rt, opaque=(rcl[0],))
        if res is None:
            continue
        slf, th = ("in", "self"), ("in", "throwable")
        g3 = call(S.short_path(rcl[0]), slf, mk_field(th, "class"))

        def ref(o):
            if not o(("is", g3, "Some")):
                return NONE
            return some(("adt", "Throwable", "Throwable", (("class", mk_payload(g3, "Some", "0")), ("message", mk_field(th, "message")))))
        bad, n = fc.compare_paths(res, ref, lambda st, out: out[1])
        R1.report_cmp(rep, rule, "%s/remap_throwable/%s" % (rule, impl), fx.bodies[rt], res, bad,
                      "class remapped through remap_class, message passed through; None iff the class is unknown")


def split_first_form(t):
    """`let (first, rest) = entries.split_first()?; rest.iter().all(..)` names the same things as
    `let mut it = entries.iter(); let first = it.next()?; it.all(..)`: first element / the remaining ones (bottom-up rewriting)"""
    if t[0] == "call" and t[1] == "core::slice::split_first" and len(t[2]) == 1:
        return R.NEXT
    if t[0] == "field" and t[1] == R.ELEM and t[2] == "0":
        return R.ELEM
    if t[0] == "call" and t[1] == "core::slice::iter" and t[2] == (("field", R.ELEM, "1"),):
        return ("rest",)
    return None


def first_forms(t, xs):
    """other spellings of "first entry / the remaining entries" over the entries collection `xs`:
    `xs.first()` (a model turns it into `!xs.is_empty()` / `xs[0]`), `xs.iter().skip(1)`, and "no adjacent pair differs" over
    `xs.windows(2)` - which, equality being transitive, is "every remaining entry equals the first"."""
    if t == ("empty", xs):
        return ("not", ("is", R.NEXT, "Some"))
    if t[0] == "index" and t[1] == xs and t[2] == lit_int(0):
        return R.ELEM
    if t[0] == "call" and t[1] == "std::ops::Index::index" and t[2] == (xs, lit_int(0)):
        return R.ELEM
    if t[0] == "call" and t[1] == "std::iter::Iterator::skip" and len(t[2]) == 2 and t[2][1] == lit_int(1) \
            and t[2][0] in (("call", "core::slice::iter", (xs,)), ("call", "std::iter::IntoIterator::into_iter", (xs,))):
        return ("rest",)
    # `[first, others @ ..]`: `others.iter()` is the same "remaining entries"
    if t == ("call", "core::slice::iter", (("call", "std::ops::Index::index", (xs, ("adt", "RangeFrom", "RangeFrom", (("start", lit_int(1)),)))),)):
        return ("rest",)
    if t[0] == "quant" and t[1] == "all" and t[2] in (("call", "core::slice::iter", (xs,)), ("call", "std::iter::IntoIterator::into_iter", (xs,))) \
            and t[3][0] == "eq":
        # "every entry (the first one included) equals the first": the first equals itself, so this is about the remaining ones
        def path_of(u, root):
            path = []
            while u[0] == "field":
                path.append(u[2])
                u = u[1]
            return tuple(reversed(path)) if u == root else None
        for l_, r_ in ((t[3][1], t[3][2]), (t[3][2], t[3][1])):
            pl_, pr_ = path_of(l_, ("bound", 0)), path_of(r_, R.ELEM)
            if pl_ is not None and pl_ == pr_ and pl_:
                return ("quant", "all", ("rest",), t[3])
    if t[0] == "quant" and t[1] == "all" and t[2] == ("call", "core::slice::windows", (xs, lit_int(2))) and t[3][0] == "eq":
        b0 = ("bound", 0)
        l_, r_ = t[3][1], t[3][2]

        def side(u, i):
            # field path over `pair[i]`
            path = []
            while u[0] == "field":
                path.append(u[2])
                u = u[1]
            if u in (("index", b0, lit_int(i)), ("call", "std::ops::Index::index", (b0, lit_int(i)))):
                return tuple(reversed(path))
            return None
        for i_, j_ in ((0, 1), (1, 0)):
            pl_, pr_ = side(l_, i_), side(r_, j_)
            if pl_ is not None and pl_ == pr_:
                a_, c_ = b0, R.ELEM
                for f_ in pl_:
                    a_, c_ = mk_field(a_, f_), mk_field(c_, f_)
                return ("quant", "all", ("rest",), ("eq", a_, c_))
    return None


def check_first_next(rep, rule, key, b, sy, res, allowed, rw=None):
    """where "the first entry" is taken with `it.next()`: the iterator `it` holds, at that first call, is the plain iterator over the
    entries - not a skipped, reversed or otherwise adapted one (the forms without an explicit iterator name the collection directly)"""
    seen = set()
    for st, _ in res:
        firsts = [e for e in st.effects if e[0] == "call" and R.is_next(e[1]) and e[2] and e[2][0][0] == "place"]
        if firsts:
            e = firsts[0]
            for v in sy.before.get(("mcall",) + tuple(e[1:]), {("?",)}):
                seen.add(fc.rewrite(v, rw) if rw else v)
    if not seen:
        return
    # (taken from the far end is as good: "all entries agree" does not care which one is called the first)
    allowed = set(allowed) | {call("std::iter::Iterator::rev", a_) for a_ in allowed}
    bad = [v for v in seen if v not in allowed]
    rep.check(rule, key + "/driver", not bad, loc=F.short_file(b["sp"]),
              found="first entry taken from %s" % [S.tstr(v)[:160] for v in sorted(seen, key=repr)],
              expected="the plain iterator over the entries: %s" % S.tstr(sorted(allowed, key=repr)[0])[:160])


def check_remap_method(fx, rep, rule):
    """C04.3 / C02.6: all-entries-agree rule in both implementations"""
    # mapper
    p = A.one(rep, rule, "ProguardMapper::remap_method", A.method(fx, A.MAPPER, "remap_method"))
    if p:
        sy, res = ev(fx, rep, rule, "%s/remap_method/mapper" % rule, p)
        if res is not None:
            slf, cls, meth = ("in", "self"), ("in", "class"), ("in", "method")
            g = call(GET, mk_field(slf, "classes"), cls)
            c = mk_payload(g, "Some", "0")
            gm = call(GET, mk_field(c, "members"), meth)
            it0 = call("core::slice::iter", mk_field(mk_payload(gm, "Some", "0"), "all_mappings"))
            first = R.ELEM

            def rw(t):
                r = R.rw_iter(t)
                if r is not None:
                    return r
                if t[0] == "after" or t[0] == "exhausted":
                    return ("rest",)
                r = split_first_form(t)
                if r is not None:
                    return r
                return first_forms(t, mk_field(mk_payload(gm, "Some", "0"), "all_mappings"))

            def ref(o):
                if not o(("is", g, "Some")) or not o(("is", gm, "Some")) or not o(("is", R.NEXT, "Some")):
                    return NONE
                allq = ("quant", "all", ("rest",), ("eq", mk_field(("bound", 0), "original"), mk_field(first, "original")))
                if o(("bool", allq)):
                    return some(("tuple", (mk_field(c, "original"), mk_field(first, "original"))))
                return NONE

            def outcome(st, out):
                return fc.rewrite(out[1], rw)
            bad, n = fc.compare_paths(res, ref, outcome, rw=rw)
            R1.report_cmp(rep, rule, "%s/remap_method/mapper" % rule, fx.bodies[p], res, bad,
                          "first = entries.next()?; answer (class.original, first.original) iff all remaining entries have the same original name")
            check_first_next(rep, rule, "%s/remap_method/mapper" % rule, fx.bodies[p], sy, res, {it0, call("std::iter::IntoIterator::into_iter", it0[2][0])})
    # cache
    p2 = A.one(rep, rule, "ProguardCache::remap_method", A.method(fx, A.CACHE, "remap_method"))
    helpers = R1.cache_helper_paths(fx)
    if p2 and all(len(v) == 1 for v in helpers.values()):
        hp = {k: v[0] for k, v in helpers.items()}
        sy, res = ev(fx, rep, rule, "%s/remap_method/cache" % rule, p2, opaque=set(hp.values()))
        if res is not None:
            slf, cls, meth = ("in", "self"), ("in", "class"), ("in", "method")
            sp = {k: S.short_path(v) for k, v in hp.items()}
            gc = call(sp["get_class"], slf, cls)
            c = mk_payload(gc, "Some", "0")
            ms = call(sp["get_class_members"], slf, c)
            clos = {}

            def rw(t):
                r = R.rw_iter(t)
                if r is not None:
                    return r
                if t[0] == "call" and t[1] == sp["find_range_by_binary_search"]:
                    clos["lines"] = t[2][1]
                    return ("range", t[2][0])
                if t[0] in ("after", "exhausted"):
                    return ("rest",)
                r = split_first_form(t)
                if r is not None:
                    return r
                return first_forms(t, mk_payload(("range", mk_payload(ms, "Some", "0")), "Some", "0"))
            rng = ("range", mk_payload(ms, "Some", "0"))
            first = R.ELEM
            sb = mk_field(slf, "string_bytes")

            def ref(o):
                if not o(("is", gc, "Some")) or not o(("is", ms, "Some")) or not o(("is", rng, "Some")) or not o(("is", R.NEXT, "Some")):
                    return NONE
                allq = ("quant", "all", ("rest",), ("eq", mk_field(("bound", 0), "original_name_offset"), mk_field(first, "original_name_offset")))
                if not o(("bool", allq)):
                    return NONE
                rc = call(R.READ, sb, mk_field(c, "original_name_offset"))
                if not o(("is", rc, "Ok")):
                    return NONE
                rm = call(R.READ, sb, mk_field(first, "original_name_offset"))
                if not o(("is", rm, "Ok")):
                    return NONE
                return some(("tuple", (mk_payload(rc, "Ok", "0"), mk_payload(rm, "Ok", "0"))))
            bad, n = fc.compare_paths(res, ref, lambda st, out: fc.rewrite(out[1], rw), rw=rw)
            R1.report_cmp(rep, rule, "%s/remap_method/cache" % rule, fx.bodies[p2], res, bad,
                          "same rule on the equal-range slice; names compared by string-table offset (equal offsets <=> equal strings by "
                          "de-duplication)")
            def rw_rng(t):
                # (only the range abstraction: the values are recorded before any rewriting)
                if t[0] == "call" and t[1] == sp["find_range_by_binary_search"]:
                    return ("range", t[2][0])
                return None
            check_first_next(rep, rule, "%s/remap_method/cache" % rule, fx.bodies[p2], sy, res,
                             {call("core::slice::iter", mk_payload(rng, "Some", "0")), call("std::iter::IntoIterator::into_iter", mk_payload(rng, "Some", "0"))}, rw=rw_rng)
            if "lines" in clos:
                check_comparator(fx, rep, "C02.4" if rule.startswith("C02") else rule, "%s/comparator/remap_method" % rule, sy, clos["lines"], sb, "obfuscated_name_offset", meth)


def check_frame_comparators(fx, rep, rule):
    """C02.4: the two comparators used by ProguardCache::remap_frame"""
    r = R1.check_remap_frame_cache(fx, rep, rule)
    if not r:
        return
    clos, sy, b = r
    slf, fr = ("in", "self"), ("in", "frame")
    sb = mk_field(slf, "string_bytes")
    has_params = ("is", mk_field(fr, "parameters"), "Some")
    if "lines" in clos:
        check_comparator(fx, rep, rule, "%s/comparator/frame-by-method" % rule, sy, clos["lines"], sb, "obfuscated_name_offset", mk_field(fr, "method"),
                         context=((has_params, False),))
    if "params" in clos:
        check_comparator(fx, rep, rule, "%s/comparator/frame-by-params" % rule, sy, clos["params"], sb, "obfuscated_name_offset",
                         mk_field(fr, "method"), params=mk_payload(mk_field(fr, "parameters"), "Some", "0"), context=((has_params, True),))
    rep.floor(rule + "/comparators", len(clos), 2, "comparator closures in remap_frame")


def check_section_slices(fx, rep, rule):
    """C02.5 / C03.4: (offset, len) pairs slice the matching section"""
    for fn, off, ln, sec in (("get_class_members", "members_offset", "members_len", "members"),
                             ("get_class_members_by_params", "members_by_params_offset", "members_by_params_len", "members_by_params")):
        p = A.one(rep, rule, "ProguardCache::" + fn, A.method(fx, A.CACHE, fn))
        if not p:
            continue
        sy, res = ev(fx, rep, rule, "%s/slice/%s" % (rule, sec), p)
        if res is None:
            continue
        slf, cl = ("in", "self"), ("in", "class")
        end = ("checked", S.lin_norm([(mk_field(cl, off), 1), (mk_field(cl, ln), 1)]))

        def ref(o):
            if not o(("is", end, "Some")):
                return NONE
            return call(SGET, mk_field(slf, sec), ("adt", "Range", "Range", (("start", mk_field(cl, off)), ("end", mk_payload(end, "Some", "0")))))
        bad, n = fc.compare_paths(res, ref, lambda st, out: out[1])
        R1.report_cmp(rep, rule, "%s/slice/%s" % (rule, sec), fx.bodies[p], res, bad,
                      "self.%s.get(%s .. checked(%s + %s))" % (sec, off, off, ln))
