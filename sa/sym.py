"""FC - fragment canonicaliser: turns loop-free typed-tree fragments into guarded structures
(lists of paths: conditions over canonical atoms, ordered effects, outcome term).

This is normalisation of syntax, not execution: terms are opaque symbols; conditions are only
checked for *syntactic* contradiction (same atom with both polarities, two different variants /
literals for the same term); loops are never unrolled - a loop body is canonicalised once from a
havoc state and handed to the rule as a per-iteration guarded structure.
"""
import re
import facts as F
import flow as FL


RET_POLY = ("core::str::parse", "std::iter::Iterator::sum", "std::iter::Iterator::product", "std::convert::TryInto::try_into",
            "std::convert::TryFrom::try_from", "std::str::FromStr::from_str")


def last_generic_arg(ty):
    """last top-level generic argument of a printed type, lifetimes erased"""
    ty = re.sub(r"'\w+\s*", "", ty or "")
    i = ty.find("<")
    if i < 0 or not ty.endswith(">"):
        return None
    depth = 0
    parts, cur = [], ""
    for ch in ty[i + 1:-1]:
        if ch in "<([":
            depth += 1
        elif ch in ">)]":
            depth -= 1
        if ch == "," and depth == 0:
            parts.append(cur.strip()); cur = ""
        else:
            cur += ch
    parts.append(cur.strip())
    return parts[-1] if parts else None


def try_same_error_type(n):
    """`x?` on a Result whose error type is the enclosing function's error type: From::from is the identity"""
    for c in F.walk(n):
        if c.get("k") == "Call" and "fn" in c and c["fn"]["path"].endswith("FromResidual::from_residual"):
            ta = c["fn"].get("targs") or []
            if len(ta) >= 2:
                a_, b_ = last_generic_arg(ta[0]), last_generic_arg(ta[1])
                return a_ is not None and a_ == b_
    return False


class Undecidable(Exception):
    def __init__(self, node, msg):
        self.node = node
        self.msg = msg
        Exception.__init__(self, "%s at %s" % (msg, F.loc(node) if isinstance(node, dict) else "?"))


MAX_PATHS = 6000
UNIT = ("tuple", ())
TRUE = ("lit", "bool", True)
FALSE = ("lit", "bool", False)


def lit_int(v):
    return ("lit", "int", v)


# ---- term helpers ---------------------------------------------------------------------------------
def mk_field(base, name):
    if base[0] == "adt":
        for fn, ft in base[3]:
            if fn == name:
                return ft
    if base[0] == "tuple" and name.isdigit() and int(name) < len(base[1]):
        return base[1][int(name)]
    if base[0] == "call" and base[1] == "core::slice::split_at" and len(base[2]) == 2 and name in ("0", "1") \
            and base[2][1] == ("call", "core::slice::len", (base[2][0],)):
        # x.split_at(x.len()) is (x, [])
        return base[2][0] if name == "0" else ("array", ())
    if base[0] == "upd":
        # ("upd", inner, ((path, val), ...))
        inner, ups = base[1], base[2]
        exact = [v for p, v in ups if p == (name,)]
        if exact:
            return exact[-1]
        sub = tuple((p[1:], v) for p, v in ups if p[0] == name and len(p) > 1)
        f = mk_field(inner, name)
        return ("upd", f, sub) if sub else f
    return ("field", base, name)


def mk_payload(base, variant, fname):
    if base[0] == "adt":
        if base[2] == variant:
            for fn, ft in base[3]:
                if fn == fname:
                    return ft
    return ("payload", base, variant, fname)


def apply_upd(base, ups):
    """apply field updates structurally when the base is a known struct term"""
    if base[0] == "adt":
        fields = list(base[3])
        rest = []
        for path, v in ups:
            done = False
            for i, (fn, fv) in enumerate(fields):
                if fn == path[0]:
                    fields[i] = (fn, v if len(path) == 1 else apply_upd(fv, ((path[1:], v),)))
                    done = True
            if not done:
                rest.append((path, v))
        nb = ("adt", base[1], base[2], tuple(fields))
        return ("upd", nb, tuple(rest)) if rest else nb
    return ("upd", base, ups)


def some(t):
    # Some(x!Some) is x (the payload term only exists where x is Some): `Some(v) => Some(v)` is the identity arm
    if t[0] == "payload" and t[2] == "Some" and t[3] == "0":
        return t[1]
    return ("adt", "Option", "Some", (("0", t),))


NONE = ("adt", "Option", "None", ())


def ok(t):
    return ("adt", "Result", "Ok", (("0", t),))


def err(t):
    return ("adt", "Result", "Err", (("0", t),))


COMPLEMENT = {"None": "Some", "Err": "Ok", "Break": "Continue"}
SIBLINGS = {"Some": ("Option", "None"), "None": ("Option", "Some"), "Ok": ("Result", "Err"), "Err": ("Result", "Ok")}


# a sink parameter: `&mut W` (generic) or `&mut dyn io::Write`
SINK_TY = r"^&mut ([A-Z]\w*|impl (std::io::)?Write|dyn std::io::Write( \+ '\w+)?)$"


def short_adt(path):
    return path.split("::")[-1]


def lin_norm(terms, const=0):
    """linear normal form: sorted ((term, coeff)...) with zero coefficients dropped"""
    acc = {}
    for t, c in terms:
        if t[0] == "lin":
            for t2, c2 in t[1]:
                acc[t2] = acc.get(t2, 0) + c * c2
            const += c * t[2]
        elif t[0] == "lit" and t[1] == "int":
            const += c * t[2]
        else:
            acc[t] = acc.get(t, 0) + c
    items = tuple(sorted(((t, c) for t, c in acc.items() if c != 0), key=lambda x: repr(x[0])))
    if not items:
        return lit_int(const)
    if len(items) == 1 and items[0][1] == 1 and const == 0:
        return items[0][0]
    return ("lin", items, const)


WIDEN = {("u8", "u16"), ("u8", "u32"), ("u8", "u64"), ("u8", "usize"), ("u16", "u32"), ("u16", "u64"), ("u16", "usize"),
         ("u32", "u64"), ("u32", "usize"), ("u32", "u128"), ("u64", "u128"), ("usize", "u64"), ("u64", "usize"),
         ("usize", "u128"), ("u8", "char"), ("u8", "i32"), ("u32", "i64"), ("i32", "i64")}


class St:
    __slots__ = ("env", "store", "conds", "effects", "n")

    def __init__(self, env=None, store=None, conds=(), effects=(), n=0):
        self.env = env if env is not None else {}
        self.store = store if store is not None else {}
        self.conds = conds
        self.effects = effects
        self.n = n

    def copy(self):
        return St(dict(self.env), dict(self.store), self.conds, self.effects, self.n)

    def with_cond(self, atom, pol):
        """returns new state or None if syntactically contradictory; atoms simplified first"""
        r = simplify_atom(atom)
        if r is True:
            return self if pol else None
        if r is False:
            return None if pol else self
        atom = r
        if atom[0] == "not":
            atom, pol = atom[1], not pol
        for a, p in self.conds:
            if a == atom:
                return self if p == pol else None
            if pol and p and a[0] == "is" and atom[0] == "is" and a[1] == atom[1] and a[2] != atom[2]:
                return None
            if pol and p and a[0] == "eq" and atom[0] == "eq" and a[1] == atom[1] and a[2][0] == "lit" \
                    and atom[2][0] == "lit" and a[2] != atom[2]:
                return None
        s = self.copy()
        s.conds = self.conds + ((atom, pol),)
        return s

    def eff(self, e):
        s = self.copy()
        s.effects = self.effects + (e,)
        return s


def order2(a, b):
    return (a, b) if repr(a) <= repr(b) else (b, a)


def simplify_atom(atom):
    k = atom[0]
    if k == "is":
        t, v = atom[1], atom[2]
        if t[0] == "adt":
            return t[2] == v
        if t[0] == "checked" and len(t) == 5 and t[2] == "u-" and v in ("Some", "None"):
            r_ = ("lt", t[3], t[4])
            return r_ if v == "None" else ("not", r_)
        if v in COMPLEMENT:
            return ("not", ("is", t, COMPLEMENT[v]))
        return atom
    if k == "eq":
        a, b = atom[1], atom[2]
        if a == b:
            return True
        if a[0] == "lit" and b[0] == "lit":
            return a[2] == b[2]
        # eq(x, Some(t)) etc: keep structural; eq(adt, adt) of different variants is false
        if a[0] == "adt" and b[0] == "adt" and a[2] != b[2]:
            return False
        # x == None  <=>  !(x is Some);  x == Variant (unit)  <=>  x is Variant
        for u, w in ((a, b), (b, a)):
            if u[0] == "adt" and not u[3] and w[0] != "adt" and u[1] in ("Option", "Result", "Ordering") or \
                    (u[0] == "adt" and not u[3] and w[0] != "adt" and u[2] in ("None",)):
                if u[2] in COMPLEMENT:
                    return ("not", ("is", w, COMPLEMENT[u[2]]))
                if u[1] == "Option" or u[2] == "Some":
                    return ("is", w, u[2])
        if a[0] == "adt" and b[0] == "adt" and a[2] == b[2] and len(a[3]) == len(b[3]) == 0:
            return True
        # x == ""  <=>  x.is_empty()
        for u, w in ((a, b), (b, a)):
            if u[0] == "lit" and u[1] in ("str", "bytes") and len(u[2]) == 0 and w[0] != "lit":
                return ("empty", w)
        if b[0] == "lit" and a[0] != "lit":
            return ("eq", a, b)
        if a[0] == "lit":
            return ("eq", b, a)
        x, y = order2(a, b)
        return ("eq", x, y)
    if k == "lt":
        a, b = atom[1], atom[2]
        if a == b:
            return False
        if a == ("lit", "int", 0) and b[0] != "lit":
            # all integers compared in the analysed fragments are unsigned: 0 < x  <=>  x != 0
            return ("not", ("eq", b, a))
        if b == ("lit", "int", 0) and a[0] != "lit":
            return False
        if a[0] == "lit" and b[0] == "lit" and a[1] == b[1] == "int":
            return a[2] < b[2]
        # a position found in x is an index of x: position(iter(x), p)!Some < len(x)
        if a[0] == "payload" and a[2] == "Some" and a[1][0] == "call" and a[1][1] in ("std::iter::Iterator::position", "std::iter::Iterator::rposition") \
                and len(a[1][2]) == 2 and a[1][2][0][0] == "call" and a[1][2][0][1] == "core::slice::iter" and len(a[1][2][0][2]) == 1 \
                and b == ("call", "core::slice::len", (a[1][2][0][2][0],)):
            return True
        return atom
    if k == "empty":
        t = atom[1]
        if t[0] == "lit" and t[1] in ("str", "bytes"):
            return len(t[2]) == 0
        return atom
    if k == "bool":
        t = atom[1]
        if t[0] == "lit" and t[1] == "bool":
            return t[2]
        if t[0] in ("is", "eq", "lt", "empty", "not"):
            return simplify_atom(t) if t[0] != "not" else ("not", t[1])
        if t[0] == "quant" and t[1] == "any" and len(t) == 4:
            # any(it, P)  <=>  !all(it, !P): one canonical quantifier
            p_ = t[3]
            neg = p_[1] if p_[0] == "not" else ("not", p_)
            return ("not", ("bool", ("quant", "all", t[2], neg)))
        return atom
    return atom


# outcome kinds
VAL, RET, CONT, BRK = "val", "ret", "cont", "brk"


class Sym:
    def __init__(self, fx, opaque=lambda path: False, inline_depth=4, models=None, krates=("proguard",), inline_mut=False, thread_places=False, string_values=False):
        self.fx = fx
        self.opaque = opaque
        self.inline_depth = inline_depth
        self.inline_mut = inline_mut      # also inline local helpers that take `&mut` places (not generic sinks)
        # with inline_mut: the *values* of the caller's places are threaded through the inlined helper (reads of `self.field`
        # inside it see the current value, its writes are visible to the caller afterwards) - a cursor object with `&mut self`
        # methods then evaluates like the straight-line code it replaces. Opt-in: rules that read place *effects* do not want it.
        self.thread_places = thread_places
        # String::push_str on a local whose value is known also updates that value (`strcat(old, piece)`), so the string a
        # function builds can be read off its result whichever way it was assembled. Opt-in.
        self.string_values = string_values
        # crate-private single-field tuple structs (`struct SourceBytes<'s>(&'s [u8]);`) are transparent wrappers: building one,
        # `.0` on one and matching `Name(x)` are the identity on the wrapped value
        # ... unless the wrapper has behaviour of its own: a hand-written impl of a trait through which the wrapper is *used*
        # (Display, comparison, hashing, iteration, ...) makes `Wrapper(x)` differ from `x` exactly there. Derived impls and
        # plumbing traits (Default, Clone, Copy, Debug, From, Deref, AsRef, Borrow) forward to the wrapped value.
        self.newtypes = set()
        HARMLESS = ("Default", "Clone", "Copy", "Debug", "From", "Into", "Deref", "DerefMut", "AsRef", "AsMut", "Borrow",
                    "StructuralPartialEq", "Send", "Sync", "Unpin", "Freeze")
        try:
            own_impls = {}
            for c_, it_ in fx.items.items():
                for im_ in it_.get("impls", []):
                    if im_.get("trait") and not im_.get("exp"):
                        own_impls.setdefault(short_adt(re.sub(r"<.*$", "", im_.get("self", ""))), set()).add(im_["trait"].split("<")[0].split("::")[-1])
            for a_ in fx.all_adts():
                if a_.get("kind") == "Struct" and a_["path"].split("::")[0] in krates and not a_.get("reachable_pub") and not a_.get("repr_c") \
                        and len(a_.get("variants") or []) == 1 and [f_["name"] for f_ in a_["variants"][0]["fields"]] == ["0"]:
                    if all(t_ in HARMLESS for t_ in own_impls.get(short_adt(a_["path"]), ())):
                        self.newtypes.add(short_adt(a_["path"]))
        except Exception:
            self.newtypes = set()
        self.before = {}                  # mcall term -> values its `&mut` places held when the call was made
        self.tsubst = []                  # stack of {generic parameter name: concrete type} of the helpers being inlined
        self.loops = {}       # id(loop node) -> dict(node, entry, paths)
        self._reserved = {}
        self._next_loop = 0
        self.loop_order = []
        self.npaths = 0
        self.krates = krates
        self.stack = []
        import models as M
        self.M = M

    # ---- public API ---------------------------------------------------------------------------------
    def eval_body(self, body, args=None, st=None):
        """canonicalise a whole fn/closure body; args: list of terms for the parameters
        (default: free inputs named after the parameter bindings). Returns list of
        (state, (kind, term))."""
        st = st.copy() if st is not None else St()
        outs = [(st, None)]
        for i, p in enumerate(body["params"]):
            pat = p.get("pat")
            if pat is None:
                continue
            arg = args[i] if args is not None and i < len(args) and args[i] is not None else None
            nxt = []
            for s, _ in outs:
                a = arg if arg is not None else ("in", pat.get("name", "arg%d" % i))
                for s2, okm in self.pmatch(pat, a, s):
                    if okm:
                        nxt.append((s2, None))
            outs = nxt
        res = []
        pushed = body["path"] not in self.stack
        if pushed:
            self.stack.append(body["path"])
        try:
            for s, _ in outs:
                for s2, (k, v) in self.ev(body["body"], s):
                    if k == RET:
                        k = VAL
                    if k in (CONT, BRK):
                        raise Undecidable(body["body"], "loop exit escaping a function body")
                    res.append((s2, (k, v)))
        finally:
            if pushed:
                self.stack.pop()
        return res

    # ---- expression evaluation --------------------------------------------------------------------------
    def ev(self, n, st):
        self.npaths += 1
        if self.npaths > MAX_PATHS * 40:
            raise Undecidable(n, "fragment too large (evaluation budget exceeded)")
        k = n.get("k")
        m = getattr(self, "ev_" + k, None)
        if m is None:
            raise Undecidable(n, "construct outside the fragment language: %s" % k)
        return m(n, st)

    def ev_seq(self, nodes, st):
        """evaluate nodes left to right; returns list of (state, [terms]) for normal completion and
        list of (state, exit) for early exits"""
        done = [(st, [])]
        exits = []
        for x in nodes:
            nxt = []
            for s, vals in done:
                for s2, (k, v) in self.ev(x, s):
                    if k == VAL:
                        nxt.append((s2, vals + [v]))
                    else:
                        exits.append((s2, (k, v)))
            done = nxt
        return done, exits

    def ev_Lit(self, n, st):
        l = n["lit"]
        if l["t"] == "bytes":
            return [(st, (VAL, ("lit", "bytes", bytes(l["v"]))))]
        return [(st, (VAL, ("lit", l["t"], l.get("v"))))]

    def ev_Var(self, n, st):
        return [(st, (VAL, self.read_var(n, st)))]

    ev_Upvar = ev_Var

    def mut_alias(self, stmt, st):
        """`let a = &mut x.f.g;` with x a local of this frame: `a` is another name of the place `x.f.g` for as long as it lives (the
        borrow checker keeps `x` untouched meanwhile). Reads of `a` see the place's current value, writes through `a` are writes
        to the place. Returns the alias value ("alias", root id, root name, path) or None."""
        pat = stmt["pat"]
        if pat.get("k") != "Bind" or pat.get("sub") is not None or not (pat.get("ty") or "").startswith("&mut "):
            return None
        n, saw_mut = stmt["init"], False
        while isinstance(n, dict):
            k = n.get("k")
            if k == "Borrow":
                saw_mut = saw_mut or bool(n.get("mut"))
                n = n["e"]
            elif k in ("Deref", "Coerce"):
                n = n["e"]
            elif k == "Block" and not n["stmts"] and n.get("tail") is not None:
                n = n["tail"]
            else:
                break
        if not saw_mut:
            return None
        pl = self.place_of(n, st)
        if pl is None or pl[3] is not None or not pl[2] or pl[0] not in st.env:
            return None
        cur = st.env[pl[0]]
        if cur[0] == "alias":
            return ("alias", cur[1], cur[2], tuple(cur[3]) + tuple(pl[2]))
        if (n.get("ty") or "").startswith("&") or self.root_is_ref(pl[0], st):
            return None
        return ("alias", pl[0], pl[1], tuple(pl[2]))

    def mut_alias_destructure(self, stmt, st):
        """`let Struct { a, b, .. } = &mut x;`: every binding is another name of the field place `x.a`, `x.b` (match ergonomics binds
        them by `ref mut`). Returns {binding id: alias value} or None."""
        pat = stmt["pat"]
        if pat.get("k") != "Deref" or not (pat.get("ty") or "").startswith("&mut ") or not isinstance(pat.get("pat"), dict):
            return None
        leaf = pat["pat"]
        if leaf.get("k") != "Leaf" or not leaf.get("fields"):
            return None
        if not all(f_["pat"].get("k") == "Bind" and f_["pat"].get("byref") and f_["pat"].get("sub") is None for f_ in leaf["fields"]):
            return None
        fake = {"pat": {"k": "Bind", "sub": None, "ty": pat["ty"], "id": -1}, "init": stmt["init"]}
        n = stmt["init"]
        while isinstance(n, dict) and n.get("k") in ("Borrow", "Deref", "Coerce"):
            n = n["e"]
        pl = self.place_of(n, st) if isinstance(n, dict) else None
        if pl is None or pl[3] is not None or pl[0] not in st.env:
            return None
        cur = st.env[pl[0]]
        if cur[0] == "alias":
            base = ("alias", cur[1], cur[2], tuple(cur[3]) + tuple(pl[2]))
        elif (n.get("ty") or "").startswith("&") or self.root_is_ref(pl[0], st):
            return None
        else:
            base = ("alias", pl[0], pl[1], tuple(pl[2]))
        return {f_["pat"]["id"]: ("alias", base[1], base[2], tuple(base[3]) + (f_["name"],)) for f_ in leaf["fields"]}

    def root_is_ref(self, vid, st):
        v = st.env.get(vid)
        return v is not None and v[0] in ("place", "pl")

    def read_var(self, n, st):
        vid = n["id"]
        if vid not in st.env:
            # free variable of the fragment (e.g. upvar of a closure evaluated stand-alone)
            base = ("in", n["name"])
        else:
            base = st.env[vid]
            if base[0] == "alias" and base[1] in st.env and st.env[base[1]][0] != "alias":
                cur = self.read_var({"id": base[1], "name": base[2]}, st)
                for fn in base[3]:
                    cur = mk_field(cur, fn)
                return cur
        ups = tuple(sorted(((p, v) for (i, p), v in st.store.items() if i == vid and p), key=repr))
        if (vid, ()) in st.store:
            base = st.store[(vid, ())]
        return apply_upd(base, ups) if ups else base

    def ev_Const(self, n, st):
        v = n.get("val")
        if isinstance(v, dict) and v.get("t") == "int":
            if n.get("ty") == "char" and 0 <= v["v"] < 0x110000:
                return [(st, (VAL, ("lit", "char", chr(v["v"]))))]     # a named `char` constant is that character
            if n.get("ty") == "bool":
                return [(st, (VAL, ("lit", "bool", bool(v["v"]))))]
            return [(st, (VAL, lit_int(v["v"])))]
        if isinstance(v, dict) and v.get("t") == "pretty":
            pv = (v["v"] or "").strip()
            # a named constant holding a plain string / byte-string literal is that literal
            if re.match(r'^"([^"\\]|\\.)*"$', pv):
                return [(st, (VAL, parse_const(pv, "str")))]
            mb = re.match(r'^b"(([^"\\]|\\.)*)"$', pv)
            if mb:
                try:
                    import ast
                    return [(st, (VAL, ("lit", "bytes", ast.literal_eval('b"%s"' % mb.group(1)))))]
                except Exception:
                    pass
            return [(st, (VAL, ("const", n["path"], v["v"])))]
        # a constant of this crate whose value the driver could not print (`const DNS: Self = Self(Uuid::NAMESPACE_DNS)`): its
        # initialiser is evaluated like a function body without parameters (constants are pure)
        cb = self.fx.bodies.get(n["path"])
        if cb is None and self.tsubst:
            # `Self::LIMIT` in a provided trait method being inlined for a concrete Self: the impl's constant
            self_ty = self.subst_ty("Self")
            parts = n["path"].split("::")
            if self_ty != "Self" and len(parts) >= 3:
                cname, tname = parts[-1], parts[-2]
                norm_ = lambda t_: re.sub(r"<.*$", "", re.sub(r"^&('\w+ )?(mut )?", "", t_.strip())).split("::")[-1]
                hits = [q for q in self.fx.bodies if q.endswith(">::" + cname) and re.match(r"^\w+::<(.+) as (.+)>::\w+$", q)
                        and norm_(re.match(r"^\w+::<(.+) as (.+)>::\w+$", q).group(1)) == norm_(self_ty)
                        and re.match(r"^\w+::<(.+) as (.+)>::\w+$", q).group(2).split("<")[0].split("::")[-1] == tname]
                if len(hits) == 1:
                    cb = self.fx.bodies[hits[0]]
        if cb is not None and str(cb.get("kind", "")).startswith(("Const", "AssocConst")) and cb["krate"] in self.krates \
                and cb["path"] not in self.stack and len(self.stack) <= self.inline_depth + 2:
            self.stack.append(cb["path"])
            try:
                outs = self.ev(cb["body"], St(conds=st.conds, effects=st.effects, n=st.n))
            finally:
                self.stack.pop()
            vals_ = [v2 for s2, (k2, v2) in outs if k2 == VAL]
            if len(outs) == 1 and len(vals_) == 1 and outs[0][0].effects == st.effects and outs[0][0].conds == st.conds:
                return [(st, (VAL, vals_[0]))]
        return [(st, (VAL, ("const", n["path"], None)))]

    def ev_Zst(self, n, st):
        if "fn" in n:
            c = n["fn"].get("ctor")
            if c:
                return [(st, (VAL, ("ctor", short_adt(c["adt"]), c["variant"], c["nfields"])))]
            if short_path(n["fn"]["path"]) in RET_POLY and n["fn"].get("targs"):
                # `map(str::parse::<u32>)`: the type argument decides the result, keep it with the function value
                return [(st, (VAL, ("fnref", n["fn"]["path"], n["fn"].get("dp"), tuple(n["fn"]["targs"]))))]
            return [(st, (VAL, ("fnref", n["fn"]["path"], n["fn"].get("dp"))))]
        return [(st, (VAL, ("zst", n.get("ty"))))]

    def ev_Static(self, n, st):
        # `static X: LazyLock<T> = LazyLock::new(init)`: the value behind Deref is what `init` returns (run once; whether `init` is
        # pure is the business of the rule that relies on the value - effects.write_once_static)
        sb = self.fx.bodies.get(n["path"])
        if sb is not None and str(sb.get("kind", "")).startswith("Static") and sb["path"] not in self.stack:
            init = F.strip(sb["body"])
            if init.get("k") == "Call" and "fn" in init and re.search(r"(LazyLock|LazyCell|Lazy)(::<[^>]*>)?::new$", init["fn"]["path"]) \
                    and len(init["args"]) == 1:
                a0 = F.strip(init["args"][0])
                fv = None
                if a0.get("k") == "Closure":
                    fv = ("closure", a0["def"], ())
                elif a0.get("k") == "Zst" and "fn" in a0:
                    fv = ("fnref", a0["fn"]["path"], a0["fn"].get("dp"))
                if fv is not None:
                    self.stack.append(sb["path"])
                    try:
                        outs = self.apply(fv, [], St(conds=st.conds, effects=st.effects, n=st.n), n)
                    finally:
                        self.stack.pop()
                    res = []
                    for s2, (k2, v2) in outs:
                        s3 = st.copy()
                        s3.conds, s3.effects, s3.n = s2.conds, s2.effects, s2.n
                        res.append((s3, (VAL, v2)))
                    return res
        # a plain immutable static with a constant initialiser (`static ZEROS: [u8; 8] = [0; 8];`) is that value
        if sb is not None and str(sb.get("kind", "")).startswith("Static") and sb["path"] not in self.stack:
            import effects as E_
            if E_.plain_constant_static(self.fx, n["path"]):
                self.stack.append(sb["path"])
                try:
                    outs = self.ev(sb["body"], St(conds=st.conds, effects=st.effects, n=st.n))
                finally:
                    self.stack.pop()
                vals_ = [v2 for s2, (k2, v2) in outs if k2 == VAL]
                if len(outs) == 1 and len(vals_) == 1 and outs[0][0].effects == st.effects and outs[0][0].conds == st.conds:
                    return [(st, (VAL, vals_[0]))]
        return [(st, (VAL, ("static", n["path"])))]

    def _unary(self, n, st, f):
        out = []
        for s, (k, v) in self.ev(n["e"], st):
            out.append((s, (k, f(v) if k == VAL else v)))
        return out

    def ev_Borrow(self, n, st):
        if n.get("mut") and self.inline_mut:
            # `&mut local` / `&mut local.field` as a *value* (`Some(&mut compiler)`, a match arm picking a slot): a reference to that
            # place - assigning through whatever it is bound to later is an assignment to the place
            e_ = F.strip(n["e"]) if isinstance(n.get("e"), dict) else {}
            inner = n["e"]
            while isinstance(inner, dict) and inner.get("k") in ("Deref", "Coerce"):
                inner = inner["e"]
            if isinstance(inner, dict) and inner.get("k") in ("Var", "Field"):
                pl = self.place_of(inner, st)
                if pl is not None and pl[3] is None and pl[0] in st.env and not (inner.get("ty") or "").startswith("&"):
                    root_v = st.env[pl[0]]
                    if not (isinstance(root_v, tuple) and root_v[:1] in (("place",), ("pl",), ("alias",))):
                        return [(st, (VAL, ("place", pl[1], tuple(pl[2]))))]
        return self.ev(n["e"], st)

    def ev_Deref(self, n, st):
        return self.ev(n["e"], st)
    ev_Coerce = ev_Deref
    ev_RawBorrow = ev_Deref

    def ev_Cast(self, n, st):
        fr, to = n.get("from"), n.get("ty")

        def f(v):
            if (fr, to) in WIDEN or fr == to:
                return v
            if v[0] == "lit" and v[1] == "int":
                return v
            return ("cast", to, v)
        return self._unary(n, st, f)

    def pread(self, st, name, path):
        """current value of the caller's place `name.path` as threaded into this inlined helper (None: not threaded)"""
        key = ("P", name)
        best = None
        for (k0, kp), v in st.store.items():
            if k0 == key and tuple(path[:len(kp)]) == tuple(kp):
                if best is None or len(kp) > len(best[0]):
                    best = (kp, v)
        if best is None:
            return None
        val = best[1]
        for fn in path[len(best[0]):]:
            val = mk_field(val, fn)
        ups = tuple(sorted(((kp[len(path):], v) for (k0, kp), v in st.store.items()
                            if k0 == key and len(kp) > len(path) and tuple(kp[:len(path)]) == tuple(path)), key=repr))
        return apply_upd(val, ups) if ups else val

    def pwrite(self, st, name, path, v):
        key = ("P", name)
        if not any(k0 == key for (k0, kp) in st.store):
            return st
        s = st.copy()
        for k in [k for k in s.store if k[0] == key and tuple(k[1][:len(path)]) == tuple(path)]:
            del s.store[k]
        s.store[(key, tuple(path))] = v
        return s

    def is_newtype_ty(self, ty):
        ty = (ty or "").strip()
        while ty.startswith("&"):
            ty = re.sub(r"^&('\w+ )?(mut )?", "", ty)
        return bool(self.newtypes) and short_adt(ty.split("<")[0]) in self.newtypes

    def ev_Field(self, n, st):
        if n["name"] == "0" and self.is_newtype_ty(n.get("base_ty")):
            return self._unary(n, st, lambda v: v)
        out = self._unary(n, st, lambda v: mk_field(v, n["name"]))
        if not self.thread_places:
            return out
        res = []
        for s, (k, v) in out:
            if k == VAL:
                t, chain = v, []
                while t[0] == "field":
                    chain.insert(0, t[2])
                    t = t[1]
                if t[0] == "place":
                    cur = self.pread(s, t[1], tuple(t[2]) + tuple(chain))
                    if cur is not None:
                        v = cur
            res.append((s, (k, v)))
        return res

    def ev_Index(self, n, st):
        done, exits = self.ev_seq([n["e"], n["index"]], st)
        return [(s, (VAL, ("index", v[0], v[1]))) for s, v in done] + exits

    def ev_Tuple(self, n, st):
        done, exits = self.ev_seq(n["fields"], st)
        return [(s, (VAL, ("tuple", tuple(v)))) for s, v in done] + exits

    def ev_Array(self, n, st):
        done, exits = self.ev_seq(n["fields"], st)
        return [(s, (VAL, ("array", tuple(v)))) for s, v in done] + exits

    def ev_Repeat(self, n, st):
        return self._unary(n, st, lambda v: ("repeat", v, n["count"]))

    def ev_Adt(self, n, st):
        nodes = [f["e"] for f in n["fields"]]
        base = n.get("base")
        if isinstance(base, dict):
            nodes = nodes + [base]
        done, exits = self.ev_seq(nodes, st)
        out = []
        for s, vals in done:
            given = {f["name"]: v for f, v in zip(n["fields"], vals)}
            if isinstance(base, dict):
                bt = vals[-1]
                fields = tuple((fn, given[fn] if fn in given else mk_field(bt, fn)) for fn in n["all_fields"])
            else:
                fields = tuple((fn, given[fn]) for fn in n["all_fields"] if fn in given)
            adt = short_adt(n["adt"])
            if adt in self.newtypes and len(fields) == 1 and fields[0][0] == "0":
                out.append((s, (VAL, fields[0][1])))
                continue
            if adt == "Option" and n["variant"] == "Some" and len(fields) == 1 and fields[0][1][0] == "payload" and fields[0][1][2] == "Some" \
                    and fields[0][1][3] == "0":
                out.append((s, (VAL, fields[0][1][1])))
                continue
            if adt in ("Range", "RangeInclusive", "RangeFrom", "RangeTo") and fields and len(fields) == len(n["all_fields"]) \
                    and all(fv[0] == "field" and fv[2] == fn for fn, fv in fields) and len({fv[1] for fn, fv in fields}) == 1:
                # Range { start: r.start, end: r.end } is r (a range taken apart and put together again)
                out.append((s, (VAL, fields[0][1][1])))
                continue
            out.append((s, (VAL, ("adt", adt, n["variant"], fields))))
        return out + exits

    def ev_Closure(self, n, st):
        caps = []
        for u in n.get("upvars", []):
            u = F.strip(u)
            # a closure that uses only `x.f` captures the place `x.f` (disjoint capture): what it sees is still the variable `x`
            while u.get("k") in ("Field", "Deref") and isinstance(u.get("e"), dict):
                u = F.strip(u["e"])
            if u.get("k") in ("Var", "Upvar") and u["id"] not in [c_[0] for c_ in caps]:
                caps.append((u["id"], self.read_var(u, st)))
        return [(st, (VAL, ("closure", n["def"], tuple(caps))))]

    def ev_Unary(self, n, st):
        if n["op"] == "Not" and n.get("ty") == "bool":
            def neg(v):
                if v == TRUE:
                    return FALSE
                if v == FALSE:
                    return TRUE
                return v[1] if v[0] == "not" else ("not", v)
            return self._unary(n, st, neg)
        return self._unary(n, st, lambda v: ("neg", v) if n["op"] == "Neg" else ("bitnot", v))

    def ev_Logical(self, n, st):
        return self.bool_value(n, st)

    def bool_value(self, n, st):
        out = []
        for s, r in self.ev_cond(n, st):
            if isinstance(r, bool):
                out.append((s, (VAL, TRUE if r else FALSE)))
            else:
                out.append((s, r))
        return out

    def ev_Binary(self, n, st):
        op = n["op"]
        if op in ("Eq", "Ne", "Lt", "Le", "Gt", "Ge"):
            # value position: a comparison is an atom term (conditions fork on it later)
            done, exits = self.ev_seq([n["l"], n["r"]], st)
            out = []
            for s, (a, b) in done:
                if op in ("Eq", "Ne"):
                    t = ("eq", a, b)
                elif op in ("Lt", "Ge"):
                    t = ("lt", a, b)
                else:
                    t = ("lt", b, a)
                r = simplify_atom(t)
                t = (TRUE if r else FALSE) if isinstance(r, bool) else r
                if op in ("Ne", "Ge", "Le"):
                    t = (FALSE if t == TRUE else TRUE) if t in (TRUE, FALSE) else (t[1] if t[0] == "not" else ("not", t))
                out.append((s, (VAL, t)))
            return out + exits
        done, exits = self.ev_seq([n["l"], n["r"]], st)
        out = []
        for s, (a, b) in done:
            if op == "Add":
                t = lin_norm([(a, 1), (b, 1)])
            elif op == "Sub":
                t = lin_norm([(a, 1), (b, -1)])
            else:
                t = ("bin", op, a, b)
            out.append((s, (VAL, t)))
        return out + exits

    # ---- conditions -----------------------------------------------------------------------------------------
    def ev_cond(self, n, st):
        """returns list of (state, True|False) plus (state, exit) entries for early exits"""
        n0 = n
        n = F.strip(n)
        k = n.get("k")
        if k == "Logical":
            out = []
            for s, r in self.ev_cond(n["l"], st):
                if not isinstance(r, bool):
                    out.append((s, r)); continue
                if n["op"] == "And":
                    if r:
                        out += self.ev_cond(n["r"], s)
                    else:
                        out.append((s, False))
                else:
                    if r:
                        out.append((s, True))
                    else:
                        out += self.ev_cond(n["r"], s)
            return out
        if k == "Unary" and n["op"] == "Not":
            return [(s, (not r) if isinstance(r, bool) else r) for s, r in self.ev_cond(n["e"], st)]
        if k == "LetExpr":
            out = []
            for s, (kk, v) in self.ev(n["e"], st):
                if kk != VAL:
                    out.append((s, (kk, v))); continue
                out += self.pmatch(n["pat"], v, s)
            return out
        if k == "Binary" and n["op"] in ("Eq", "Ne", "Lt", "Le", "Gt", "Ge"):
            done, exits = self.ev_seq([n["l"], n["r"]], st)
            out = list(exits)
            for s, (a, b) in done:
                out += self.cmp_fork(s, n["op"], a, b)
            return out
        # generic: evaluate to a term and branch on it
        out = []
        for s, (kk, v) in self.ev(n, st):
            if kk != VAL:
                out.append((s, (kk, v))); continue
            out += self.fork_bool(s, v)
        return out

    def cmp_fork(self, s, op, a, b):
        if op in ("Eq", "Ne"):
            atom, pol = ("eq", a, b), op == "Eq"
        elif op == "Lt":
            atom, pol = ("lt", a, b), True
        elif op == "Gt":
            atom, pol = ("lt", b, a), True
        elif op == "Ge":
            atom, pol = ("lt", a, b), False
        else:  # Le
            atom, pol = ("lt", b, a), False
        out = []
        s1 = s.with_cond(atom, pol)
        if s1 is not None:
            out.append((s1, True))
        s2 = s.with_cond(atom, not pol)
        if s2 is not None:
            out.append((s2, False))
        return out

    def fork_bool(self, s, v):
        if v[0] == "lit" and v[1] == "bool":
            return [(s, bool(v[2]))]
        if v[0] == "not":
            return [(s2, not r) for s2, r in self.fork_bool(s, v[1])]
        if v[0] == "eq":
            # structural equality of tuples / enum values: componentwise (`Some((a, b)) == Some((c, d))` is `a == c && b == d`)
            comps = None
            l_, r_ = v[1], v[2]
            if l_[0] == "tuple" and r_[0] == "tuple" and len(l_[1]) == len(r_[1]):
                comps = list(zip(l_[1], r_[1]))
            elif l_[0] == "adt" and r_[0] == "adt" and l_[1] == r_[1]:
                if l_[2] != r_[2]:
                    return [(s, False)]
                dl, dr = dict(l_[3]), dict(r_[3])
                if set(dl) == set(dr):
                    comps = [(dl[k_], dr[k_]) for k_ in sorted(dl)]
            if comps is not None:
                out, eq_so_far = [], [s]
                for a_, b_ in comps:
                    nxt = []
                    for s0 in eq_so_far:
                        if a_ == b_:
                            nxt.append(s0)
                            continue
                        for s1, r1 in self.fork_bool(s0, ("eq", a_, b_)):
                            if r1:
                                nxt.append(s1)
                            else:
                                out.append((s1, False))
                    eq_so_far = nxt
                return [(s0, True) for s0 in eq_so_far] + out
        atom = v if v[0] in ("is", "eq", "lt", "empty") else ("bool", v)
        out = []
        s1 = s.with_cond(atom, True)
        if s1 is not None:
            out.append((s1, True))
        s2 = s.with_cond(atom, False)
        if s2 is not None:
            out.append((s2, False))
        return out

    # ---- patterns ---------------------------------------------------------------------------------------------
    def pmatch(self, pat, t, st):
        """list of (state, matched_bool)"""
        k = pat["k"]
        if k == "Wild":
            return [(st, True)]
        if k == "Bind":
            s = st.copy()
            s.env[pat["id"]] = t
            for key in [key for key in s.store if key[0] == pat["id"]]:
                del s.store[key]
            if pat.get("sub"):
                return self.pmatch(pat["sub"], t, s)
            return [(s, True)]
        if k == "Deref":
            return self.pmatch(pat["pat"], t, st)
        if k == "Variant":
            v = pat["variant"]
            r = simplify_atom(("is", t, v))
            out = []
            if r is True:
                yes = [st]
            elif r is False:
                return [(st, False)]
            else:
                s1 = st.with_cond(("is", t, v), True)
                yes = [s1] if s1 is not None else []
                s2 = st.with_cond(("is", t, v), False)
                if s2 is not None:
                    out.append((s2, False))
            for s in yes:
                cur = [(s, True)]
                for f in pat["fields"]:
                    nxt = []
                    for s3, okm in cur:
                        if not okm:
                            nxt.append((s3, False)); continue
                        nxt += self.pmatch(f["pat"], mk_payload(t, v, f["name"]), s3)
                    cur = nxt
                out += cur
            return out
        if k == "Leaf":
            if len(pat["fields"]) == 1 and pat["fields"][0]["name"] == "0" and self.is_newtype_ty(pat.get("ty")):
                return self.pmatch(pat["fields"][0]["pat"], t, st)
            cur = [(st, True)]
            for f in pat["fields"]:
                nxt = []
                for s3, okm in cur:
                    if not okm:
                        nxt.append((s3, False)); continue
                    nxt += self.pmatch(f["pat"], mk_field(t, f["name"]), s3)
                cur = nxt
            return cur
        if k == "Slice" and pat.get("slice") is not None and pat["slice"].get("k") == "Wild" and not pat.get("suffix") \
                and len(pat.get("prefix") or []) == 1 and pat["prefix"][0].get("k") == "Wild":
            # `[_, ..]`: the slice is not empty
            out = []
            for pol in (True, False):
                s1 = st.with_cond(("empty", t), not pol)
                if s1 is not None:
                    out.append((s1, pol))
            return out
        if k == "Slice" and pat.get("slice") is None and not pat.get("suffix") and not pat.get("prefix"):
            # `[]`: the slice is empty
            out = []
            for pol in (True, False):
                s1 = st.with_cond(("empty", t), pol)
                if s1 is not None:
                    out.append((s1, pol))
            return out
        if k == "Slice" and pat.get("slice") is not None and not pat.get("suffix") and pat.get("prefix") \
                and pat["slice"].get("k") == "Wild" and all(q.get("k") == "Const" for q in pat["prefix"]):
            # `[b'#', ..]` / `[b' ', b' ', b' ', b' ', ..]`: the byte slice starts with these bytes
            bs = []
            for q in pat["prefix"]:
                c_ = parse_const(q["v"], q.get("ty", ""))
                if c_[0] == "lit" and c_[1] == "int" and 0 <= c_[2] < 256:
                    bs.append(c_[2])
                else:
                    raise Undecidable(pat, "slice pattern element outside the fragment language: %s" % q.get("v"))
            atom = ("bool", ("call", "core::slice::starts_with", (t, ("lit", "bytes", bytes(bs)))))
            out = []
            s1 = st.with_cond(atom, True)
            if s1 is not None:
                out.append((s1, True))
            s2 = st.with_cond(atom, False)
            if s2 is not None:
                out.append((s2, False))
            return out
        if k == "Slice" and pat.get("slice") is not None and not pat.get("suffix") and len(pat.get("prefix") or []) == 1 \
                and pat["prefix"][0].get("k") in ("Bind", "Wild") and pat["slice"].get("k") in ("Bind", "Wild"):
            # `[first, rest @ ..]`: the slice is not empty; first = x[0], rest = x[1..]
            out = []
            s0 = st.with_cond(("empty", t), True)
            if s0 is not None:
                out.append((s0, False))
            s1 = st.with_cond(("empty", t), False)
            if s1 is not None:
                cur = self.pmatch(pat["prefix"][0], ("index", t, lit_int(0)), s1)
                for s2, ok2 in cur:
                    if not ok2:
                        out.append((s2, False))
                        continue
                    rest_t = ("call", "std::ops::Index::index", (t, ("adt", "RangeFrom", "RangeFrom", (("start", lit_int(1)),))))
                    out += self.pmatch(pat["slice"], rest_t, s2)
            return out
        if k == "Const":
            lit = parse_const(pat["v"], pat.get("ty", ""))
            atom = ("eq", t, lit)
            out = []
            s1 = st.with_cond(atom, True)
            if s1 is not None:
                out.append((s1, True))
            s2 = st.with_cond(atom, False)
            if s2 is not None:
                out.append((s2, False))
            return out
        if k == "Or":
            out = []
            rest = [st]
            for p in pat["pats"]:
                nxt = []
                for s in rest:
                    for s2, okm in self.pmatch(p, t, s):
                        if okm:
                            out.append((s2, True))
                        else:
                            nxt.append(s2)
                rest = nxt
            return out + [(s, False) for s in rest]
        if k == "Guard":
            out = []
            for s, okm in self.pmatch(pat["pat"], t, st):
                if not okm:
                    out.append((s, False)); continue
                for s2, r in self.ev_cond(pat["cond"], s):
                    if isinstance(r, bool):
                        out.append((s2, r))
                    else:
                        raise Undecidable(pat["cond"], "early exit inside a pattern guard")
            return out
        if k == "Range":
            atom = ("inrange", t, pat["v"])
            out = []
            for pol in (True, False):
                s1 = st.with_cond(atom, pol)
                if s1 is not None:
                    out.append((s1, pol))
            return out
        raise Undecidable(pat, "pattern outside the fragment language: %s" % k)

    # ---- control flow ----------------------------------------------------------------------------------------------
    def ev_If(self, n, st):
        out = []
        for s, r in self.ev_cond(n["cond"], st):
            if not isinstance(r, bool):
                out.append((s, r)); continue
            if r:
                out += self.ev(n["then"], s)
            elif n.get("else") is not None:
                out += self.ev(n["else"], s)
            else:
                out.append((s, (VAL, UNIT)))
        self.budget(n, out)
        return out

    def budget(self, n, out):
        if len(out) > MAX_PATHS:
            raise Undecidable(n, "fragment has more than %d paths" % MAX_PATHS)

    def ev_LetExpr(self, n, st):
        return self.bool_value(n, st)

    def unroll_array_for(self, n, st):
        """`for pat in [e1, .., ek] { body }` (k <= 8, array literal): k copies of the body in sequence. None if n is not that."""
        if n.get("k") != "Match" or "ForLoopDesugar" not in n.get("src", ""):
            return None
        sc = F.strip(n["scrut"])
        if not F.is_call(sc, "std::iter::IntoIterator::into_iter") or len(n["arms"]) != 1:
            return None
        arr = F.strip(sc["args"][0])
        arr_is_lit = arr.get("k") == "Array" and 1 <= len(arr["fields"]) <= 8
        if not arr_is_lit and not (arr.get("k") in ("Var", "Upvar") and re.match(r"^\[.*; [1-8]\]$", arr.get("ty") or "")):
            return None
        lp = F.strip(n["arms"][0]["body"])
        while lp.get("k") == "Block" and not lp["stmts"] and lp.get("tail") is not None:
            lp = F.strip(lp["tail"])
        if lp.get("k") != "Loop":
            return None
        inner = F.strip(lp["body"])
        while inner.get("k") == "Block" and inner.get("tail") is None and len(inner["stmts"]) == 1 and inner["stmts"][0]["k"] == "Expr":
            inner = F.strip(inner["stmts"][0]["e"])
        while inner.get("k") == "Block" and not inner["stmts"] and inner.get("tail") is not None:
            inner = F.strip(inner["tail"])
        if inner.get("k") != "Match" or not F.is_call(F.strip(inner["scrut"]), "std::iter::Iterator::next") or len(inner["arms"]) != 2:
            return None
        some_arm = [a_ for a_ in inner["arms"] if a_["pat"].get("k") == "Variant" and a_["pat"].get("variant") == "Some"]
        if len(some_arm) != 1 or not some_arm[0]["pat"]["fields"]:
            return None
        elem_pat, body = some_arm[0]["pat"]["fields"][0]["pat"], some_arm[0]["body"]
        if arr_is_lit:
            done, exits = self.ev_seq(arr["fields"], st)
        else:
            # a local bound to an array literal of known small length
            done, exits = [], []
            for s_, (k_, v_) in self.ev(arr, st):
                if k_ == VAL and v_[0] == "array" and 1 <= len(v_[1]) <= 8:
                    done.append((s_, list(v_[1])))
                else:
                    return None
        out = list(exits)
        for s0, vals in done:
            cur = [s0]
            for v_ in vals:
                nxt = []
                for s1 in cur:
                    for s2, okm in self.pmatch(elem_pat, v_, s1):
                        if not okm:
                            continue
                        for s3, (k3, v3) in self.ev(body, s2):
                            if k3 in (VAL, CONT):
                                nxt.append(s3)
                            elif k3 == BRK:
                                out.append((s3, (VAL, UNIT)))
                            else:
                                out.append((s3, (k3, v3)))
                cur = nxt
            out += [(s_, (VAL, UNIT)) for s_ in cur]
        self.budget(n, out)
        return out

    def ev_Match(self, n, st):
        t_op = FL.try_operand(n)
        if t_op is not None:
            return self.ev_try(n, t_op, st)
        r_ = self.unroll_array_for(n, st)
        if r_ is not None:
            return r_
        out = []
        for s, (k, v) in self.ev(n["scrut"], st):
            if k != VAL:
                out.append((s, (k, v))); continue
            rest = [s]
            for arm in n["arms"]:
                nxt = []
                for s1 in rest:
                    for s2, okm in self.pmatch(arm["pat"], v, s1):
                        if not okm:
                            nxt.append(s2); continue
                        if arm.get("guard"):
                            for s3, r in self.ev_cond(arm["guard"], s2):
                                if not isinstance(r, bool):
                                    out.append((s3, r))
                                elif r:
                                    out += self.ev(arm["body"], s3)
                                else:
                                    nxt.append(s3)
                        else:
                            out += self.ev(arm["body"], s2)
                rest = nxt
            # `rest` are states where no arm matched: impossible for exhaustive matches (the
            # checker cannot see exhaustiveness of multi-variant enums; they are simply dropped)
        self.budget(n, out)
        return out

    def ev_try(self, n, operand, st):
        out = []
        for s, (k, v) in self.ev(operand, st):
            if k != VAL:
                out.append((s, (k, v))); continue
            ty = operand.get("ty", "") if isinstance(operand, dict) else ""
            is_opt = F.strip(operand).get("ty", ty).startswith("std::option::Option")
            good, bad = ("Some", "None") if is_opt else ("Ok", "Err")
            r = simplify_atom(("is", v, good))
            if r is True or r not in (True, False):
                s1 = s if r is True else s.with_cond(("is", v, good), True)
                if s1 is not None:
                    out.append((s1, (VAL, mk_payload(v, good, "0"))))
            if r is False or r not in (True, False):
                s2 = s if r is False else s.with_cond(("is", v, good), False)
                if s2 is not None:
                    if is_opt:
                        out.append((s2, (RET, NONE)))
                    else:
                        e_ = mk_payload(v, "Err", "0")
                        out.append((s2, (RET, err(e_ if try_same_error_type(n) else ("from", e_)))))
        return out

    def ev_Block(self, n, st):
        cur = [st]
        out = []
        for stmt in n["stmts"]:
            nxt = []
            for s in cur:
                if stmt["k"] == "Expr":
                    for s2, (k, v) in self.ev(stmt["e"], s):
                        if k == VAL:
                            nxt.append(s2)
                        else:
                            out.append((s2, (k, v)))
                else:
                    if stmt.get("init") is None:
                        for s2, okm in self.pmatch(stmt["pat"], ("uninit",), s):
                            nxt.append(s2)
                        continue
                    al = self.mut_alias(stmt, s)
                    if al is not None:
                        s2 = s.copy()
                        s2.env[stmt["pat"]["id"]] = al
                        nxt.append(s2)
                        continue
                    als = self.mut_alias_destructure(stmt, s)
                    if als is not None:
                        s2 = s.copy()
                        s2.env.update(als)
                        nxt.append(s2)
                        continue
                    for s2, (k, v) in self.ev(stmt["init"], s):
                        if k != VAL:
                            out.append((s2, (k, v))); continue
                        for s3, okm in self.pmatch(stmt["pat"], v, s2):
                            if okm:
                                nxt.append(s3)
                            elif stmt.get("else") is not None:
                                for s4, (k4, v4) in self.ev(stmt["else"], s3):
                                    if k4 == VAL:
                                        raise Undecidable(stmt["else"], "let-else block does not diverge")
                                    out.append((s4, (k4, v4)))
                            # irrefutable patterns never fail
            cur = nxt
            self.budget(n, cur)
        for s in cur:
            if n.get("tail") is not None:
                out += self.ev(n["tail"], s)
            else:
                out.append((s, (VAL, UNIT)))
        self.budget(n, out)
        return out

    def ev_Return(self, n, st):
        if n.get("e") is None:
            return [(st, (RET, UNIT))]
        out = []
        for s, (k, v) in self.ev(n["e"], st):
            out.append((s, (RET, v) if k == VAL else (k, v)))
        return out

    def ev_Break(self, n, st):
        if n.get("e") is None:
            return [(st, (BRK, None))]
        out = []
        for s, (k, v) in self.ev(n["e"], st):
            out.append((s, (BRK, v) if k == VAL else (k, v)))
        return out

    def ev_Continue(self, n, st):
        return [(st, (CONT, None))]

    # ---- places & assignment ---------------------------------------------------------------------------------------------
    def subst_ty(self, t):
        for m in reversed(self.tsubst):
            if m:
                t = re.sub(r"\b(%s)\b" % "|".join(re.escape(g) for g in m), lambda mo: m[mo.group(1)], t)
        return t

    def place_of(self, n, st):
        """(root var id, root name, field path tuple) for Var/Field chains; None otherwise"""
        n = F.strip(n)
        path = []
        while n.get("k") == "Field":
            path.append(n["name"])
            n = F.strip(n["e"])
        if n.get("k") in ("Var", "Upvar"):
            root = None
            if st is not None and n["id"] in st.env and st.env[n["id"]][0] == "alias":
                al = st.env[n["id"]]
                return (al[1], al[2], tuple(al[3]) + tuple(reversed(path)), None)
            if st is not None and n.get("ty", "").startswith("&mut ") and n["id"] in st.env:
                ev = st.env[n["id"]]
                if ev[0] in ("call", "mcall", "payload", "field", "place", "pl"):
                    root = ev      # a &mut reference obtained from a call: the place is behind it
            return (n["id"], n["name"], tuple(reversed(path)), root)
        return None

    def place_term(self, pl):
        if len(pl) > 3 and pl[3] is not None:
            if pl[3][0] == "place":
                # a `&mut` parameter bound to a caller's place (inlined helper): the same place
                return ("place", pl[3][1], tuple(pl[3][2]) + tuple(pl[2]))
            return ("pl", pl[3], pl[2])
        return ("place", pl[1], pl[2])

    def write_place(self, st, pl, v):
        s = st.copy()
        vid, _, path = pl[0], pl[1], pl[2]
        if len(pl) > 3 and pl[3] is not None:
            if self.thread_places and pl[3][0] == "place":
                return self.pwrite(s, pl[3][1], tuple(pl[3][2]) + tuple(path), v)
            return s        # writes through a reference are recorded as effects only
        for key in [key for key in s.store if key[0] == vid and key[1][:len(path)] == path]:
            del s.store[key]
        if not path:
            s.env[vid] = v
        else:
            s.store[(vid, path)] = v
        return s

    def ev_Assign(self, n, st):
        pl = self.place_of(n["l"], st)
        out = []
        for s, (k, v) in self.ev(n["r"], st):
            if k != VAL:
                out.append((s, (k, v))); continue
            if pl is None:
                # assignment through a reference / index: record as effect on the evaluated lhs term
                for s2, (k2, lv) in self.ev(n["l"], s):
                    out.append((s2.eff(("assign", lv, v)), (VAL, UNIT)))
                continue
            s2 = self.write_place(s, pl, v).eff(("assign", self.place_term(pl), v))
            out.append((s2, (VAL, UNIT)))
        return out

    def ev_AssignOp(self, n, st):
        pl = self.place_of(n["l"], st)
        out = []
        done, exits = self.ev_seq([n["l"], n["r"]], st)
        for s, (old, v) in done:
            op = n["op"].replace("Assign", "")
            if op == "Add":
                new = lin_norm([(old, 1), (v, 1)])
            elif op == "Sub":
                new = lin_norm([(old, 1), (v, -1)])
            else:
                new = ("bin", op, old, v)
            if pl is None:
                out.append((s.eff(("opassign", op, old, v)), (VAL, UNIT)))
            else:
                s2 = self.write_place(s, pl, new).eff(("opassign", op, self.place_term(pl), v))
                out.append((s2, (VAL, UNIT)))
        return out + exits

    # ---- loops -----------------------------------------------------------------------------------------------------------------
    def assigned_roots(self, n):
        ids = {}
        for x in F.walk(n):
            k = x.get("k")
            tgt = None
            if k in ("Assign", "AssignOp"):
                tgt = x["l"]
            elif k == "Borrow" and x.get("mut"):
                tgt = x["e"]
            if tgt is not None:
                pl = self.place_of(tgt, None)
                if pl:
                    ids[pl[0]] = pl[1]
            if k == "Closure":
                cb = self.fx.bodies.get(x["def"])
                if cb:
                    for y in F.walk(cb["body"]):
                        if y.get("k") in ("Assign", "AssignOp") or (y.get("k") == "Borrow" and y.get("mut")):
                            t2 = y["l"] if "l" in y else y["e"]
                            pl = self.place_of(t2, None)
                            if pl:
                                ids[pl[0]] = pl[1]
        return ids

    def ev_Loop(self, n, st):
        key = id(n)
        roots = self.assigned_roots(n["body"])
        entry = st.copy()
        if key in self.loops:
            idx = self.loops[key]["index"]
        elif key in self._reserved:
            idx = self._reserved[key]
        else:
            idx = self._next_loop
            self._next_loop += 1
            self._reserved[key] = idx
        for vid, name in roots.items():
            cur_ = entry.env.get(vid)
            if isinstance(cur_, tuple) and cur_[:1] == ("closure",) and (vid, ()) not in entry.store:
                # an FnMut closure held in a local and called (`&mut f`) inside the loop: the variable keeps holding that closure;
                # what the closure mutates are the places it captured (they are roots of their own)
                continue
            if vid in entry.env or True:
                entry.env[vid] = ("loop", name, idx)
            for sk in [sk for sk in entry.store if sk[0] == vid]:
                del entry.store[sk]
        entry.effects = ()
        base_conds = entry.conds
        paths = self.ev(n["body"], entry)
        norm = []
        for s, (k, v) in paths:
            if k == VAL:
                k, v = CONT, None
            norm.append((s, (k, v)))
        if key not in self.loops:
            self.loop_order.append(key)
            self.loops[key] = dict(node=n, entry=entry, paths=norm, index=idx, pre=st)
        else:
            idx = self.loops[key]["index"]
        out = []
        # function returns from inside the loop propagate (conditions relative to one iteration)
        for s, (k, v) in norm:
            if k == RET:
                s2 = s.copy()
                s2.effects = st.effects + (("inloop", idx),) + s.effects
                out.append((s2, (RET, v)))
        after = entry.copy()
        after.conds = base_conds
        after.effects = st.effects + (("loopsum", idx),)
        out.append((after, (VAL, UNIT)))
        return out

    # ---- calls -----------------------------------------------------------------------------------------------------------------
    def ev_Call(self, n, st):
        if "fn" not in n:
            # indirect call through a value (fn pointer / closure variable)
            done, exits = self.ev_seq([n["fun"]] + n["args"], st)
            out = list(exits)
            for s, vals in done:
                out += self.apply(vals[0], vals[1:], s, n)
            return out
        f = n["fn"]
        path = f["path"]
        # format_args!/format! expansion blocks are decoded structurally
        r = self.M.special_form(self, n, st)
        if r is not None:
            return r
        mut_idx = [i for i, a in enumerate(n["args"]) if is_mut_borrow(a) and not is_temporary(a)]
        done, exits = self.ev_args(n["args"], mut_idx, st)
        out = list(exits)
        for s, vals in done:
            out += self.call(n, f, vals, mut_idx, s)
        self.budget(n, out)
        return out

    def ev_args(self, args, mut_idx, st):
        """like ev_seq, but `&mut place` arguments evaluate to place terms"""
        done = [(st, [])]
        exits = []
        for i, a in enumerate(args):
            nxt = []
            for s, vals in done:
                if i in mut_idx:
                    pl = self.place_of(a, s)
                    if pl is not None:
                        if pl[3] is None and not pl[2]:
                            cur = s.env.get(pl[0])
                            if isinstance(cur, tuple) and cur[:1] == ("closure",):
                                # `&mut f` of a local FnMut closure handed on as a callable: the callee is the closure itself
                                nxt.append((s, vals + [cur]))
                                continue
                        nxt.append((s, vals + [self.place_term(pl)]))
                        continue
                for s2, (k, v) in self.ev(a, s):
                    if k == VAL:
                        nxt.append((s2, vals + [v]))
                    else:
                        exits.append((s2, (k, v)))
            done = nxt
        return done, exits

    def call(self, n, f, vals, mut_idx, st):
        path = f["path"]
        # 1. models of std functions
        r = self.M.apply_model(self, n, f, vals, mut_idx, st)
        if r is not None:
            return r
        # 2. local functions: inline
        tgt = self.fx.by_dp.get(f.get("resolved_dp")) or self.fx.by_dp.get(f.get("dp"))
        if (not tgt or tgt not in self.fx.bodies) and f.get("trait") and f.get("targs") and self.tsubst:
            # a method of a crate trait called on a type parameter of the generic helper being inlined (`remapper.original_class(..)`
            # with R = ProguardMapper at this call site): the impl for the concrete type is the callee
            tgt = self.resolve_impl(f["trait"], path.split("::")[-1], self.subst_ty(f["targs"][0])) or tgt
        if tgt and tgt in self.fx.bodies:
            b = self.fx.bodies[tgt]
            mut_ok = not mut_idx or (self.inline_mut and not b.get("impl_trait") and all(vals[i][0] in ("place", "pl") for i in mut_idx)
                                     and not (any(re.match(SINK_TY, (p_.get("ty") or "")) for p_ in b["params"]) and self.sink_leaf(b)))
            if b["krate"] in self.krates and not self.opaque(tgt) and tgt not in self.stack \
                    and len(self.stack) <= self.inline_depth and mut_ok and (not has_loop(b) or self.inline_mut):
                # generic helper: remember what its type parameters stand for at this call site (type-qualified callee names
                # inside it - Pod::slice_from_prefix<T>, parse::<F> - must name the concrete type)
                gens, targs = b.get("generics") or [], [self.subst_ty(t_) for t_ in (f.get("targs") or [])]
                if len(targs) == len(gens) + 1 and f.get("trait") and b.get("impl_trait"):
                    targs = targs[1:]       # a trait method's own type arguments follow the Self type
                self.tsubst.append({g: t_ for g, t_ in zip(gens, targs) if not g.startswith("'")} if len(gens) == len(targs) else {})
                st0 = St(conds=st.conds, effects=st.effects, n=st.n)
                threaded = {}
                if self.thread_places:
                    for key_, val_ in st.store.items():
                        if isinstance(key_[0], tuple) and key_[0][:1] == ("P",):
                            st0.store[key_] = val_      # places threaded into this frame stay readable in its callees
                    for i in mut_idx:
                        if vals[i][0] != "place":
                            continue
                        pl = self.place_of(n["args"][i], st)
                        if pl is None:
                            continue
                        if pl[3] is None:
                            cur = self.read_var({"id": pl[0], "name": pl[1]}, st)
                            for fn in pl[2]:
                                cur = mk_field(cur, fn)
                        elif pl[3][0] == "place":
                            cur = self.pread(st, pl[3][1], tuple(pl[3][2]) + tuple(pl[2]))
                        else:
                            cur = None
                        if cur is not None:
                            st0.store[(("P", vals[i][1]), tuple(vals[i][2]))] = cur
                            threaded[i] = (vals[i][1], tuple(vals[i][2]), cur)
                try:
                    res = self.eval_body(b, vals, st0)
                finally:
                    self.tsubst.pop()
                out = []
                for s2, (k, v) in res:
                    s3 = st.copy()
                    s3.conds, s3.effects, s3.n = s2.conds, s2.effects, s2.n
                    if mut_idx and len(s2.effects) > len(st.effects):
                        # the callee worked on the caller's places through `&mut` parameters: what the caller knew about
                        # those places is stale now (unless their values were threaded through the callee)
                        s3.n += 1
                        for i in mut_idx:
                            pl = self.place_of(n["args"][i], s3)
                            if pl is not None:
                                if i in threaded:
                                    fin = self.pread(s2, threaded[i][0], threaded[i][1])
                                    if fin is not None:
                                        if fin != threaded[i][2]:
                                            s3 = self.write_place(s3, pl, fin)
                                        continue
                                s3 = self.write_place(s3, pl, ("after", ("inlined", short_path(tgt), s3.n), i))
                    out.append((s3, (VAL, v)))
                return out
            path = tgt
        # 3. opaque: pure term if no &mut argument, effectful otherwise
        name = short_path(path)
        if f.get("trait") and f.get("targs") and not f["trait"].startswith(("std::", "core::", "alloc::")) \
                and (f.get("mentions") or self.subst_ty(f["targs"][0]) != f["targs"][0]):
            name += "<%s>" % self.subst_ty(f["targs"][0])      # static trait call: keep the Self type (e.g. Pod::slice_from_prefix<Member>)
        if name in RET_POLY and f.get("targs"):
            # the result depends on a type argument that no value argument determines (`s.parse::<u32>()`)
            name += "::<%s>" % self.subst_ty(f["targs"][-1])
        if not mut_idx:
            if self.thread_places:
                # a read-only std call on a `&mut` parameter of an inlined helper (`section.len()`): it sees the value the
                # caller's place holds at this point, not "the place"
                cur_vals = []
                for v_ in vals:
                    if v_[0] == "place":
                        cur = self.pread(st, v_[1], tuple(v_[2]))
                        if cur is not None:
                            v_ = cur
                    cur_vals.append(v_)
                vals = cur_vals
            return [(st, (VAL, ("call", name, tuple(vals))))]
        s = st.copy()
        s.n += 1
        t = ("mcall", name, tuple(vals), s.n)
        s.effects = s.effects + (("call", name, tuple(vals), s.n),)
        # what the mutated places held when the call was made (side table for rules that must know *which* value a `next()` was
        # taken from - `xs.iter()` or `xs.iter().skip(1)`)
        for i in mut_idx:
            pl0 = self.place_of(n["args"][i], st)
            if pl0 is not None and pl0[3] is None and pl0[0] in st.env:
                try:
                    cur0 = self.read_var({"id": pl0[0], "name": pl0[1]}, st)
                    for fn0 in pl0[2]:
                        cur0 = mk_field(cur0, fn0)
                    self.before.setdefault(t, set()).add(cur0)
                except Exception:
                    pass
        # the mutated places now hold "the value after this effect"
        for i in mut_idx:
            pl = self.place_of(n["args"][i], s)
            if pl is not None:
                s = self.write_place(s, pl, ("after", t, i))
        return [(s, (VAL, t))]

    def resolve_impl(self, trait, method, self_ty):
        def norm(t):
            t = re.sub(r"^&('\w+ )?(mut )?", "", (t or "").strip())
            t = re.sub(r"<.*$", "", t)
            return t.split("::")[-1]
        if not self_ty or len(norm(self_ty)) <= 2:       # still a bare type parameter (`R`)
            return None
        hits = [p_ for p_, b_ in self.fx.bodies.items() if b_.get("impl_trait") == trait and b_.get("name") == method
                and norm(b_.get("impl_self")) == norm(self_ty) and b_["krate"] in self.krates]
        return hits[0] if len(hits) == 1 else None

    def sink_leaf(self, b):
        """a helper with a generic `&mut W` sink parameter that only talks to std (`write_aligned`): kept opaque, rules summarise
        it by its emission shape. A helper that forwards the sink to other local functions (`write_sections`) is plumbing and is
        evaluated through."""
        c = b.get("_sink_leaf")
        if c is None:
            c = True
            # (its closures are part of it: `sections.into_iter().try_for_each(|s| write_aligned(writer, s))`)
            bodies_, todo_ = [b], [b["path"]]
            while todo_:
                for cb_ in self.fx.closures_of(todo_.pop()):
                    bodies_.append(cb_)
                    todo_.append(cb_["path"])
            # (a byte sink: it talks to `std::io::Write`; a text helper over `&mut impl fmt::Write` spells its parameter alike)
            if not any(x.get("k") == "Call" and "fn" in x and x["fn"]["path"].startswith("std::io::Write::")
                       for bb_ in bodies_ for x in F.walk(bb_["body"])):
                c = False
            for x in (y for bb_ in bodies_ for y in F.walk(bb_["body"])):
                if x.get("k") == "Call" and "fn" in x:
                    tgt = self.fx.by_dp.get(x["fn"].get("dp"))
                    if tgt in self.fx.bodies and self.fx.bodies[tgt]["krate"] in self.krates and tgt != b["path"] \
                            and any(re.match(SINK_TY, (p_.get("ty") or "")) for p_ in self.fx.bodies[tgt]["params"]):
                        c = False
                        break
            b["_sink_leaf"] = c
        return c

    def apply(self, fval, args, st, n):
        """apply a function value (closure / fn ref) to argument terms"""
        if fval[0] == "closure":
            cb = self.fx.bodies.get(fval[1])
            if cb is None:
                raise Undecidable(n, "closure body not found: %s" % fval[1])
            if has_loop(cb):
                return [(st, (VAL, ("call", "closure:" + short_path(fval[1]), tuple(args))))]
            # closure params: first param of the THIR body is the closure env itself
            params = cb["params"]
            off = 1 if params and params[0].get("pat") is None else 0
            full = [None] * off + list(args)
            res = []
            foreign = bool(self.stack) and cb.get("parent") is not None and cb.get("parent") != self.stack[-1] \
                and not self.stack[-1].startswith(cb.get("parent") + "::{closure")
            if foreign:
                # applied inside another function (a closure passed to a helper): variable ids are per function, so the
                # helper's locals must not be visible; only the captured values are
                sub = St({}, {}, st.conds, st.effects, st.n)
            else:
                sub = St(dict(st.env), dict(st.store), st.conds, st.effects, st.n)
            for cid, cv in (fval[2] if len(fval) > 2 else ()):
                if foreign or cid not in sub.env:
                    sub.env[cid] = cv       # captured value (used when applied outside the defining state)
            outs = [(sub, None)]
            for i, p in enumerate(params):
                pat = p.get("pat")
                if pat is None:
                    continue
                a = full[i] if i < len(full) and full[i] is not None else ("in", pat.get("name", "arg%d" % i))
                nxt = []
                for s, _ in outs:
                    for s2, okm in self.pmatch(pat, a, s):
                        if okm:
                            nxt.append((s2, None))
                outs = nxt
            for s, _ in outs:
                for s2, (k, v) in self.ev(cb["body"], s):
                    if k == RET:
                        k = VAL
                    if k != VAL:
                        raise Undecidable(n, "loop exit escaping a closure")
                    if foreign:
                        s3 = st.copy()
                        s3.conds, s3.effects, s3.n = s2.conds, s2.effects, s2.n
                        s2 = s3
                    res.append((s2, (VAL, v)))
            return res
        if fval[0] == "ctor" and len(args) == fval[3]:
            # a tuple-variant constructor used as a function value builds the same value as the constructor expression
            if fval[1] == "Option" and fval[2] == "Some":
                return [(st, (VAL, some(args[0])))]
            if fval[1] in self.newtypes and len(args) == 1:
                return [(st, (VAL, args[0]))]
            return [(st, (VAL, ("adt", fval[1], fval[2], tuple((str(i), a) for i, a in enumerate(args)))))]
        if fval[0] == "fnref":
            tgt = self.fx.by_dp.get(fval[2])
            f = dict(path=fval[1], dp=fval[2])
            if len(fval) > 3:
                f["targs"] = list(fval[3])
            fake = dict(k="Call", fn=f, args=[], sp=n.get("sp", "?"), ty="?")
            r = self.M.apply_model(self, fake, f, list(args), [], st)
            if r is not None:
                return r
            if len(fval) > 3 and short_path(fval[1]) in RET_POLY:
                return [(st, (VAL, ("call", short_path(fval[1]) + "::<%s>" % self.subst_ty(fval[3][-1]), tuple(args))))]
            if tgt and tgt in self.fx.bodies and not self.opaque(tgt) and tgt not in self.stack \
                    and len(self.stack) < self.inline_depth and not has_loop(self.fx.bodies[tgt]) \
                    and self.fx.bodies[tgt]["krate"] in self.krates:
                res = self.eval_body(self.fx.bodies[tgt], list(args), St(conds=st.conds, effects=st.effects, n=st.n))
                out = []
                for s2, (k, v) in res:
                    s3 = st.copy()
                    s3.conds, s3.effects, s3.n = s2.conds, s2.effects, s2.n
                    out.append((s3, (VAL, v)))
                return out
            return [(st, (VAL, ("call", short_path(tgt or fval[1]), tuple(args))))]
        return [(st, (VAL, ("apply", fval, tuple(args))))]


def has_loop(body):
    c = body.get("_has_loop")
    if c is None:
        c = any(x.get("k") == "Loop" for x in F.walk(body["body"]))
        body["_has_loop"] = c
    return c


def is_mut_borrow(a):
    while isinstance(a, dict) and a.get("k") in ("Coerce",):
        a = a["e"]
    if a.get("k") == "Borrow" and a.get("mut"):
        return True
    if a.get("k") in ("Var", "Upvar") and a.get("ty", "").startswith("&mut "):
        return True
    if a.get("k") == "Deref" and a.get("ty", "").startswith("&mut "):
        return True
    return False


def is_temporary(a):
    """`&mut <call returning a non-reference value>`: mutation of a temporary is unobservable"""
    while isinstance(a, dict) and a.get("k") in ("Borrow", "Deref", "Coerce"):
        a = a["e"]
    return a.get("k") == "Call" and not a.get("ty", "").startswith("&")


def short_path(p):
    """drop generic-argument segments (`::<T, 'a>`) and lifetimes; keep `<X as Trait>` / `<impl ..>` qualifiers"""
    out = []
    i = 0
    n = len(p)
    while i < n:
        if p.startswith("::<", i):
            # find matching '>'
            depth = 0
            j = i + 2
            while j < n:
                if p[j] == "<":
                    depth += 1
                elif p[j] == ">" and (j == 0 or p[j - 1] != "-"):
                    depth -= 1
                    if depth == 0:
                        break
                j += 1
            seg = p[i + 3:j]
            if " as " in seg:
                out.append(p[i:j + 1])
            i = j + 1
            continue
        out.append(p[i])
        i += 1
    r = "".join(out)
    r = re.sub(r"<'[a-z_]+(, '[a-z_]+)*>", "", r)
    return r


def parse_const(v, ty):
    v = v.strip()
    if v.startswith("<ZST>") and "str" in (ty or v):
        return ("lit", "str", "")          # the empty string literal as a pattern constant
    if v.startswith('"'):
        try:
            import json
            return ("lit", "str", json.loads(v))
        except Exception:
            return ("lit", "str", v.strip('"'))
    if v.startswith("'") and v.endswith("'"):
        return ("lit", "char", v[1:-1])
    mb = re.match(r"^Branch\(\[(.*)\]\)(: .*)?$", v)
    if mb and ("str" in ty or "str" in (mb.group(2) or "")):
        try:
            bs = bytes(int(x.strip().split("_")[0]) for x in mb.group(1).split(",") if x.strip())
            return ("lit", "str", bs.decode("utf8"))
        except Exception:
            pass
    m = re.match(r"^(-?\d+)(_?[iu]\d+|_?usize|_?isize)?$", v)
    if m:
        return lit_int(int(m.group(1)))
    if v in ("true", "false"):
        return ("lit", "bool", v == "true")
    mm = re.match(r"^(?:std::|core::)?(u8|u16|u32|u64|usize|i8|i16|i32|i64|isize)::(MAX|MIN)$", v)
    if mm:
        bits = {"u8": 8, "u16": 16, "u32": 32, "u64": 64, "usize": 64, "i8": 8, "i16": 16, "i32": 32, "i64": 64, "isize": 64}[mm.group(1)]
        if mm.group(1).startswith("u"):
            return lit_int((1 << bits) - 1 if mm.group(2) == "MAX" else 0)
        return lit_int((1 << (bits - 1)) - 1 if mm.group(2) == "MAX" else -(1 << (bits - 1)))
    return ("lit", "const", v)


# ---- pretty printing of terms / paths (evidence, reports) -------------------------------------------------
def tstr(t, depth=0):
    try:
        return _tstr(t, depth)
    except Exception:
        return repr(t)[:300]


def _tstr(t, depth=0):
    if not isinstance(t, tuple):
        return str(t)
    if not t:
        return "()"
    k = t[0]
    if not isinstance(k, str):
        return "(%s)" % ", ".join(tstr(x, depth + 1) for x in t)
    if depth > 12:
        return "…"
    d = depth + 1
    if k == "in":
        return t[1]
    if k == "loop":
        return "%s@loop%d" % (t[1], t[2])
    if k == "lit":
        if t[1] == "int" and t[2] == 4294967295:
            return "u32::MAX"
        return repr(t[2]) if t[1] in ("str", "bytes", "char") else str(t[2])
    if k == "field":
        return "%s.%s" % (tstr(t[1], d), t[2])
    if k == "payload":
        return "%s!%s" % (tstr(t[1], d), t[2]) if t[3] == "0" else "%s!%s.%s" % (tstr(t[1], d), t[2], t[3])
    if k == "adt":
        if not t[3]:
            return t[2]
        if all(fn.isdigit() for fn, _ in t[3]):
            return "%s(%s)" % (t[2], ", ".join(tstr(v, d) for _, v in t[3]))
        return "%s{%s}" % (t[2] if t[2] != t[1] else t[1], ", ".join("%s: %s" % (fn, tstr(v, d)) for fn, v in t[3]))
    if k == "tuple":
        return "(%s)" % ", ".join(tstr(x, d) for x in t[1])
    if k in ("call", "mcall"):
        return "%s(%s)%s" % (t[1].split("::")[-1] if "::" in t[1] else t[1], ", ".join(tstr(x, d) for x in t[2]),
                             "#%d" % t[3] if k == "mcall" else "")
    if k == "lin":
        s = " + ".join(("%s" % tstr(x, d)) if c == 1 else ("%d*%s" % (c, tstr(x, d))) for x, c in t[1])
        return "(%s%s)" % (s, (" + %d" % t[2]) if t[2] else "")
    if k == "cast":
        return "(%s as %s)" % (tstr(t[2], d), t[1])
    if k == "place":
        return "&mut " + ".".join((t[1],) + t[2])
    if k == "pl":
        return "&mut (%s)%s" % (tstr(t[1], d), "".join("." + x for x in t[2]))
    if k in ("eq", "lt"):
        return "%s %s %s" % (tstr(t[1], d), "==" if k == "eq" else "<", tstr(t[2], d))
    if k == "is":
        return "%s is %s" % (tstr(t[1], d), t[2])
    if k == "empty":
        return "empty(%s)" % tstr(t[1], d)
    if k == "bool":
        return tstr(t[1], d)
    if k == "not":
        return "!(%s)" % tstr(t[1], d)
    if k == "closure":
        return "|%s|" % t[1].split("::")[-1].strip("{}")
    if k == "fnref":
        return t[1].split("::")[-1]
    if k == "fmtargs":
        a = list(t[2])
        return "fmt(\"%s\")" % "".join(p[1] if p[0] == "txt" else ("{%s}" % (tstr(a.pop(0)[1], d) if a else "?")) for p in t[1])
    if k == "upd":
        return "%s{%s}" % (tstr(t[1], d), ", ".join("%s<-%s" % (".".join(p), tstr(v, d)) for p, v in t[2]))
    if k == "after":
        return "after(%s)" % tstr(t[1], d)
    return "%s(%s)" % (k, ", ".join(tstr(x, d) for x in t[1:]))


def cstr(conds):
    return " && ".join((tstr(a) if p else "!(%s)" % tstr(a)) for a, p in conds) or "true"


def estr(effects):
    return "; ".join(tstr(e) for e in effects)
