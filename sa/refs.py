"""Hand-written reference decision structures (the oracles of the FC rules) and the role anchors
that select the fragments they are compared with. Derived from the property statements and the
format documentation (src/cache/mod.rs:1-34), never from the code under test."""
import facts as F
import sym as S
import fc
import anchors as A
from sym import some, NONE, lit_int, lin_norm, mk_field, mk_payload

READ = "watto::string_table::StringTable::read"
MAX32 = lit_int(4294967295)
SYNTH = ("lit", "str", "R8$$SyntheticClass")


def is_next(name):
    return name.endswith(("Iterator::next", "Iterator>::next"))


def is_(t, v):
    return ("is", t, v)


def eq(a, b):
    return ("eq", a, b)


def lt(a, b):
    return ("lt", a, b)


def fld(t, n):
    return mk_field(t, n)


ELEM = ("in", "ELEM")      # the entry yielded by the member iterator in this iteration
NEXT = ("in", "NEXT")      # the Option returned by iterator.next()
FRAME = ("in", "frame")


def rw_iter(t):
    """rename `iter.next()` results of the (single) driving iterator to NEXT / ELEM"""
    if t[0] == "payload" and t[2] == "Some" and (t[1] == NEXT or (t[1][0] == "mcall" and is_next(t[1][1]))):
        return ELEM
    if t[0] == "mcall" and is_next(t[1]):
        return NEXT
    return None


# ---- encodings: how the mapper / the cache represent one member entry --------------------------------------------
class MapperEnc:
    name = "mapper"

    def __init__(self, extract_fn, frame=FRAME):
        self.extract_fn = extract_fn
        self.frame = frame

    def num(self, m, f):
        return fld(m, f)

    def oe_absent(self, o, m):
        return not o(is_(fld(m, "original_endline"), "Some"))

    def oe_eq_os(self, o, m):
        return o(eq(fld(m, "original_endline"), some(fld(m, "original_startline"))))

    def oc_present(self, o, m):
        return o(is_(fld(m, "original_class"), "Some"))

    def oc(self, m):
        return mk_payload(fld(m, "original_class"), "Some", "0")

    def of_present(self, o, m):
        return o(is_(fld(m, "original_file"), "Some"))

    def of(self, m):
        return mk_payload(fld(m, "original_file"), "Some", "0")

    def of_as_option(self, m):
        return fld(m, "original_file")

    def method(self, m):
        return fld(m, "original")

    def axioms(self, a):
        return True


class CacheEnc:
    name = "cache"

    def __init__(self, extract_fn, frame=FRAME, cache=("in", "cache")):
        self.extract_fn = extract_fn
        self.frame = frame
        self.sb = fld(cache, "string_bytes")

    def read(self, off):
        return ("call", READ, (self.sb, off))

    def num(self, m, f):
        return fld(m, f)

    def oe_absent(self, o, m):
        return o(eq(fld(m, "original_endline"), MAX32))

    def oe_eq_os(self, o, m):
        return o(eq(fld(m, "original_endline"), fld(m, "original_startline")))

    def oc_present(self, o, m):
        return not o(eq(fld(m, "original_class_offset"), MAX32))

    def oc(self, m):
        return mk_payload(self.read(fld(m, "original_class_offset")), "Ok", "0")

    def of_present(self, o, m):
        return not o(eq(fld(m, "original_file_offset"), MAX32))

    def of(self, m):
        return mk_payload(self.read(fld(m, "original_file_offset")), "Ok", "0")

    def of_as_option(self, m):
        return some(self.of(m))

    def method(self, m):
        return mk_payload(self.read(fld(m, "original_name_offset")), "Ok", "0")

    def axioms(self, a):
        """valid-file axioms (C09.7): an optional string reference is readable iff it is not the
        sentinel; mandatory references are readable."""
        for at, v in a.items():
            if at[0] == "is" and at[2] == "Ok" and at[1][0] == "call" and at[1][1] == READ:
                off = at[1][2][1]
                if off[0] == "field" and off[2] in ("original_class_offset", "original_file_offset", "file_name_offset", "params_offset"):
                    sent = fc.canon_atom(eq(off, MAX32))[0]
                    if sent in a and a[sent] == v:
                        return False
                elif off[0] == "field" and off[2] in ("original_name_offset", "obfuscated_name_offset"):
                    if not v:
                        return False
        return True


def ref_with_lines(enc):
    """C01.R1-R4: one iteration of the with-lines iterator over entry ELEM."""
    def ref(o):
        if not o(is_(NEXT, "Some")):
            return ("end",)
        m = ELEM
        fr = enc.frame
        line = fld(fr, "line")
        end, start = enc.num(m, "endline"), enc.num(m, "startline")
        # R1 range filter: entries without a usable range (endline == 0) always apply
        if o(lt(lit_int(0), end)) and (o(lt(line, start)) or o(lt(end, line))):
            return ("skip",)
        os_ = enc.num(m, "original_startline")
        # R2 original line
        if enc.oe_absent(o, m) or enc.oe_eq_os(o, m):
            out_line = os_
        else:
            out_line = lin_norm([(os_, 1), (line, 1), (start, -1)])
        # R4 class
        oc_p = enc.oc_present(o, m)
        cls = enc.oc(m) if oc_p else fld(fr, "class")
        # R3 file
        if enc.of_present(o, m):
            if o(eq(enc.of(m), SYNTH)):
                out_file = ("call", enc.extract_fn, (cls,))
            else:
                out_file = enc.of_as_option(m)
        elif oc_p:
            out_file = NONE
        else:
            out_file = fld(fr, "file")
        return ("emit", ("class", cls), ("method", enc.method(m)), ("file", out_file), ("line", out_line),
                ("parameters", fld(fr, "parameters")))
    return ref


def ref_without_lines(enc):
    """C03.3: the no-lines iterator consumes one entry per call."""
    def ref(o):
        if not o(is_(NEXT, "Some")):
            return ("end",)
        m = ELEM
        fr = enc.frame
        cls = enc.oc(m) if enc.oc_present(o, m) else fld(fr, "class")
        return ("emit", ("class", cls), ("method", enc.method(m)), ("file", NONE), ("line", lit_int(0)),
                ("parameters", fld(fr, "parameters")))
    return ref


def frame_outcome(v):
    """canonical outcome of a returned Option<StackFrame> term"""
    if v == NONE:
        return ("end",)
    if v[0] == "adt" and v[2] == "Some":
        sf = v[3][0][1]
        if sf[0] == "adt" and sf[1] == "StackFrame":
            d = dict(sf[3])
            return ("emit", ("class", d.get("class")), ("method", d.get("method")), ("file", d.get("file")),
                    ("line", d.get("line")), ("parameters", d.get("parameters")))
    return ("other", v)
