"""C20 - shareable across threads, answers as if queried alone (TYP + EFF inventory).

C20.1 the Rust type checker proves Send + Sync for every reachable public type (generated
      witness crate; negative twins on the controls crate must be rejected with E0277);
C20.2 type-tree walk (ADT fields AND generic arguments, through heap indirection) finds no
      UnsafeCell / Rc in any local type; opaque `dyn` payloads must be provably never populated;
C20.3 inventory: no `static mut`, no non-Freeze static, no thread_local, no `unsafe` block, no
      unsafe impl other than the three `Pod` markers; public inherent methods take `&self`.
"""
import re
import facts as F
import witness as W

LEVEL = "proof"
EXPLANATION = ("Deciding steps: (1) rustc's trait solver on generated `T: Send + Sync` obligations for every "
               "reachable public type of the crate (list derived from the facts of this run, not a frozen list); "
               "(2) an exhaustive walk of the type trees of all local ADTs for UnsafeCell/Rc; (3) an exhaustive "
               "inventory of statics, thread-locals, unsafe blocks/impls and &mut-self query methods. Safe Rust + "
               "shared &T with no interior mutability anywhere in T + no mutable globals => a query cannot observe "
               "another, so each answer is a function of (*self, args). Scheduling needs no exploration once nothing "
               "is shared mutably.")
EXPLANATION = EXPLANATION + ' (4) Nothing reachable from the query API reads a clock, the environment, a thread id, a random source or an address; (5) no iteration over a hash container (per-thread RandomState) on constructor, writer or query paths; (6) no data-driven recursion on the query paths (an answer must not depend on the stack size of the calling thread).'
RULE_TEXT = ("one obligation per reachable public type (Send+Sync), per local ADT (type-tree walk), per static / "
             "unsafe block / unsafe impl / public method (inventory); non-trivial = the obligation concerns a type "
             "with at least one field or a method with a receiver")
TRUSTED = ["rustc type checker / auto-trait solver (nightly 1.97)", "pgfacts type-tree walker (positive controls in controls/src/types.rs)",
           "Rust aliasing model: no data race and no observable mutation through & without UnsafeCell"]

# types that cannot be named from outside the crate: witnessed through the public function that returns them
VALUE_WITNESSES = {
    "proguard::cache::RemappedFrameIter":
        "fn _w_cache_iter(c: &'static proguard::ProguardCache<'static>, f: &proguard::StackFrame<'static>) { ssv(&c.remap_frame(f)); }",
    "proguard::cache::debug::ClassDebug":
        "fn _w_class_debug(c: &'static proguard::ProguardCache<'static>) { let mut it = c.debug_classes(); ssv(&it); ssv(&it.next().unwrap()); }",
    "proguard::cache::debug::MemberDebug":
        "fn _w_member_debug(c: &'static proguard::ProguardCache<'static>) { let mut it = c.debug_members(); ssv(&it); ssv(&it.next().unwrap()); let mut it2 = c.debug_members_by_params(); ssv(&it2); }",
    "proguard::cache::debug::CacheDebug":
        "fn _w_cache_debug(c: &'static proguard::ProguardCache<'static>) { ssv(&c.display()); }",
}
# write-once constants created by lazy_static (cfg uuid): allowed by name, with reason
ALLOWED_STATICS = {
    "mapping::ProguardMapping<'_>::uuid::NAMESPACE":
        "lazy_static write-once constant: initialiser is a constant expression (checked by C18.2/C18.3)",
}


def nolt(path):
    """an item path with its lifetime names erased (`<'s>` and `<'src>` are the same item)"""
    import re as _re
    return _re.sub(r"'\w+", "'_", path).replace("::<", "<")


NEG_CONTROLS = ["BadCell", "BadRc"]  # must be rejected by the type checker
WALK_CONTROLS = {"BadCell": "UnsafeCell", "BadRc": "Rc", "BadMutexMemo": "UnsafeCell",
                 "BadAtomicCounter": "UnsafeCell", "BadNested": "UnsafeCell"}


def witness_lines(fx):
    lines = []
    problems = []
    for a in fx.all_adts("proguard"):
        if not a["reachable_pub"]:
            continue
        p = a["path"]
        if p in VALUE_WITNESSES:
            lines.append((p, VALUE_WITNESSES[p]))
            continue
        name = p.split("::")[-1]
        n = a["n_generics"]
        # all generics of this crate's public types are lifetimes; anything else cannot be generated
        args = ("<" + ", ".join(["'static"] * n) + ">") if n else ""
        lines.append((p, "fn _w_%s() { ss::<proguard::%s%s>(); }" % (name.lower() + str(len(lines)), name, args)))
    # public functions returning `impl Trait`: the hidden type's auto traits leak through the opaque type although the
    # signature does not mention them; witnessed through the function item itself (R is inferred as the hidden type)
    for q, b in sorted(fx.bodies.items()):
        if b["krate"] != "proguard" or not b.get("reachable_pub") or "impl " not in str(b.get("output", "")):
            continue
        if b.get("kind") not in ("Fn", "AssocFn"):
            continue
        n_in = len(b.get("inputs") or [])
        own_ty_generics = [g for g in (b.get("generics") or []) if not g.startswith("'")]
        if b.get("impl_self_dp"):
            own_ty_generics = [g for g in own_ty_generics if ("<" + g) not in b.get("impl_self", "") and (", " + g) not in b.get("impl_self", "")]
            name = "proguard::%s::%s" % (b["impl_self_dp"].split("::")[-1], b["name"])
        else:
            name = "proguard::%s" % b["name"]
        label = "opaque-return:" + q
        if n_in > 4 or own_ty_generics:
            problems.append((label, "cannot generate a witness for %d parameter(s) / type generics %s" % (n_in, own_ty_generics)))
            continue
        lines.append((label, "fn _w_opq%d() { a%d(%s); }" % (len(lines), n_in, name)))
    # what the cache's borrowing queries answer lives as long as the *data*, not as long as the handle that was asked: a worker that
    # owns (a clone of) the parsed cache can send its answers on after dropping it. (With the lifetimes elided the answers
    # would borrow from `&self` - same auto traits, same behaviour, but no longer movable out of the thread that owns the handle.)
    for meth, ret, args in (("remap_class", "Option<&'d str>", '"a"'), ("remap_method", "Option<(&'d str, &'d str)>", '"a", "b"')):
        lines.append(("result-lifetime:proguard::ProguardCache::%s" % meth,
                      "fn _w_life_%s<'d>(c: proguard::ProguardCache<'d>) -> %s { c.%s(%s) }" % (meth, ret, meth, args)))
    return lines, problems


def run(ctx, rep):
    configs = [""] if ctx.tier == "quick" else ["", "uuid"]
    for feat in configs:
        fx = ctx.facts(feat)
        cfg = feat or "default"
        rep.configs.append(cfg)
        sfx = "" if not feat else "@" + feat

        # ---- C20.1 witnesses ------------------------------------------------
        lines, problems = witness_lines(fx)
        for label, why in problems:
            rep.undecidable("C20.1" + sfx, "C20.1/send-sync/%s" % label, loc=label, construct=why)
        rep.floor("C20.1" + sfx, len(lines), 20, "reachable public types to witness")
        ok, errors, foreign, stderr = W.run_witness("witness-pos-" + cfg, lines, features=feat)
        if foreign:
            raise F.ExtractError("dependency of the witness crate does not build:\n" + stderr)
        failed = {}
        unattributed = []
        for e in errors:
            if e["label"]:
                failed.setdefault(e["label"], []).append(e)
            else:
                unattributed.append(e)
        for label, code in lines:
            errs = failed.get(label)
            rep.check("C20.1" + sfx, "C20.1/send-sync/%s" % label, not errs, loc=label,
                      found=(errs and "%s: %s" % (errs[0]["code"], errs[0]["message"])) or "Send + Sync proved by rustc",
                      expected="T: Send + Sync", detail=code)
        if unattributed or (not ok and not failed):
            rep.violation("C20.1" + sfx, "C20.1/witness-crate-broken", found=str(unattributed[:3]) + stderr[-600:],
                          expected="witness crate type-checks",
                          detail="a witness no longer names an existing public item (API changed?) - update VALUE_WITNESSES")
        if feat == "":
            # negative twins: the same generic function must reject the controls
            neg = [(n, "fn _n_%s() { ss::<pgcontrols::types::%s>(); }" % (n.lower(), n)) for n in NEG_CONTROLS]
            neg.append(("bad_opaque", "fn _n_opq() { a1(pgcontrols::types::bad_opaque); }"))
            ok2, errors2, _, _ = W.run_witness("witness-neg", neg)
            for n in NEG_CONTROLS:
                hit = [e for e in errors2 if e["label"] == n and e["code"] == "E0277"]
                rep.control("C20.1", bool(hit), "ss::<%s>() rejected with E0277" % n)
            hit = [e for e in errors2 if e["label"] == "bad_opaque" and e["code"] == "E0277"]
            rep.control("C20.1", bool(hit), "a1(bad_opaque): hidden type behind `impl Iterator` rejected with E0277")

        # ---- C20.2 type-tree walk ---------------------------------------------
        n_adts = 0
        for a in fx.all_adts("proguard"):
            n_adts += 1
            bad = [i for i in a["interior"] if i["what"] in ("UnsafeCell", "Rc")]
            opaque = [i for i in a["interior"] if i["what"] in ("dyn", "opaque")]
            rep.check("C20.2" + sfx, "C20.2/interior/%s" % a["path"], not bad, loc=F.short_file(a["sp"]),
                      found=bad or "no UnsafeCell/Rc in type tree (%d variant(s))" % len(a["variants"]),
                      expected="no interior mutability / Rc reachable through fields or generic arguments",
                      nontrivial=any(v["fields"] for v in a["variants"]))
            for o in opaque:
                # opaque payloads are only acceptable if the crate never stores a value there
                key = "C20.2/opaque/%s%s" % (a["path"], o["via"])
                if o["what"] == "opaque" and re.match(r"^[A-Z]\w*$", o.get("ty") or "") and not a.get("reachable_pub"):
                    # a type parameter of a crate-private generic wrapper (`struct MemberGroups<K>(..)`, `struct CausedBy<T>(T)`): what it
                    # can hold is decided where it is instantiated - every `Name<args>` written anywhere in the crate's types and signatures
                    import effects as E2
                    nm_ = a["path"].split("::")[-1]
                    uses_ = set()
                    for a2 in fx.all_adts("proguard"):
                        for v2 in a2["variants"]:
                            for f2 in v2["fields"]:
                                uses_ |= set(re.findall(r"\b%s<([^;{}]*)>" % re.escape(nm_), f2["ty"]))
                    for b2 in fx.bodies.values():
                        if b2["krate"] == "proguard":
                            for t2 in list(b2.get("inputs") or []) + [b2.get("output") or ""]:
                                uses_ |= set(re.findall(r"\b%s<([^;{}]*)>" % re.escape(nm_), t2))
                    for s2 in fx.items["proguard"].get("statics", []):
                        uses_ |= set(re.findall(r"\b%s<([^;{}]*)>" % re.escape(nm_), s2["ty"]))
                    badu_ = sorted(u_ for u_ in uses_ if E2.INTERIOR_WORDS.search(u_) or "dyn " in u_)
                    rep.check("C20.2" + sfx, key, not badu_, loc=F.short_file(a["sp"]),
                              found="private generic wrapper %s<%s>: instantiated with %s" % (nm_, o["ty"], sorted(uses_)[:6] or "nothing nameable"),
                              expected="no instantiation with an interior-mutable or `dyn` type", nontrivial=False)
                    continue
                fld = o["via"].split(".")[1].split("<")[0] if "." in o["via"] else None
                cons = []
                for b in fx.bodies.values():
                    if b["krate"] != "proguard":
                        continue
                    for n in F.walk(b["body"]):
                        if n.get("k") == "Adt" and n["adt"] == a["path"]:
                            for f in n["fields"]:
                                if f["name"] == fld:
                                    cons.append((b["path"], F.strip(f["e"])))
                            if isinstance(n.get("base"), dict) and not any(f["name"] == fld for f in n["fields"]):
                                cons.append((b["path"], n["base"]))
                all_none = cons and all(c[1].get("k") == "Adt" and c[1]["variant"] == "None" for c in cons)
                rep.check("C20.2" + sfx, key, bool(all_none), loc=F.short_file(a["sp"]),
                          found="%s: %d construction(s), values: %s" % (o["ty"], len(cons), [F.pp(c[1]) for c in cons]),
                          expected="opaque `dyn` slot is never populated by this crate (always None)")
        rep.floor("C20.2" + sfx, n_adts, 25, "local ADTs walked")
        if feat == "":
            cx = ctx.controls()
            for a in cx.all_adts("pgcontrols"):
                nm = a["path"].split("::")[-1]
                if nm in WALK_CONTROLS:
                    rep.control("C20.2", any(i["what"] == WALK_CONTROLS[nm] for i in a["interior"]),
                                "type walk finds %s in controls::%s" % (WALK_CONTROLS[nm], nm))
                if nm == "PlainOk":
                    rep.control("C20.2", not a["interior"], "type walk silent on controls::PlainOk")

        # ---- C20.4 "each query returns exactly what it returns when issued alone": nothing reachable from the query API reads a
        # clock, the environment, a thread id, a random source or an address (a deadline makes an answer depend on scheduling)
        import effects as E4
        import anchors as A4
        roots = []
        for T_ in (A4.MAPPER, A4.CACHE):
            for m_ in ("remap_class", "remap_method", "remap_frame", "remap_throwable", "remap_stacktrace", "remap_stacktrace_typed", "deobfuscate_signature"):
                roots += A4.method(fx, T_, m_)
        for it_ in ("mapper::RemappedFrameIter", "cache::RemappedFrameIter"):
            roots += A4.method(fx, it_, "next", trait="Iterator")
        seen4 = {q_ for q_ in fx.reachable(roots) if fx.bodies[q_]["krate"] == "proguard"} if roots else set()
        amb4 = [(q_, n_, w_) for q_, n_, w_ in E4.ambient_sources(fx, seen4) if not w_.startswith("reads static")]
        rep.check("C20.4" + sfx, "C20.4/ambient-on-query-paths", not amb4 and len(roots) >= 10, loc="src/",
                  found=[("%s: %s" % (q_.split("::")[-1], w_)) for q_, n_, w_ in amb4[:4]] or "%d query entry points, %d functions reachable, no ambient source" % (len(roots), len(seen4)),
                  expected="no time/env/thread/pid/RNG/address dependence on the query paths")
        # ---- C20.5 a hash container's iteration order is seeded per thread (`RandomState` draws its keys from a thread-local): an
        # answer, or a cache file, that depends on it differs with the thread that built it - on the query paths, the mapper's
        # constructors and the cache writer alike (membership tests and keyed lookups are fine)
        roots5 = list(roots) + [q_ for c_ in A4.mapper_roots(fx).values() for q_ in c_] + A4.method(fx, A4.CACHE, "write") + A4.method(fx, A4.CACHE, "parse")
        seen5 = {q_ for q_ in fx.reachable(roots5) if fx.bodies[q_]["krate"] == "proguard"} if roots5 else set()
        obs5 = E4.hash_order_observers(fx, seen5)
        rep.check("C20.5" + sfx, "C20.5/hash-order", not obs5 and len(seen5) >= 40, loc="src/",
                  found=[("%s: %s" % (q_.split("::")[-1], w_)) for q_, n_, w_ in obs5[:4]] or "%d functions reachable from constructors, writer and queries; hash containers used for membership and keyed lookup only" % len(seen5),
                  expected="no iteration over a hash container where the order can reach a result")
        # ---- C20.6 an answer must not depend on the stack the calling thread happens to have: no recursion on the query paths whose
        # depth follows the data (a worker thread with a small stack aborts where the main thread answers)
        import recursion as RC6
        RC6.check_recursion(fx, rep, "C20.6" + sfx, seen4)
        # ---- C20.3 inventory -------------------------------------------------------
        items = fx.items["proguard"]
        for s in items["statics"]:
            import effects as E_
            allowed = ALLOWED_STATICS.get(nolt(s["path"]))
            inner_of_allowed = s["exp"] and any(k in nolt(s["path"]) for k in ALLOWED_STATICS)
            if not (allowed or inner_of_allowed) and not s["mut"] and not s["thread_local"] and not s["freeze"]:
                # role instead of name: a write-once constant (pure initialiser, no interior mutability in the value)
                allowed = E_.write_once_static(fx, "proguard::" + s["path"] if not s["path"].startswith("proguard::") else s["path"], s["ty"])
            bad = s["mut"] or s["thread_local"] or (not s["freeze"] and not (allowed or inner_of_allowed))
            rep.check("C20.3" + sfx, "C20.3/static/%s" % s["path"], not bad, loc=F.short_file(s["sp"]),
                      found="static %s: %s mut=%s freeze=%s tls=%s" % (s["path"], s["ty"], s["mut"], s["freeze"], s["thread_local"]),
                      expected="no mutable / interior-mutable / thread-local static" + ((" [allowed: %s]" % allowed) if allowed else ""))
        n_unsafe_blocks = 0
        n_methods = 0
        for p, b in fx.bodies.items():
            if b["krate"] != "proguard":
                continue
            rep.fn(p)
            for ub in b.get("unsafe_blocks", []):
                n_unsafe_blocks += 1
                rep.violation("C20.3" + sfx, "C20.3/unsafe-block/%s" % p, loc=F.short_file(ub["sp"]),
                              found="unsafe block", expected="no unsafe code (borrowck is the proof of isolation)")
            for n in F.walk(b["body"]):
                if n.get("k") in ("Static", "ThreadLocal") and not any(k in nolt(n["path"]) for k in ALLOWED_STATICS):
                    # reading a static is fine only if the static itself passed above; thread-locals never
                    if n["k"] == "ThreadLocal":
                        rep.violation("C20.3" + sfx, "C20.3/tls-use/%s" % p, loc=F.loc(n), found=n["path"],
                                      expected="no thread-local state")
            if b["kind"] == "AssocFn" and b.get("reachable_pub") and not b.get("impl_trait"):
                sk = b["params"][0]["self_kind"] if b["params"] else None
                if sk is None:
                    continue
                n_methods += 1
                rep.check("C20.3" + sfx, "C20.3/self-kind/%s" % p, sk != "RefMut", loc=F.short_file(b["sp"]),
                          found="receiver %s" % sk, expected="public query methods take &self (or self by value)")
        rep.floor("C20.3" + sfx, n_methods, 30, "public inherent methods with a receiver")
        rep.context["unsafe_blocks" + sfx] = n_unsafe_blocks
        for im in items["impls"]:
            if im.get("unsafe"):
                ok_impl = (im["trait"] == "watto::Pod") or im["exp"]
                rep.check("C20.3" + sfx, "C20.3/unsafe-impl/%s for %s" % (im.get("trait"), im["self"]), ok_impl,
                          loc=F.short_file(im["sp"]), found="unsafe impl %s for %s" % (im.get("trait"), im["self"]),
                          expected="only the three `Pod` markers (plain-old-data, no shared state) and derive-generated markers")
        if feat == "":
            cx = ctx.controls()
            st = {s["path"].split("::")[-1]: s for s in cx.items["pgcontrols"]["statics"]}
            rep.control("C20.3", st.get("BAD_STATIC_MUT", {}).get("mut"), "static mut detected")
            rep.control("C20.3", st.get("BAD_STATIC_ATOMIC", {}).get("freeze") is False, "non-Freeze static detected")
            rep.control("C20.3", any(s["thread_local"] for s in cx.items["pgcontrols"]["statics"]) or
                        any(n.get("k") == "ThreadLocal" for b in cx.bodies.values() for n in F.walk(b["body"])) or
                        any("BAD_TLS" in s["path"] for s in cx.items["pgcontrols"]["statics"]),
                        "thread_local detected")
            qm = [b for p, b in cx.bodies.items() if p.endswith("Handle::query_mut")]
            rep.control("C20.3", qm and qm[0]["params"][0]["self_kind"] == "RefMut", "&mut self receiver detected")
            ur = [b for p, b in cx.bodies.items() if p.endswith("Handle::unsafe_read")]
            rep.control("C20.3", ur and ur[0]["unsafe_blocks"], "unsafe block detected")
    rep.assumptions += ["allocation failure and stack exhaustion out of scope",
                        "dependencies' (std/hashbrown) Sync impls are sound"]
