"""Shared driver for the census-based properties (C06.1, C12, C13)."""
import hashlib, os, re
import facts as F
import census as C

# Hand-reviewed, version-pinned dependency functions that are summarised instead of analysed.
TRUSTED_SUMMARIES = {
    "leb128::read::unsigned": "shift takes values 0,7,..,63 only: at shift == 63 any byte other than 0/1 returns "
                              "Err(Overflow) and bytes 0/1 have no continuation bit, so the loop returns; `<<` never "
                              "sees shift >= 64 and `shift += 7` never exceeds 70 (leb128 0.2.5, reviewed)",
    "leb128::write::unsigned": "loop shifts val right by 7 until zero: at most 10 iterations, counter <= 10 (leb128 0.2.5, reviewed)",
    "leb128::low_bits_of_u64": "masks with !CONTINUATION_BIT before `as u8` (value < 128)",
    "leb128::low_bits_of_byte": "bit mask only",
}
PINNED = {"leb128": ("0.2.5", "884e2677b40cc8c339eaefcb701c32ef1fd2493d71118dc0ca4b6a736c93bd67"),
          "watto": ("0.1.0", "6746b5315e417144282a047ebb82260d45c92d09bf653fa9ec975e3809be942b")}


def lock_pins(repo=None):
    repo = repo or F.REPO
    out = {}
    try:
        txt = open(os.path.join(repo, "Cargo.lock")).read()
    except OSError:
        return out
    for m in re.finditer(r'\[\[package\]\]\nname = "([^"]+)"\nversion = "([^"]+)"\n(?:source = "[^"]*"\n)?(?:checksum = "([0-9a-f]+)"\n)?', txt):
        out.setdefault(m.group(1), []).append((m.group(2), m.group(3)))
    return out


def run_census(fx, rep, rule, roots, policy, sfx="", cast_policy=None, exclude=()):
    """Enumerate + discharge every site in bodies reachable from roots. Returns stats."""
    missing = [r for r in roots if r not in fx.bodies]
    for r in missing:
        rep.violation(rule + sfx, "%s/root-missing/%s" % (rule, r), found="root function not found in facts",
                      expected="entry point exists (anchor)")
    live_roots = [r for r in roots if r in fx.bodies]
    seen = fx.reachable(live_roots, enter=lambda p: p not in TRUSTED_SUMMARIES and p not in exclude)
    n_sites = n_lossy = 0
    pins = lock_pins()
    used_summaries = set()
    for p in sorted(seen):
        b = fx.bodies[p]
        if b["kind"] not in ("Fn", "AssocFn", "Closure"):
            continue
        rep.fn(p)
        sites = C.enumerate_sites(b)
        mc, tc = C.mir_counts(fx, p), C.thir_counts(sites)
        if mc is not None and mc != tc:
            rep.violation(rule + sfx, "%s/walker-mismatch/%s" % (rule, C.short_fn(p)), loc=F.short_file(b["sp"]),
                          found="typed-tree sites %s" % tc, expected="MIR asserts %s" % mc,
                          detail="census walker blind spot (checker problem, not a property verdict)")
        # calls into trusted summaries
        for n in F.walk(b["body"]):
            if n.get("k") == "Call" and "fn" in n:
                for t in (n["fn"]["path"], n["fn"].get("resolved")):
                    if t in TRUSTED_SUMMARIES:
                        used_summaries.add(t)
        for s in sites:
            if s.kind == "cast":
                n_lossy += 1
                if cast_policy is not None:
                    why = cast_policy(s, fx)
                    rep.check(rule + ".casts" + sfx, "%s/lossy-cast/%s" % (rule, s.key()), why is not None, loc=s.loc(),
                              found="%s: %s" % (s.op, C.canon(s.node)) + ((" -- " + why) if why else ""),
                              expected="narrowing cast whose truncation is harmless by a stated argument")
                continue
            n_sites += 1
            why = C.discharge(s, fx, policy)
            path = fx.path_to(seen, p)
            rep.check(rule + sfx, "%s/%s" % (rule, s.key()), why is not None, loc=s.loc(),
                      found="%s %s in %s: %s" % (s.kind, s.op, C.short_fn(p), C.canon(s.node)) + ((" -- " + why) if why else ""),
                      expected="site discharged by a sound local rule (none applies: possible panic/overflow)",
                      detail="reachable via " + " -> ".join(C.short_fn(x) for x in path[-5:]))
    for t in sorted(used_summaries):
        krate = t.split("::")[0]
        want = PINNED.get(krate)
        have = pins.get(krate, [])
        ok = want is not None and any(v == want[0] and (want[1] is None or c == want[1]) for v, c in have)
        rep.check(rule + ".summary" + sfx, "%s/trusted-summary/%s" % (rule, t), ok, loc="Cargo.lock",
                  found="Cargo.lock pins %s %s -- %s" % (krate, have, TRUSTED_SUMMARIES[t]),
                  expected="summary applies only to the reviewed version %s" % (want,))
    bodies = [fx.bodies[p] for p in seen]
    rep.context["unclassified_callees" + sfx] = C.unclassified_callees(fx, bodies)
    rep.context["reachable_bodies" + sfx] = len(seen)
    rep.context["sites" + sfx] = n_sites
    rep.context["lossy_casts" + sfx] = n_lossy
    return seen, n_sites, n_lossy


def run_controls(ctx, rep, rule):
    """every discharge-less site kind must be enumerated on the controls crate, and must NOT be
    discharged there"""
    cx = ctx.controls()
    want = {"ctl_unchecked_add_fields": ("arith", "Add"), "ctl_unchecked_sub": ("arith", "Sub"),
            "ctl_index_unguarded": ("index", "Index"), "ctl_unwrap": ("call", "unwrap"),
            "ctl_split_at_foreign_pos": ("call", "slice-panic"), "ctl_range_index": ("call", "index-call"),
            "ctl_shift_var": ("arith", "Shl"), "ctl_div_var": ("arith", "Div"), "ctl_u32_counter": ("arith", "Add"),
            "ctl_explicit_panic": ("call", "panic"), "ctl_sum_u32": ("call", "sum-overflow")}
    pol = dict(a_size=False)
    for fn, (kind, op) in want.items():
        bs = [b for p, b in cx.bodies.items() if p.endswith("census::" + fn)]
        fired = False
        if bs:
            for s in C.enumerate_sites(bs[0]):
                if s.kind == kind and s.op.split(":")[0] == op and C.discharge(s, cx, pol) is None:
                    fired = True
        rep.control(rule, fired, "undischarged %s/%s site reported in controls::census::%s" % (kind, op, fn))
    # and guarded twins must be discharged (the rules are not vacuous either way)
    for fn in ("ok_guarded_idx0", "ok_pos_split", "ok_two_indices", "ok_counter"):
        bs = [b for p, b in cx.bodies.items() if p.endswith("census::" + fn)]
        good = bool(bs)
        if bs:
            fam_sites = []
            for b in [bs[0]] + cx.closures_of(bs[0]["path"]):
                fam_sites += [s for s in C.enumerate_sites(b) if s.kind != "cast"]
            good = bool(fam_sites) and all(C.discharge(s, cx, dict(a_size=True)) for s in fam_sites)
        rep.control(rule, good, "guarded twin controls::census::%s fully discharged" % fn)
