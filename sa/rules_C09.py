"""C09 - written cache files conform to the documented layout and ordering invariants (LAY + SEQ + PROV)."""
import facts as F
import anchors as A
import builder_rules as BR
import lookup_rules as LR
import cachefmt as CF
import rules_C01 as R1

LEVEL = "other"
TECHNIQUE = ("layout/const facts from the compiler, emission-sequence extraction with helper flattening, provenance of header counts / offsets / "
             "string references over canonicalised writer paths, ordered-container and allowed-mutator rules")
EXPLANATION = ("Structural clauses of the writer: records are repr(C), all-u32, unpadded, Pod only on them; the flattened emission sequence "
               "is header, pad8, classes, pad8, members, pad8, members_by_params, pad8, strings with zero padding computed from the section "
               "length; header counts are len()/sum of exactly the containers that are emitted, counters are incremented paired with their "
               "pushes; per-class offsets are the running length of the section vector taken before the class's entries are appended "
               "(tiling); containers are BTreeMaps keyed by the documented sort keys, iterated with into_values and never reordered; every "
               "string reference is insert(..), the sentinel, or a copy of one; the reader consumes the same sequence. NOT decided: "
               "multi-byte LEB128 prefixes / UTF-8 (watto+leb128, lock-pinned, trusted) and acceptance by test() (runtime assertions).")
RULE_TEXT = "one instance per layout fact, emission slot, count, offset assignment, container, string-reference field; distinct = distinct keys"
TRUSTED = ["rustc layout computation", "watto 0.1.0 StringTable / Pod::as_bytes (lock-pinned)", "sa/models.py", "reference format table sa/cachefmt.py (from src/cache/mod.rs:1-34)"]


def run(ctx, rep):
    fx = ctx.facts("")
    rep.configs.append("default")
    n = CF.check_layouts(fx, rep, "C09.1")
    rep.floor("C09.1", n, 3, "record types")
    # "the documented layout": field order and format constants of the three records are those of the format description (an
    # all-u32 record with two fields swapped has the same size, alignment and offsets - and writer and reader agree on it)
    CF.check_v1_table(fx, rep, "C09.1")
    wv = CF.WriterView(fx, rep, "C09.2")
    if wv.ok:
        seqs = CF.check_emission(fx, rep, "C09.2", wv)
        if seqs:
            CF.check_sections(fx, rep, "C09.3", wv, seqs)
        CF.check_order(fx, rep, "C09.6", wv)
        ns = CF.check_string_refs(fx, rep, "C09.7", wv)
        CF.check_string_table_model(fx, rep, "C09.7")
        rep.floor("C09.7", ns, 8, "string-reference field cases (8 fields: 3 in Class, 5 in Member)")
        BR.check_method_effects(fx, rep, "C09.3", "cache")
        BR.check_class_header_arms(fx, rep, "C09.6", "cache")
    else:
        rep.floor("C09.2", 0, 1, "success path of ProguardCache::write")
    CF.check_parse(fx, rep, "C09.8")
    CF.check_self_test(fx, rep, "C09.9")
    LR.check_section_slices(fx, rep, "C09.8")
    if ctx.tier == "thorough":
        fu = ctx.facts("uuid")
        rep.configs.append("uuid")
        CF.check_layouts(fu, rep, "C09.1@uuid")
