"""Role anchors: locate functions by (impl self type, method name) or module + fn name — never by line."""
import re
import facts as F


def method(fx, self_contains, name, krate="proguard", trait=None):
    out = _method(fx, self_contains, name, krate, trait)
    if not out and self_contains == CACHE and trait is None and name in ("get_class", "get_class_members", "get_class_members_by_params",
                                                                         "find_range_by_binary_search"):
        import roles
        out = roles.cache_helper(fx, name)
    return out


def _method(fx, self_contains, name, krate="proguard", trait=None):
    out = []
    for p, b in fx.bodies.items():
        if b["krate"] != krate or b["kind"] != "AssocFn" or b.get("name") != name:
            continue
        if self_contains not in (b.get("impl_self") or ""):
            continue
        if trait is None and b.get("impl_trait"):
            continue
        if trait is not None and not (b.get("impl_trait") or "").endswith(trait):
            continue
        out.append(p)
    return out


def func(fx, module, name, krate="proguard"):
    """a private free function: by name where it still exists, otherwise by role (signature + structural trait)"""
    want = "%s::%s::%s" % (krate, module, name)
    r = [p for p, b in fx.bodies.items() if p == want and b["kind"] == "Fn"]
    if not r and krate == "proguard":
        # moved to another module (or into a private submodule) under the same name: still that function when the name is unique
        r = [p for p, b in fx.bodies.items() if b["krate"] == krate and b["kind"] == "Fn" and p.rsplit("::", 1)[-1] == name]
        if len(r) != 1:
            r = []
    if not r and krate == "proguard":
        import roles
        r = roles.resolve(fx, module, name)
    return r


def one(rep, rule, what, cands):
    """exactly one candidate or an anchor-lost violation; returns path or None"""
    if len(cands) == 1:
        return cands[0]
    rep.instances.append(dict(rule=rule, key="%s/anchor/%s" % (rule, what), status="anchor-lost", loc="",
                              found="%d candidate(s): %s" % (len(cands), cands[:4]),
                              expected="exactly one function in the role `%s`" % what, nontrivial=True,
                              detail="the rule can no longer find the code it certifies (fail closed)"))
    return None


_mf_cache = {}


def mapping_field(fx):
    """name of ProguardMapping's byte-slice field (role: the only field of the struct; private, so it may be renamed)"""
    k = id(fx)
    if k not in _mf_cache:
        a = fx.adt("proguard::mapping::ProguardMapping")
        fl = [f_["name"] for f_ in a["variants"][0]["fields"]] if a else []
        _mf_cache[k] = fl[0] if len(fl) == 1 else "source"
    return _mf_cache[k]


def record_iter_field(fx):
    """name of ProguardRecordIter's cursor field (role: its only field)"""
    a = fx.adt("proguard::mapping::ProguardRecordIter")
    fl = [f_["name"] for f_ in a["variants"][0]["fields"]] if a else []
    return fl[0] if len(fl) == 1 else "slice"


CACHE = "cache::raw::ProguardCache"
MAPPER = "mapper::ProguardMapper"


def cache_query_roots(fx):
    r = {}
    for nm in ("parse", "remap_class", "remap_method", "remap_frame", "remap_throwable", "remap_stacktrace",
               "remap_stacktrace_typed", "deobfuscate_signature"):
        r["ProguardCache::" + nm] = method(fx, CACHE, nm)
    r["cache::RemappedFrameIter::next"] = method(fx, "cache::RemappedFrameIter", "next", trait="Iterator")
    return r


def mapper_roots(fx):
    r = {}
    for nm in ("new", "new_with_param_mapping", "remap_class", "remap_method", "remap_frame", "remap_throwable",
               "remap_stacktrace", "remap_stacktrace_typed", "deobfuscate_signature"):
        r["ProguardMapper::" + nm] = method(fx, MAPPER, nm)
    # the two `From` impls are told apart by the source type, whatever the lifetime is called
    import re as _re
    pair = lambda p: bool(_re.search(r"From<\(&('\w+ )?str, bool\)>", p))
    r["ProguardMapper::from(&str)"] = [p for p in method(fx, MAPPER, "from", trait="From") if not pair(p)]
    r["ProguardMapper::from((&str,bool))"] = [p for p in method(fx, MAPPER, "from", trait="From") if pair(p)]
    r["mapper::RemappedFrameIter::next"] = method(fx, "mapper::RemappedFrameIter", "next", trait="Iterator")
    return r
