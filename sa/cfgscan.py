"""Configuration coverage (premise of every check): the rules analyse the crate as built in two configurations (default features,
feature `uuid`; dev profile; cfg(test) off). Code that exists only under another cfg predicate is invisible to them - and to the
test suite, which runs in one configuration too. Two rules:

  <P>.cfg/predicates   every `#[cfg(..)]`, `#![cfg(..)]`, `#[cfg_attr(..)]` and `cfg!(..)` predicate in src/ is one of the predicates the
                       analysed configurations decide: `test`, `not(test)`, `feature = "uuid"`, `not(feature = "uuid")`.
                       Anything else (debug_assertions, target_*, panic, other features) is `undecidable-shape`, with file:line.
  <P>.cfg/feature-uuid the feature only *adds* code: every function body present in both configurations is identical in both, and no
                       body that exists only with the feature is a trait-impl method (a trait impl changes what existing generic code
                       does without touching a shared body), except the `Deref`/`LazyStatic` plumbing `lazy_static!` generates.
"""
import os
import re
import facts as F

ALLOWED = {'test', 'not(test)', 'feature="uuid"', 'not(feature="uuid")'}
ALLOWED_ADDED_IMPLS = ("std::ops::Deref", "lazy_static::LazyStatic", "core::ops::Deref")


def strip_comments_and_strings(src):
    """replace comments and string/char literal *contents* by spaces (newlines kept), so offsets and line numbers survive"""
    out = []
    i, n = 0, len(src)
    while i < n:
        c = src[i]
        two = src[i:i + 2]
        if two == "//":
            j = src.find("\n", i)
            j = n if j < 0 else j
            out.append(" " * (j - i))
            i = j
        elif two == "/*":
            depth, j = 1, i + 2
            while j < n and depth:
                if src[j:j + 2] == "/*":
                    depth += 1; j += 2
                elif src[j:j + 2] == "*/":
                    depth -= 1; j += 2
                else:
                    j += 1
            out.append("".join(ch if ch == "\n" else " " for ch in src[i:j]))
            i = j
        elif c == '"' or (c == "r" and re.match(r'r#*"', src[i:i + 8])) or (c == "b" and re.match(r'b(r#*)?"', src[i:i + 9])):
            m = re.match(r'(b?r(#*)")|(b?")', src[i:i + 10])
            if m and m.group(1):
                close = '"' + m.group(2)
                j = src.find(close, i + len(m.group(0)))
                j = n if j < 0 else j + len(close)
            else:
                j = i + len(m.group(0)) if m else i + 1
                while j < n and src[j] != '"':
                    j += 2 if src[j] == "\\" else 1
                j += 1
            # `name = "value"` (cfg predicates) stays readable; every other literal's content is blanked
            prev = "".join(out).rstrip()[-1:]
            out.append(src[i:j] if prev == "=" else '"' + "".join(ch if ch == "\n" else " " for ch in src[i + 1:j - 1]) + '"')
            i = j
        elif c == "'" and re.match(r"'(\\.[^']*|[^'\\])'", src[i:i + 12]):
            m = re.match(r"'(\\.[^']*|[^'\\])'", src[i:i + 12])
            out.append("' '" + " " * (len(m.group(0)) - 3))
            i += len(m.group(0))
        else:
            out.append(c)
            i += 1
    return "".join(out)


def balanced(s, i):
    """s[i] == '(' -> index just after the matching ')'"""
    depth = 0
    j = i
    while j < len(s):
        if s[j] == "(":
            depth += 1
        elif s[j] == ")":
            depth -= 1
            if depth == 0:
                return j + 1
        j += 1
    return len(s)


def predicates(pred):
    """leaf predicates of a cfg expression, with their polarity wrapper kept for `not(x)`; all/any are flattened"""
    pred = re.sub(r"\s+", "", pred)
    out = []

    def go(p):
        m = re.match(r"^(all|any)\((.*)\)$", p)
        if m:
            depth, cur = 0, ""
            for ch in m.group(2):
                if ch == "," and depth == 0:
                    if cur:
                        go(cur)
                    cur = ""
                else:
                    depth += ch == "("
                    depth -= ch == ")"
                    cur += ch
            if cur:
                go(cur)
            return
        out.append(p)
    go(pred)
    return out


def scan(repo):
    found = []
    srcdir = os.path.join(repo, "src")
    for root, _, fs in os.walk(srcdir):
        for f in sorted(fs):
            if not f.endswith(".rs"):
                continue
            path = os.path.join(root, f)
            try:
                raw = open(path, encoding="utf-8", errors="replace").read()
            except OSError:
                continue
            txt = strip_comments_and_strings(raw)
            for m in re.finditer(r"(#!?\[\s*cfg_attr\s*\(|#!?\[\s*cfg\s*\(|\bcfg!\s*\()", txt):
                start = m.end() - 1
                end = balanced(txt, start)
                inner = txt[start + 1:end - 1]
                if "cfg_attr" in m.group(0):
                    # first argument is the predicate
                    depth, k = 0, 0
                    for k, ch in enumerate(inner):
                        if ch == "," and depth == 0:
                            break
                        depth += ch == "("
                        depth -= ch == ")"
                    inner = inner[:k] if "," in inner else inner
                line = txt.count("\n", 0, m.start()) + 1
                found.append((os.path.relpath(path, repo), line, re.sub(r"\s+", " ", inner.strip())))
    return found


def _span(b):
    m = re.match(r"^(.*?):(\d+):\d+-(\d+):\d+$", b.get("sp", ""))
    return (m.group(1), int(m.group(2)), int(m.group(3))) if m else None


def affected_bodies(fx, file, line):
    """bodies of the analysed build that contain the attribute's line, or start right below it (attribute on the item)"""
    inside, below = [], []
    for p, b in fx.bodies.items():
        if b["krate"] != "proguard":
            continue
        sp = _span(b)
        if not sp or sp[0] != file:
            continue
        if sp[1] <= line <= sp[2]:
            inside.append(p)
        elif 0 < sp[1] - line <= 6:
            below.append(p)
    return inside or below


def check(ctx, rep, prop):
    """alarms are limited to what this check relies on: a cfg inside (or on) a function the check analysed, a difference in a
    function the check analysed, or a construct that cannot be attributed to a function at all (cfg on an item that does not exist in
    the analysed build, trait impl that exists in one configuration only)"""
    rule = prop + ".cfg"
    found = scan(F.REPO)
    try:
        f0 = ctx.facts("")
    except F.ExtractError:
        raise
    mine = set(rep.analysed_functions)

    def relevant(p):
        return p in mine or any(p.startswith(q + "::{closure") for q in mine)
    bad, elsewhere = [], 0
    for file, line, pred in found:
        for leaf in predicates(pred):
            if leaf not in ALLOWED:
                aff = affected_bodies(f0, file, line)
                if not aff or any(relevant(p) for p in aff):
                    bad.append((file, line, pred, leaf))
                else:
                    elsewhere += 1
    if bad:
        for file, line, pred, leaf in bad[:4]:
            rep.undecidable(rule, "%s/predicates/%s" % (rule, leaf), loc="%s:%d" % (file, line),
                            construct="code under `cfg(%s)`: predicate `%s` is not decided by the analysed configurations "
                                      "(default and `uuid` features, dev profile, cfg(test) off)" % (pred, leaf))
    else:
        rep.ok(rule, "%s/predicates" % rule, found="%d cfg attribute(s)/macro(s) in src/, over %s; %d with another predicate, all inside functions this check does not analyse"
               % (len(found), sorted({l for _, _, p in found for l in predicates(p) if l in ALLOWED}), elsewhere), nontrivial=False)
    # feature `uuid` only adds code
    try:
        f1 = ctx.facts("uuid")
    except F.ExtractError as e:
        rep.undecidable(rule, "%s/feature-uuid" % rule, construct="configuration `uuid` does not build: %s" % " ".join(str(e).split())[-400:])
        return
    diff = []
    n_shared = 0
    for p, b in f0.bodies.items():
        if b["krate"] != "proguard":
            continue
        n_shared += 1
        if not relevant(p):
            continue
        b1 = f1.bodies.get(p)
        if b1 is None:
            diff.append((p, "exists only without the feature"))
        elif F.pp(b["body"]) != F.pp(b1["body"]):
            diff.append((p, "body differs between the two feature configurations"))
    added_impl = []
    n_added = 0
    for p, b1 in f1.bodies.items():
        if b1["krate"] != "proguard" or p in f0.bodies:
            continue
        n_added += 1
        tr = b1.get("impl_trait")
        if tr and tr not in ALLOWED_ADDED_IMPLS:
            # an impl of a trait this crate itself defines only under the feature can only be reached from code that exists only
            # under the feature as well
            local_tr = tr.startswith(("proguard::", "crate::")) or "::" not in tr or not tr.startswith(("std::", "core::", "alloc::"))
            tr_known_without = any((b0.get("impl_trait") == tr) for b0 in f0.bodies.values() if b0["krate"] == "proguard")
            if local_tr and not tr_known_without and not any(kn in tr for kn in ("uuid::", "watto::", "thiserror::", "lazy_static::")):
                continue
            # an impl *for a type that exists only with the feature* (`#[derive(Clone)]` on a feature-only private enum) cannot be
            # selected by code that exists without it
            m_self = re.match(r"^proguard::<([\w:]+)(<.*>)? as ", p)
            if m_self:
                self_path = "proguard::" + m_self.group(1)
                in_f1 = any(a_["path"] == self_path for a_ in f1.all_adts("proguard"))
                in_f0 = any(a_["path"] == self_path for a_ in f0.all_adts("proguard"))
                if in_f1 and not in_f0:
                    continue
            added_impl.append((p, "trait impl `%s` exists only with the feature" % tr))
    for p, why in (diff + added_impl)[:4]:
        rep.undecidable(rule, "%s/feature-uuid/%s" % (rule, p.split("::")[-1]), loc=p,
                        construct="%s: %s - the rules of this check run on one configuration and would not see the other behaviour" % (p, why))
    if not diff and not added_impl:
        rep.ok(rule, "%s/feature-uuid" % rule, found="the functions this check analysed (%d) are identical in both feature configurations; %d bodies exist only with "
               "`uuid`, none is a trait-impl method (lazy_static plumbing aside)" % (len(mine), n_added), nontrivial=False)
