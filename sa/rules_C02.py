"""C02 - a cache written from a mapping answers every query exactly like the mapper (FC + TWIN + PROV clauses)."""
import os
import facts as F
import anchors as A
import readers as RD
import builder_rules as BR
import lookup_rules as LR
import cachefmt as CF
import twin as T
import rules_C01 as R1
import sym as S

LEVEL = "other"
TECHNIQUE = ("paired fragment canonicalisation (mapper vs cache against references related by the declared Option<->sentinel encoding), "
             "per-implementation references for every query kind (sibling alpha-equivalence recorded as a cross-reference only), writer/reader table agreement")
EXPLANATION = ("Decides every place where the two separately written implementations must agree, not the runtime equality itself: "
               "(1) both builders interpret a Method record identically modulo the encoding table None<->u32::MAX; (2) both frame iterators "
               "equal paired references (line and parameter variants), same dispatch, same unknown-name behaviour; (3) both record loops handle "
               "the same record kinds with the same guards (Header with any value, Class flush guard, Method; Field ignored); (4) the writer's "
               "BTreeMap keys are exactly the strings the reader's comparators read, compared by str::cmp with the entry on the left; "
               "(5) every (offset,len) pair written for a class is read against the matching section; (6) remap_method's all-agree rule in "
               "both; (7) text/typed trace APIs, throwable remapping and signature deobfuscation equal the SAME reference in each implementation (sibling alpha-equivalence is recorded, a divergence is listed in coverage.twin_divergence and is not a verdict); (8) the mapper's line index is "
               "not guarded by the parameter-index flag. Composition into query-for-query equality is a paper argument (DESIGN.md section 4).")
RULE_TEXT = R1.RULE_TEXT
TRUSTED = R1.TRUSTED + ["watto StringTable::insert de-duplicates (same string -> same offset) and maps \"\" to usize::MAX"]

TWINS = ["remap_stacktrace", "remap_stacktrace_typed", "remap_throwable", "deobfuscate_signature"]
JAVA_TWINS = [("byte_code_type_to_java_type", "byte_code_type_to_java_type_cache"),
              ("deobfuscate_bytecode_signature", "deobfuscate_bytecode_signature_cache")]


def check_twins(fx, rep, rule, only=None):
    """Sibling agreement as a cross-reference. Alpha-equivalence of the mapper and cache copies is recorded when it holds; a
    divergence is NOT a violation by itself (a one-sided behaviour-preserving refactor diverges too): every twin function is
    decided against its reference separately for each implementation by the rules of the same check, and the divergence is
    listed in the evidence (coverage.twin_divergence) for the reader. Anchors are still required (fail closed)."""
    n = 0
    div = rep.context.setdefault("twin_divergence", [])
    for nm in TWINS:
        if only is not None and nm not in only:
            continue
        a, b = A.method(fx, A.MAPPER, nm), A.method(fx, A.CACHE, nm)
        if len(a) != 1 or len(b) != 1:
            A.one(rep, rule, "twin " + nm, a + b if len(a) + len(b) != 2 else [])
            continue
        eq, why, ntok = T.compare(fx, a[0], b[0], T.MAPPER_CACHE)
        n += 1
        rep.fn(a[0], b[0])
        if eq:
            rep.ok(rule, "%s/twin/%s" % (rule, nm), loc="src/mapper.rs | src/cache/mod.rs",
                   found="alpha-equivalent modulo receiver (%d tokens)" % ntok, nontrivial=False)
        else:
            div.append(dict(pair=nm, difference=why))
    for x, y in JAVA_TWINS:
        if only is not None and x not in only:
            continue
        a, b = A.func(fx, "java", x), A.func(fx, "java", y)
        if not b and (not a or x.startswith("byte_code_type")):
            # the two copies were merged into one function that is handed the implementation: nothing to cross-reference (each
            # implementation's use of the shared function is decided by the per-implementation rules)
            n += 1
            rep.ok(rule, "%s/twin/java::%s" % (rule, x), loc="src/java.rs", found="no twin: one shared function serves both implementations", nontrivial=False)
            continue
        if len(a) != 1 or len(b) != 1:
            A.one(rep, rule, "twin java::" + x, [])
            continue
        x_last, y_last = a[0].split("::")[-1], b[0].split("::")[-1]
        subst = T.MAPPER_CACHE + [(r"\b%s\b" % y_last, x_last)] if y_last != x_last + "_cache" else T.MAPPER_CACHE
        eq, why, ntok = T.compare(fx, a[0], b[0], subst)
        n += 1
        rep.fn(a[0], b[0])
        if eq:
            rep.ok(rule, "%s/twin/java::%s" % (rule, x), loc="src/java.rs", found="alpha-equivalent modulo receiver (%d tokens)" % ntok, nontrivial=False)
        else:
            div.append(dict(pair="java::" + x, difference=why))
    return n


def check_field_ignored(fx, rep, rule):
    for impl in ("mapper", "cache"):
        rl = BR.record_loop(fx, rep, rule, impl)
        if rl is None:
            continue
        fp = rl.arm("Field")
        other = rl.other_arm()
        effs = [e for p in fp + other for e in p["effects"]]
        rep.check(rule, "%s/record-arms/%s/other-records-ignored" % (rule, impl), not effs, loc=F.short_file(rl.body["sp"]),
                  found=[S.tstr(e)[:100] for e in effs] or "Field (and any other) records have no effect",
                  expected="only Header, Class and Method records have effects, in both builders", nontrivial=False)


def run(ctx, rep):
    fx = ctx.facts("")
    rep.configs.append("default")
    for impl in ("mapper", "cache"):
        n = BR.check_entry_fields(fx, rep, "C02.1", impl)
        rep.floor("C02.1/" + impl, n, 8, "Method-record paths (%s)" % impl)
        wl, wo = RD.iterator_roles(fx, rep, "C02.2", impl)
        if wl:
            RD.check_with_lines(fx, rep, "C02.2", impl, wl, "C02.2/lines")
        if wo:
            RD.check_without_lines(fx, rep, "C02.2", impl, wo, "C02.2/params")
        if wl and wo:
            # the stored query is read-only while the frames are produced (a write through it makes later answers depend on
            # earlier ones in one implementation only)
            RD.check_query_readonly(fx, rep, "C02.2", impl, A.method(fx, impl + "::RemappedFrameIter", "next", trait="Iterator") + [wl, wo], "C02.2")
        BR.check_class_header_arms(fx, rep, "C02.3", impl)
        BR.check_method_effects(fx, rep, "C02.8" if impl == "mapper" else "C02.3", impl)
    check_field_ignored(fx, rep, "C02.3")
    R1.check_remap_frame_mapper(fx, rep, "C02.2")
    LR.check_frame_comparators(fx, rep, "C02.4")
    LR.check_class_lookup(fx, rep, "C02.4")
    LR.check_section_slices(fx, rep, "C02.5")
    # the cache can only answer like the mapper if `parse` accepts what `write` wrote and hands the reader the sections as written
    CF.check_parse(fx, rep, "C02.5p")
    wv = CF.WriterView(fx, rep, "C02.5")
    if wv.ok:
        seqs = CF.check_emission(fx, rep, "C02.5", wv)
        if seqs:
            CF.check_sections(fx, rep, "C02.5", wv, seqs)
    LR.check_remap_method(fx, rep, "C02.6")
    CF.check_string_table_model(fx, rep, "C02.6")
    nt = check_twins(fx, rep, "C02.7")
    rep.floor("C02.7", nt, 6, "twin pairs")
    # each query kind of the property, decided for BOTH implementations against the same reference (agreement follows):
    R1.check_extract_class_name(fx, rep, "C02.2")
    R1.check_remap_frame_cache(fx, rep, "C02.2")
    R1.check_find_range(fx, rep, "C02.2")
    import trace_rules as TR
    import rules_C16 as R16
    for impl in ("mapper", "cache"):
        TR.check_text_api(fx, rep, "C02.9", impl)
        TR.check_typed(fx, rep, "C02.9", impl)
    TR.check_format_helpers(fx, rep, "C02.9")
    R16.check_both_impls(fx, rep, "C02.10")
    import api_rules as AR
    AR.check_mapper_constructors(fx, rep, "C02.8")
    AR.check_frame_api(fx, rep, "C02.api")
    AR.check_mapping_wiring(fx, rep, "C02.api")
    rep.assumptions += ["domain: non-empty names, line numbers < 2^32-1 (empty strings are stored as the sentinel by the string table)"]
