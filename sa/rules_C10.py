"""C10 - version-1 cache files mean the same to every release that accepts them (LAY + TAB + SEQ + FC)."""
import facts as F
import anchors as A
import readers as RD
import builder_rules as BR
import lookup_rules as LR
import cachefmt as CF
import rules_C01 as R1

LEVEL = "other"
TECHNIQUE = "frozen v1 fact table (layouts, consts, sentinel, section order, sort keys, reader interpretation) compared with compiler-extracted facts; version gate"
EXPLANATION = ("The pinned release as a separate binary cannot be consulted statically; it is represented by the reviewed v1 fact table "
               "(sa/cachefmt.py V1, V1_CONSTS, the writer/reader references). While PRGCACHE_VERSION == 1 every format-determining fact of "
               "the current tree must equal the table: field order/width/offsets of the three records, magic and flipped magic, the "
               "u32::MAX sentinel and which fields may carry it, section order and 8-byte alignment, string-table encoding dependencies "
               "(watto/leb128 versions in Cargo.lock), writer sort keys and reader comparators, and the reader-side interpretation "
               "(references of C01/C03/C04 cache variants). If the version constant differs, the table is skipped and instead the version "
               "check must gate parse (rejection rather than misreading). Hence silent format drift needs a failing rule.")
EXPLANATION = EXPLANATION + ' Also decided for the reader: the equal-range search, the outer-simple-name rule for synthetic classes, and the signature renderers (`deobfuscate_signature` looks class names up in the parsed file).'
RULE_TEXT = "one instance per frozen fact; distinct = distinct facts"
TRUSTED = ["the v1 table was read off the pinned 5.5.0 tree and reviewed against src/cache/mod.rs:1-34", "Cargo.lock pins watto 0.1.0 / leb128 0.2.5"]


def run(ctx, rep):
    import cen_rules as CR
    fx = ctx.facts("")
    rep.configs.append("default")
    ver = fx.const(CF.RAW + "PRGCACHE_VERSION")
    v = ver.get("int") if ver else None
    rep.context["PRGCACHE_VERSION"] = v
    # the gate is required in every case
    CF.check_parse(fx, rep, "C10.gate")
    if v != 1:
        rep.ok("C10.gate", "C10/version-bumped", found="PRGCACHE_VERSION = %s: v1 table comparison skipped, old files are rejected by the gate" % v)
        return
    CF.check_layouts(fx, rep, "C10.layout")
    CF.check_v1_table(fx, rep, "C10.table")
    CF.check_string_table_model(fx, rep, "C10.table")
    wv = CF.WriterView(fx, rep, "C10.writer")
    if wv.ok:
        seqs = CF.check_emission(fx, rep, "C10.writer", wv)
        if seqs:
            CF.check_sections(fx, rep, "C10.writer", wv, seqs)
        CF.check_order(fx, rep, "C10.writer", wv)
        CF.check_string_refs(fx, rep, "C10.writer", wv)
    BR.check_entry_fields(fx, rep, "C10.writer", "cache")
    BR.check_method_effects(fx, rep, "C10.writer", "cache")
    BR.check_class_header_arms(fx, rep, "C10.writer", "cache")
    # reader-side interpretation
    wl, wo = RD.iterator_roles(fx, rep, "C10.reader", "cache")
    if wl:
        RD.check_with_lines(fx, rep, "C10.reader", "cache", wl, "C10.reader/lines")
    if wo:
        RD.check_without_lines(fx, rep, "C10.reader", "cache", wo, "C10.reader/params")
    if wl and wo:
        import anchors as A_
        RD.check_query_readonly(fx, rep, "C10.reader", "cache", A_.method(fx, "cache::RemappedFrameIter", "next", trait="Iterator") + [wl, wo], "C10.reader")
    # the synthetic-class file rule of the reader derives a file name from the class name: part of what a file "means"
    import rules_C01 as R1_
    R1_.check_extract_class_name(fx, rep, "C10.reader")
    LR.check_frame_comparators(fx, rep, "C10.reader")
    LR.check_class_lookup(fx, rep, "C10.reader")
    LR.check_remap_method(fx, rep, "C10.reader")
    LR.check_section_slices(fx, rep, "C10.reader")
    R1.check_find_range(fx, rep, "C10.reader")
    # a parsed file also answers `deobfuscate_signature` (class names looked up in it, one per type, array depth per occurrence)
    import rules_C16 as R16
    R16.check_both_impls(fx, rep, "C10.sig")
    # string encoding dependencies
    pins = CR.lock_pins()
    for k, (ver_, sum_) in CR.PINNED.items():
        have = pins.get(k, [])
        rep.check("C10.table", "C10/dependency/%s" % k, any(v_ == ver_ and (sum_ is None or c == sum_) for v_, c in have), loc="Cargo.lock",
                  found="%s %s" % (k, have), expected="%s %s (LEB128 length-prefixed UTF-8 string table of format v1)" % (k, ver_))
