"""Rule results, known-findings matching, evidence and replay files."""
import json, os, time

VERIF = os.path.dirname(os.path.dirname(os.path.abspath(__file__)))


class Report:
    def __init__(self, prop, tier):
        self.prop = prop
        self.tier = tier
        self.instances = []     # dicts: rule,key,status,loc,found,expected,detail,nontrivial
        self.floors = []        # dicts: rule,count,minimum,ok
        self.controls = []      # dicts: rule,fired
        self.context = {}       # free-form extra coverage info
        self.assumptions = []
        self.analysed_functions = set()
        self.configs = []
        self.t0 = time.time()

    # -- recording ------------------------------------------------------------
    def ok(self, rule, key, loc="", found=None, detail=None, nontrivial=True):
        self.instances.append(dict(rule=rule, key=key, status="pass", loc=loc, found=found,
                                   detail=detail, nontrivial=nontrivial))

    def violation(self, rule, key, loc="", found=None, expected=None, detail=None):
        self.instances.append(dict(rule=rule, key=key, status="violation", loc=loc, found=found,
                                   expected=expected, detail=detail, nontrivial=True))

    def undecidable(self, rule, key, loc="", construct=None, detail=None):
        self.instances.append(dict(rule=rule, key=key, status="undecidable-shape", loc=loc,
                                   found=construct, detail=detail, nontrivial=True))

    def check(self, rule, key, cond, loc="", found=None, expected=None, detail=None, nontrivial=True):
        if cond:
            self.ok(rule, key, loc, found, detail, nontrivial)
        else:
            self.violation(rule, key, loc, found, expected, detail)
        return cond

    def floor(self, rule, count, minimum, what=""):
        ok = count >= minimum
        self.floors.append(dict(rule=rule, count=count, minimum=minimum, ok=ok, what=what))
        if not ok:
            self.instances.append(dict(
                rule=rule, key="%s/floor" % rule, status="anchor-lost", loc="",
                found="%d instance(s) matched" % count,
                expected=">= %d (%s)" % (minimum, what), nontrivial=True,
                detail="the rule can no longer find the code it certifies (fail closed)"))
        return ok

    def control(self, rule, fired, what=""):
        self.controls.append(dict(rule=rule, fired=bool(fired), what=what))
        if not fired:
            self.instances.append(dict(
                rule=rule, key="%s/control-blind" % rule, status="control-blind", loc="",
                found="positive control did not fire", expected="matcher fires on its control: " + what,
                nontrivial=True, detail="a zero-count rule whose matcher is blind certifies nothing"))

    def fn(self, *paths):
        for p in paths:
            self.analysed_functions.add(p)

    # -- outcome ----------------------------------------------------------------
    def bad(self):
        return [i for i in self.instances if i["status"] != "pass"]


def load_known():
    p = os.path.join(VERIF, "known_findings.json")
    try:
        d = json.load(open(p))
    except OSError:
        return {}, []
    known = {}
    fixed = []
    for f in d.get("findings", []):
        if f.get("status") == "known":
            known[(f["property"], f["key"])] = f
            for a in f.get("also", []):
                known[(a, f["key"])] = f
        else:
            fixed.append(f)
    return known, fixed


def finish(rep, level, explanation, rule_text, trusted_base, checker_cmd, seed=0):
    """Print verdict lines, write replay + evidence; return exit code."""
    known, fixed = load_known()
    bad = rep.bad()
    new = []
    for i in bad:
        kf = known.get((rep.prop, i["key"])) if i["status"] == "violation" else None
        if kf is not None:
            print("KNOWN-FINDING: property=%s %s (%s)" % (rep.prop, i["key"], kf.get("what", "")))
            i["known"] = True
        else:
            new.append(i)
    ev_dir = os.environ.get("PG_EVIDENCE_DIR") or os.path.join(VERIF, "evidence")
    rp_dir = os.path.join(ev_dir, "replay")
    os.makedirs(rp_dir, exist_ok=True)
    # remove stale replay files of this property
    for f in os.listdir(rp_dir):
        if f.startswith(rep.prop + "-"):
            try:
                os.remove(os.path.join(rp_dir, f))
            except OSError:
                pass
    for n, i in enumerate(new):
        path = os.path.join(rp_dir, "%s-%d.json" % (rep.prop, n))
        json.dump(dict(property=rep.prop, tier=rep.tier, **{k: v for k, v in i.items()}),
                  open(path, "w"), indent=1, default=str)
        print("%s [%s] %s at %s" % (i["status"].upper(), i["rule"], i["key"], i.get("loc", "")))
        if i.get("found") is not None:
            print("    found:    %s" % (_short(i["found"]),))
        if i.get("expected") is not None:
            print("    expected: %s" % (_short(i["expected"]),))
        if i.get("detail"):
            print("    detail:   %s" % (_short(i["detail"]),))
        print("VIOLATION property=%s replay=%s" % (rep.prop, path))

    passes = [i for i in rep.instances if i["status"] == "pass"]
    nontriv = {(i["rule"], i["key"]) for i in rep.instances if i.get("nontrivial")}
    samples = []
    seen_rules = set()
    for i in rep.instances:
        if i["rule"] in seen_rules and len(samples) >= 12:
            continue
        seen_rules.add(i["rule"])
        samples.append({k: (_short(v, 400) if isinstance(v, (str, list, dict)) else v)
                        for k, v in i.items() if v is not None})
        if len(samples) >= 40:
            break
    by_rule = {}
    for i in rep.instances:
        d = by_rule.setdefault(i["rule"], dict(instances=0, passed=0))
        d["instances"] += 1
        d["passed"] += 1 if i["status"] == "pass" else 0
    cov = dict(
        evaluations=len(rep.instances),
        distinct_nontrivial=len(nontriv),
        rule=rule_text,
        samples=samples,
        obligations=len(rep.instances),
        discharged=len(passes),
        checker_cmd=checker_cmd,
        trusted_base=trusted_base,
        explanation=explanation,
        exhaustive=True,
        rules=by_rule,
        floors=rep.floors,
        controls=rep.controls,
        functions_analysed=sorted(rep.analysed_functions),
        n_functions_analysed=len(rep.analysed_functions),
        configurations=rep.configs,
        known_findings_suppressed=[i["key"] for i in bad if i.get("known")],
        fixed_findings=[f["key"] for f in fixed if f["property"] == rep.prop or rep.prop in f.get("also", [])],
    )
    cov.update(rep.context)
    ev = dict(property_id=rep.prop, tier=rep.tier, seed=seed, level=level, coverage=cov,
              assumptions=rep.assumptions, wall_s=round(time.time() - rep.t0, 3),
              violations=len(new))
    os.makedirs(ev_dir, exist_ok=True)
    tmp = os.path.join(ev_dir, rep.prop + ".json.tmp")
    json.dump(ev, open(tmp, "w"), indent=1, default=str)
    os.replace(tmp, os.path.join(ev_dir, rep.prop + ".json"))
    print("%s: %d rule instance(s), %d passed, %d known finding(s), %d new violation(s); %d function(s) analysed; %.1fs"
          % (rep.prop, len(rep.instances), len(passes), len(bad) - len(new), len(new),
             len(rep.analysed_functions), time.time() - rep.t0))
    return 1 if new else 0


def _short(v, n=1500):
    s = v if isinstance(v, str) else json.dumps(v, default=str)
    return s if len(s) <= n else s[:n] + "…"
