"""C15 - sink chunking and sink errors (EFF)."""
import facts as F
import anchors as A
import effects as E
import flow as FL
import census as C

LEVEL = "other"
TECHNIQUE = "effect analysis over the resolved call graph: short-write-safe primitives, must-propagate result discipline, unconditional straight-line sink sequence"
EXPLANATION = ("Decided in full modulo std: (1) every byte reaches the sink through io::Write::write_all (std loops until "
               "all bytes are accepted, retries Interrupted, fails on Ok(0)); any reachable call of the short-write-prone "
               "primitive Write::write outside a count-forwarding `impl Write` is a violation with its call path; (2) every "
               "io::Result produced on the path is the operand of `?` or the returned value; (3) sink operations are "
               "unconditional top-level statements in a fixed order and the only Ok exit is the function tail after the last "
               "of them. Hence success => all sections delivered completely in canonical order; failure => reported, and what "
               "was delivered is a prefix (each write_all delivers a prefix of its buffer and `?` stops there).")
RULE_TEXT = ("one instance per sink operation (discipline + position), per io::Result-typed call (consumption), per "
             "primitive write call, per return statement of the writer; non-trivial = all")
TRUSTED = ["std::io::Write::write_all contract (loops on short writes, retries ErrorKind::Interrupted)", "rustc front end",
           "resolved call graph incl. trait-mention edges (sa/facts.py)"]

ALLOWED_SINK_METHODS = {"write_all": "short-write safe", "flush": "result must be propagated", "by_ref": "adapter",
                        "write_fmt": "uses write_all"}


def unconditional(n, parents):
    """n is evaluated exactly once on every normally-completing run of the function: ancestors are
    only blocks, `?`-matches (scrutinee side), borrows/derefs/coercions and call arguments."""
    child = n
    for p in reversed(parents):
        k = p.get("k")
        if k in ("Borrow", "Deref", "Coerce", "Block", "Call", "Cast", "Tuple", "Adt", "Field"):
            child = p; continue
        if k == "Match" and FL.try_operand(p) is not None and p["scrut"] is child or \
                (k == "Match" and FL.try_operand(p) is not None and child is F.strip(p["scrut"])):
            child = p; continue
        if k == "Match" and FL.try_operand(p) is not None:
            # inside the scrutinee subtree (through Try::branch call)
            if any(x is child for x in F.walk(p["scrut"])):
                child = p; continue
        # the body of `for x in <fixed-size array> { .. }` runs once per element, unconditionally, as long as the body has no
        # break / continue / explicit return (only `?`)
        if k in ("Loop", "Match") and _in_fixed_array_for(p, parents):
            child = p; continue
        return False, "%s at %s" % (k, F.loc(p))
    return True, ""


def _in_fixed_array_for(p, parents):
    for q in parents:
        if q.get("k") == "Match" and "ForLoopDesugar" in q.get("src", ""):
            sc = F.strip(q["scrut"])
            if not F.is_call(sc, "std::iter::IntoIterator::into_iter"):
                continue
            import re as _re
            a0 = F.strip(sc["args"][0])
            if not _re.match(r"^\[.*; [1-8]\]$", a0.get("ty") or ""):
                continue
            inside = any(x is p for x in F.walk(q))
            if not inside:
                continue
            for x in F.walk(q):
                if x.get("k") in ("Break", "Continue") and "ForLoopDesugar" not in str(x.get("src", "")):
                    # the desugaring's own `None => break` is the only allowed one
                    par_ok = False
                    for y, ps in F.walk_with_parents(q):
                        if y is x:
                            par_ok = any(z.get("k") == "Match" and F.is_call(F.strip(z.get("scrut", {})), "std::iter::Iterator::next") for z in ps[-3:])
                    if not par_ok:
                        return False
                if x.get("k") == "Return" and not (x.get("e") and F.is_call(F.strip(x["e"]), "std::ops::FromResidual::from_residual")):
                    return False
            return p is q or p.get("k") == "Loop" or (p.get("k") == "Match" and F.is_call(F.strip(p.get("scrut", {})), "std::iter::Iterator::next"))
    return False


def check_writer_fn(fx, rep, path, sink_params, sfx=""):
    b = fx.bodies[path]
    rep.fn(path)
    name = C.short_fn(path)
    ops_all = [(o[0], o[1], o[2]) for o in E.sink_ops(fx, b, sink_params)]
    ops = [o for o in ops_all if o[1] != "stored"]
    for n, kind, what in ops_all:
        if kind == "foreign":
            rep.violation("C15.4" + sfx, "C15.4/sink-escapes/%s/%s" % (name, what), loc=F.loc(n),
                          found="sink handed to foreign function %s" % what,
                          expected="sink only used through io::Write::write_all or local functions that are analysed")
        if kind == "stored":
            rep.violation("C15.4" + sfx, "C15.4/sink-stored/%s/%s" % (name, what), loc=F.loc(n),
                          found="sink stored in %s" % what,
                          expected="the sink is only borrowed by straight-line writer functions (a wrapper object hides later operations from the analysis)")
        if kind == "trait":
            ok = what in ALLOWED_SINK_METHODS
            rep.check("C15.4" + sfx, "C15.4/sink-method/%s/%s" % (name, what), ok, loc=F.loc(n),
                      found="sink method io::Write::%s" % what,
                      expected="only %s on the sink (write => rule C15.1; write_vectored etc. are short-write prone)" % sorted(ALLOWED_SINK_METHODS))
    # parents for position check
    idx = {id(n): ps for n, ps in F.walk_with_parents(b["body"])}
    for i, (n, kind, what) in enumerate(ops):
        ok, why = unconditional(n, idx[id(n)])
        rep.check("C15.3" + sfx, "C15.3/unconditional/%s/op%d:%s" % (name, i, what if kind == "trait" else C.short_fn(what)),
                  ok, loc=F.loc(n), found=("unconditional top-level sink operation" if ok else "sink operation under " + why),
                  expected="sink operations are straight-line (no early success with a partial file)")
    # every return is the `?` propagation; the tail is Ok(..) or a sink op result
    n_ret = 0
    for n, parents in F.walk_with_parents(b["body"]):
        if n.get("k") == "Return":
            n_ret += 1
            v = F.strip(n["e"]) if n.get("e") else None
            is_q = v is not None and F.is_call(v, "std::ops::FromResidual::from_residual")
            rep.check("C15.3" + sfx, "C15.3/return/%s/%s" % (name, "from_residual" if is_q else C.canon(n)),
                      is_q, loc=F.loc(n), found=C.canon(n), expected="only `?` error propagation returns early", nontrivial=False)
    tail = F.strip(b["body"])
    while tail.get("k") == "Block" and tail.get("tail") is not None:
        tail = F.strip(tail["tail"])
    tail_ok = (tail.get("k") == "Adt" and tail["variant"] == "Ok") or any(tail is n for n, _, _ in ops)
    if not ops:
        tail_ok = True
    rep.check("C15.3" + sfx, "C15.3/tail/%s" % name, tail_ok, loc=F.loc(tail), found=C.canon(tail),
              expected="function value is Ok(..) after the last sink operation, or the last sink operation's result")
    # ordering: all sink ops precede the tail trivially (tail is last); record sequence
    # must-propagate
    uses = E.result_uses(b, r"std::io::Error")
    for n, verdict, how in uses:
        rep.check("C15.2" + sfx, "C15.2/propagate/%s/%s" % (name, C.canon(n)), verdict in ("propagated", "returned"),
                  loc=F.loc(n), found="%s: %s" % (verdict, how), expected="io::Result is propagated with `?` or returned")
    return ops, uses


def run(ctx, rep):
    fx = ctx.facts("")
    rep.configs.append("default")
    w = A.one(rep, "C15.roots", "ProguardCache::write", A.method(fx, A.CACHE, "write"))
    if not w:
        return
    seen = fx.reachable([w])
    # C15.1 primitive write calls anywhere reachable
    prim = E.primitive_write_calls(fx, seen)
    for p, n, is_fwd, how in prim:
        ok = is_fwd and how[0] in ("propagated", "returned")
        path = fx.path_to(seen, p)
        rep.check("C15.1", "C15.1/short-write/%s" % C.short_fn(p), ok, loc=F.loc(n),
                  found="io::Write::write called in %s (%s; count %s)" % (C.short_fn(p), "forwarder" if is_fwd else "not a forwarder", how[1]),
                  expected="write() only inside an `impl Write::write` that returns the callee's count",
                  detail="call path: " + " -> ".join(C.short_fn(x) for x in path))
    rep.context["primitive_write_calls"] = len(prim)
    # writer functions: the entry and every local function that performs sink operations
    total_ops = 0
    total_uses = 0
    sf = E.sink_functions(fx, w)
    writers = sorted(sf)
    for p in writers:
        ops, uses = check_writer_fn(fx, rep, p, sf[p])
        total_ops += len(ops)
        total_uses += len(uses)
    # the sink must not be captured by a closure (closures are not straight-line)
    def sequential_sections_closure(cb_, w=w):
        """`[a, b, c].into_iter().try_for_each(|section| <one sink operation on section>)?`: the closure runs once per array element,
        in order, and the first error ends the sequence and is propagated - the same as the calls written out with `?`"""
        for n_, parents_ in F.walk_with_parents(fx.bodies[w]["body"]):
            if n_.get("k") == "Call" and "fn" in n_ and n_["fn"]["path"].endswith("Iterator::try_for_each") and len(n_["args"]) == 2:
                clo_ = F.strip(n_["args"][1])
                if clo_.get("k") != "Closure" or clo_.get("def") != cb_["path"]:
                    continue
                recv = F.strip(n_["args"][0])
                while recv.get("k") in ("Borrow", "Deref"):
                    recv = F.strip(recv["e"])
                import re as _re2
                if not (recv.get("k") == "Call" and "fn" in recv and recv["fn"]["path"].endswith("IntoIterator::into_iter")
                        and (F.strip(recv["args"][0]).get("k") == "Array"
                             or _re2.match(r"^\[.*; \d+\]$", F.strip(recv["args"][0]).get("ty") or ""))):     # (an array literal or a local of a fixed-size array type)
                    return None
                verdict = E.consumption(n_, parents_, fx.bodies[w]["body"])
                if verdict[0] not in ("propagated", "returned"):
                    return None
                body = F.strip(cb_["body"])
                while body.get("k") == "Block" and not body.get("stmts") and body.get("tail") is not None:
                    body = F.strip(body["tail"])
                if body.get("k") == "Call" and "fn" in body:
                    tgt = fx.by_dp.get(body["fn"].get("dp"))
                    if tgt in sf or body["fn"]["path"].endswith("Write::write_all"):
                        return "one sink operation per element of a fixed array, in order, errors propagated (%s)" % verdict[0]
                return None
        return None
    # (in every writer function, not only the entry: a helper that receives the sink can hand it to a closure just as well)
    for wf_ in writers:
        ids = E._sink_var_ids(fx.bodies[wf_], sf[wf_])
        todo_, clos_ = [wf_], []
        while todo_:
            for c_ in fx.closures_of(todo_.pop()):
                clos_.append(c_)
                todo_.append(c_["path"])
        for cb_ in clos_:
            cap = [n for n in F.walk(cb_["body"]) if n.get("k") == "Upvar" and n["id"] in ids]
            why = sequential_sections_closure(cb_, wf_) if cap else None
            if why is not None:
                total_ops += 1      # (sink operations performed through an accepted per-section closure count as operations)
            rep.check("C15.3", "C15.3/closure-sink/%s" % C.short_fn(cb_["path"]), not cap or why is not None, loc=F.short_file(cb_["sp"]),
                      found=("sink captured by closure" if why is None else "sink used by the try_for_each closure: " + why) if cap else "closure does not touch the sink",
                      nontrivial=False, expected="sink operations only in straight-line function bodies")
    rep.floor("C15.ops", total_ops, 3, "sink operations on the write path (5 in write + 2 in write_aligned)")
    rep.floor("C15.2", total_uses, 3, "io::Result-typed calls on the write path")
    rep.context["writer_functions"] = [C.short_fn(p) for p in writers]
    rep.context["sink_sequence"] = [(F.loc(o[0]), o[2] if o[1] == "trait" else C.short_fn(o[2])) for o in E.sink_ops(fx, fx.bodies[w])]

    # controls
    cx = ctx.controls()
    def cb(nm):
        return [b for p, b in cx.bodies.items() if p.endswith("effects::" + nm)][0]
    pw = E.primitive_write_calls(cx, {b["path"]: None for b in cx.bodies.values()})
    d = {p.split("::")[-1]: (is_fwd, how) for p, n, is_fwd, how in pw}
    rep.control("C15.1", "ctl_dropped_write_count" in d and not d["ctl_dropped_write_count"][0], "dropped write() count detected")
    rep.control("C15.1", "ctl_returned_write_count" in d and not d["ctl_returned_write_count"][0], "write() count returned by a non-forwarder detected")
    su = E.result_uses(cb("ctl_swallowed_error"), r"std::io::Error")
    rep.control("C15.2", sum(1 for _, v, _ in su if v == "dropped") == 2, "both swallowed io::Results detected (let _ = / .ok())")
    gu = E.result_uses(cb("ok_propagated"), r"std::io::Error")
    rep.control("C15.2", len(gu) == 2 and all(v in ("propagated", "returned") for _, v, _ in gu), "propagated twin accepted")
    # watto's own Writer::write is the reference forwarder
    ww = [(p, n, f, h) for p, n, f, h in E.primitive_write_calls(fx, {p: None for p in fx.bodies}) if "writer::Writer" in p]
    rep.control("C15.1", any(f for _, _, f, _ in ww) and any(not f for _, _, f, _ in ww),
                "watto Writer: impl Write::write recognised as forwarder, align_to's bare write() calls as non-forwarder")
    if ctx.tier == "thorough":
        fu = ctx.facts("uuid")
        rep.configs.append("uuid")
        wu = A.method(fu, A.CACHE, "write")
        if wu:
            seen_u = fu.reachable(wu)
            for p, n, is_fwd, how in E.primitive_write_calls(fu, seen_u):
                rep.check("C15.1@uuid", "C15.1/short-write/%s" % C.short_fn(p), is_fwd, loc=F.loc(n), found="write() call",
                          expected="forwarder only")
            sfu = E.sink_functions(fu, wu[0])
            for p in sorted(sfu):
                check_writer_fn(fu, rep, p, sfu[p], sfx="@uuid")
    rep.assumptions += ["the sink obeys the io::Write contract (Ok(n) means n bytes were accepted, n <= len)"]
