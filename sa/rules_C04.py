"""C04 - class lookup is exact and method lookup never guesses when ambiguous."""
import facts as F
import anchors as A
import readers as RD
import builder_rules as BR
import lookup_rules as LR
import cachefmt as CF
import rules_C01 as R1

LEVEL = "other"
TECHNIQUE = R1.TECHNIQUE
EXPLANATION = ("Structural necessary conditions, mapper and cache: finished classes are registered with a plain overwrite-insert keyed by the "
               "obfuscated name at the next class line and once after the loop (last class line wins); lookup is exact (HashMap::get on &str "
               "keys / binary_search_by with str::cmp on the writer's sort key, Ok hits only); remap_method answers iff class known, at least "
               "one entry, and all remaining entries carry the first entry's original name, returning that name - the same field the line "
               "iterator emits; remap_throwable maps the class through remap_class and passes the message. Sortedness of the class section "
               "comes from the BTreeMap (C09.6). Composition is a paper argument.")
EXPLANATION = EXPLANATION + ' remap_method of the cache decides over the slice the equal-range search returns (decided here as well).'
RULE_TEXT = R1.RULE_TEXT
TRUSTED = R1.TRUSTED


def run(ctx, rep):
    fx = ctx.facts("")
    rep.configs.append("default")
    for impl in ("mapper", "cache"):
        BR.check_class_header_arms(fx, rep, "C04.1", impl)
    import api_rules as AR
    AR.check_mapping_wiring(fx, rep, "C04.api")
    import parser_rules as PRM
    PRM.check_parser_premises(fx, rep, "C04.P")
    AR.check_mapper_constructors(fx, rep, "C04.api")
    LR.check_class_lookup(fx, rep, "C04.2")
    # (cache side: lookups run over the sections `parse` slices out of the file and the per-class windows cut out of them)
    LR.check_section_slices(fx, rep, "C04.S")
    CF.check_parse(fx, rep, "C04.Sp")
    LR.check_remap_method(fx, rep, "C04.3")
    # the cache's remap_method decides over the slice the equal-range search hands it: the whole run of entries of that name
    R1.check_find_range(fx, rep, "C04.R")
    for impl in ("mapper", "cache"):
        wl, wo = RD.iterator_roles(fx, rep, "C04.4", impl)
        if wl:
            RD.check_with_lines(fx, rep, "C04.4", impl, wl, "C04.4")
    # premises of "every method line is answered": each Method record is registered (both builders), and the file the writer
    # lays out is the one the reader slices (counts, offsets, tiling)
    for impl in ("mapper", "cache"):
        nme = BR.check_method_effects(fx, rep, "C04.B", impl)
        rep.floor("C04.B/" + impl, nme, 8, "Method-record paths (%s)" % impl)
    wv = CF.WriterView(fx, rep, "C04.2")
    if wv.ok:
        CF.check_order(fx, rep, "C04.2", wv)
        seqs = CF.check_emission(fx, rep, "C04.W", wv)
        if seqs:
            CF.check_sections(fx, rep, "C04.W", wv, seqs)
    # control: `any` instead of `all` is a different canonical form
    import sym as S, fc
    cx = ctx.controls()
    bs = [b for p, b in cx.bodies.items() if p.endswith("shapes::ctl_any_instead_of_all")]
    fired = False
    if bs:
        sy = S.Sym(cx, krates=("pgcontrols",))
        res = sy.eval_body(bs[0])
        fired = any("'any'" in repr(o[1]) for st, o in res) and not any("'all'" in repr(o[1]) for st, o in res)
    rep.control("C04.3", fired, "quantifier any/all distinguished in canonical forms")
