"""Closed forms for cursor-scan loops.

    let mut i = a; while i < x.len() && P(x[i]) { i += 1 }      =>  i = a + count(take_while(iter(x[a..]), P))
    let mut i = a; while i > 0 && P(x[i - 1]) { i -= 1 }         =>  i = a - count(take_while(rev(iter(x[..a])), P))

The loop is recognised on its evaluated one-iteration paths (so `while`, `loop { if .. break }` and nested-`if` spellings are one form):
exactly one variable assigned, stepped by one on the only continuing path, the continuing path's conditions are the bound test plus
a predicate of the element at the cursor, every other path leaves the loop without an effect. Anything else: None."""
import sym as S
import fc
from sym import lit_int

CONT, BRK = S.CONT, S.BRK


def _mentions(t, what):
    hit = []

    def g(x):
        if x == what:
            hit.append(1)
        return None
    fc.rewrite(t, g)
    return bool(hit)


def cursor_scan(sy, L):
    roots = sy.assigned_roots(L["node"]["body"])
    if len(roots) != 1:
        return None
    (vid, name), = roots.items()
    cur = ("loop", name, L["index"])
    base = len(L["entry"].conds)
    conts = [(s, o) for s, o in L["paths"] if o[0] == CONT]
    others = [(s, o) for s, o in L["paths"] if o[0] != CONT]
    if len(conts) != 1 or any(o[0] != BRK or s.effects for s, o in others):
        return None
    s, _ = conts[0]
    if len(s.effects) != 1:
        return None
    e = s.effects[0]
    if not (e[0] == "opassign" and e[1] in ("Add", "Sub") and e[2] == ("place", name, ()) and e[3] == lit_int(1)):
        return None
    fwd = e[1] == "Add"
    conds = [fc.canon_atom(a) + (p,) for a, p in s.conds[base:]]
    conds = [(a, (pol == p)) for a, pol, p in conds if a is not True]
    guard, pred = [], []
    seq = None
    for a, p in conds:
        if not isinstance(a, tuple):
            return None
        if fwd and a[0] == "lt" and a[1] == cur and a[2][0] == "call" and a[2][1] == "core::slice::len" and p is True and not _mentions(a[2], cur):
            guard.append(a)
            seq = a[2][2][0]
        elif not fwd and a[0] == "eq" and set(a[1:]) == {cur, lit_int(0)} and p is False:
            guard.append(a)
        else:
            pred.append((a, p))
    if len(guard) != 1 or not pred:
        return None
    at = cur if fwd else S.lin_norm([(cur, 1)], -1)
    elems = set()

    def find_elem(t):
        if t[0] == "call" and t[1] == "std::ops::Index::index" and len(t[2]) == 2 and t[2][1] == at and not _mentions(t[2][0], cur):
            elems.add((t, t[2][0]))
        if t[0] == "index" and len(t) == 3 and t[2] == at and not _mentions(t[1], cur):
            elems.add((t, t[1]))
        return None
    for a, p in pred:
        fc.rewrite(a, find_elem)
    if len(elems) != 1:
        return None
    elem, eseq = list(elems)[0]
    if seq is not None and eseq != seq:
        return None
    seq = eseq
    body = []
    for a, p in pred:
        b_ = fc.rewrite(a, lambda t: ("bound", 0) if t == elem else None)
        if _mentions(b_, cur):
            return None
        body.append(b_ if p else ("not", b_))
    # the exits must be exactly "bound reached" and "predicate false" (nothing else decides when the scan stops)
    want_exits = 1 + len(pred)
    if len(others) > want_exits + 1:
        return None
    init = L["pre"].env.get(vid)
    if init is None or (vid, ()) in L["pre"].store:
        init = L["pre"].store.get((vid, ()), init)
    if init is None:
        return None
    ptxt = body[0] if len(body) == 1 else ("and",) + tuple(body)
    return dict(var=name, index=L["index"], forward=fwd, seq=seq, init=init, pred=ptxt, placeholder=cur)


def closed_form(r, pred_term):
    """the cursor's value after the loop; `pred_term` is the term that stands for the predicate in the caller's vocabulary"""
    call = lambda nm, *a: ("call", nm, tuple(a))
    if r["forward"]:
        sl = call("std::ops::Index::index", r["seq"], ("adt", "RangeFrom", "RangeFrom", (("start", r["init"]),)))
        n = call("std::iter::Iterator::count", call("std::iter::Iterator::take_while", call("core::slice::iter", sl), pred_term))
        return S.lin_norm([(r["init"], 1), (n, 1)])
    sl = call("std::ops::Index::index", r["seq"], ("adt", "RangeTo", "RangeTo", (("end", r["init"]),)))
    n = call("std::iter::Iterator::count", call("std::iter::Iterator::take_while", call("std::iter::Iterator::rev", call("core::slice::iter", sl)), pred_term))
    return S.lin_norm([(r["init"], 1), (n, -1)])
