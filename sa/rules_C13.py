"""C13 - no mapping bytes and no query can make the library panic or overflow (CEN + EFF)."""
import facts as F
import anchors as A
import census as C
import cen_rules as CR
import flow as FL
import rules_C12 as R12

LEVEL = "other"
TECHNIQUE = R12.TECHNIQUE
EXPLANATION = ("Sound static analysis: census of every builtin arithmetic operation, index/slice operation and panicking "
               "std call in every body reachable from the whole build/write/parse/query API (mapper construction, cache "
               "writer, cache reader, trace parsers, mapping metadata), each discharged by a stated local rule; narrowing "
               "casts are enumerated and each needs a stated harmlessness argument; the 'or error' clause: the only fallible "
               "results are io::Result of the sink (Vec<u8> never fails) and fmt::Result of String (never fails); parsing the freshly written cache cannot "
               "fail because the writer emits exactly the sections and counts the parser checks (C09.2-3 / C11.1 rules run here as premises). "
               "Assumption A-size for 32-bit record counters. Not decided: allocation failure, recursion depth, time.")
RULE_TEXT = R12.RULE_TEXT + "; plus one instance per narrowing cast"
TRUSTED = R12.TRUSTED + ["assumption A-size: mapping input < 4 GiB (the format's u32 offsets presuppose it)"]


def cast_policy(site, fx):
    n = site.node
    fam = C.family_of(fx, site.body)
    e = FL.peel(n["e"])
    if site.body["krate"] != "proguard":
        if site.body["path"] in CR.TRUSTED_SUMMARIES:
            return "inside trusted summary"
        return "dependency-internal narrowing (masked value) - listed"
    if F.is_call(e, "watto::StringTable::insert"):
        return "string-table offset: < 4 GiB under A-size; usize::MAX (empty string) truncates to the u32::MAX sentinel by design"
    if F.is_call(e, *C.LEN_CALLS) or F.is_call(e, "std::collections::BTreeMap::<K, V, A>::len"):
        return "section length/count: < 2^32 under A-size"
    # line values: LineMapping fields or bindings of them
    def is_line(x, depth=0):
        x = FL.peel(x)
        if x.get("k") == "Field" and "LineMapping" in x.get("base_ty", ""):
            return True
        if x.get("k") in ("Var", "Upvar") and depth < 4:
            srcs = fam.origins.sources(x["id"])
            ok = bool(srcs)
            for path, expr, how in srcs:
                if how == "param":
                    # closure parameter of map_or over an Option<usize> line field / LineMapping
                    ok = ok and ("usize" in x.get("ty", "") or "LineMapping" in x.get("ty", ""))
                    continue
                if expr is None:
                    return False
                ee = FL.peel(expr)
                # bound by a tuple pattern over a tuple of line fields: `match (lm.a, lm.b) { (Some(a), Some(b)) => .. }`
                pth = list(path)
                while ee.get("k") == "Tuple" and pth and pth[0][0] in ("tuple", "Tuple", "leaf", "Leaf") and str(pth[0][1]).isdigit() \
                        and int(pth[0][1]) < len(ee["fields"]):
                    ee = FL.peel(ee["fields"][int(pth[0][1])])
                    pth = pth[1:]
                if ee.get("k") == "Field" and "LineMapping" in ee.get("base_ty", ""):
                    continue
                if "LineMapping" in (ee.get("ty") or ""):
                    continue
                return False
            return ok
        return False
    if is_line(e):
        return ("line number from the mapping: truncation only changes a stored Member line field; the reader is "
                "panic-free for arbitrary field values (C12 census, no writer invariants)")
    return None


def all_roots(fx, rep):
    roots = []
    groups = dict(A.mapper_roots(fx))
    groups.update(A.cache_query_roots(fx))
    groups["ProguardCache::write"] = A.method(fx, A.CACHE, "write")
    for nm in ("iter", "summary", "has_line_info", "is_valid", "new"):
        groups["ProguardMapping::" + nm] = A.method(fx, "mapping::ProguardMapping", nm)
    groups["ProguardRecordIter::next"] = A.method(fx, "mapping::ProguardRecordIter", "next", trait="Iterator")
    groups["ProguardRecord::try_parse"] = A.method(fx, "mapping::ProguardRecord", "try_parse")
    for t in ("StackTrace", "StackFrame", "Throwable"):
        groups[t + "::try_parse"] = A.method(fx, "stacktrace::" + t, "try_parse")
        groups[t + "::fmt"] = A.method(fx, "stacktrace::" + t, "fmt", trait="Display")
    groups["DeobfuscatedSignature::format_signature"] = A.method(fx, "mapper::DeobfuscatedSignature", "format_signature")
    for what, cands in groups.items():
        p = A.one(rep, "C13.roots", what, cands)
        if p:
            roots.append(p)
    return roots


def run(ctx, rep):
    configs = [""] if ctx.tier == "quick" else ["", "uuid"]
    for feat in configs:
        fx = ctx.facts(feat)
        sfx = "" if not feat else "@" + feat
        rep.configs.append(feat or "default")
        roots = all_roots(fx, rep) if not feat else [p for p in all_roots(fx, rep)]
        policy = dict(a_size=True)
        seen, n_sites, n_lossy = CR.run_census(fx, rep, "C13.census", roots, policy, sfx=sfx, cast_policy=cast_policy)
        import recursion as RC
        RC.check_recursion(fx, rep, "C13.rec" + sfx, seen)
        if not feat:
            rep.floor("C13.census", n_sites, 24, "census sites reachable from the API (37 counted on the repaired tree; a refactor may remove some)")
            rep.floor("C13.casts", n_lossy, 8, "narrowing casts on the write path (17 counted; a refactor may remove some)")
            rep.floor("C13.reach", len(seen), 80, "bodies reachable from the API")
            n_loops = R12.check_loops(fx, rep, "C13.loops", seen)
            rep.floor("C13.loops", n_loops, 9, "loops on the API paths (17 counted)")
    if ctx.tier == "thorough":
        # walker cross-check over EVERY body of the three crates (not only the reachable ones)
        fx = ctx.facts("")
        n_bodies = n_bad = 0
        for p, b in fx.bodies.items():
            if b["kind"] not in ("Fn", "AssocFn", "Closure"):
                continue
            mc = C.mir_counts(fx, p)
            if mc is None:
                continue
            n_bodies += 1
            tc = C.thir_counts(C.enumerate_sites(b))
            if mc != tc:
                n_bad += 1
                rep.violation("C13.xcheck", "C13/walker-mismatch/%s" % C.short_fn(p), loc=F.short_file(b["sp"]), found="typed-tree sites %s" % tc,
                              expected="MIR asserts %s" % mc, detail="census walker blind spot (checker problem)")
        rep.ok("C13.xcheck", "C13/walker-crosscheck", found="%d bodies of proguard+watto+leb128: typed-tree site counts == MIR Assert counts (%d mismatches)" % (n_bodies, n_bad)) if not n_bad else None
        rep.floor("C13.xcheck", n_bodies, 250, "bodies cross-checked")
    # "... or error": parsing the cache that was just written must succeed. Premises (shared with C09/C11): the writer emits
    # the sections the parser expects with exactly the counts its header declares, and the parser's checks are the documented ones.
    import cachefmt as CF
    import builder_rules as BR
    fx0 = ctx.facts("")
    wv = CF.WriterView(fx0, rep, "C13.noerr")
    if wv.ok:
        seqs = CF.check_emission(fx0, rep, "C13.noerr", wv)
        if seqs:
            CF.check_sections(fx0, rep, "C13.noerr", wv, seqs)
        BR.check_method_effects(fx0, rep, "C13.noerr", "cache")
    CF.check_parse(fx0, rep, "C13.noerr")
    CR.run_controls(ctx, rep, "C13.census")
    rep.assumptions += ["A-size: mapping input < 4 GiB", "allocation failure / stack exhaustion out of scope",
                        "io::Write for Vec<u8> and fmt::Write for String are infallible (std facts)"]
