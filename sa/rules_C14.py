"""C14 - cache serialisation is a deterministic function of the mapping bytes (EFF + LAY + PROV)."""
import re
import facts as F
import anchors as A
import effects as E
import cachefmt as CF
import builder_rules as BR
import census as C

LEVEL = "other"
TECHNIQUE = "effect analysis over the resolved call graph (hash-order observers, ambient sources, statics), layout facts (no padding bytes), provenance of header counts"
EXPLANATION = ("Decided in full modulo std/watto summaries: in every body reachable from ProguardCache::write (proguard, watto, leb128; "
               "closures and trait impls of mentioned local types included) (1) no call can observe HashMap/HashSet iteration order "
               "(iter/keys/values/drain/retain/into_iter/extend-from/Debug) - hash containers are used for membership only; (2) no ambient "
               "nondeterminism: time, env, thread, process id, RNG, pointer-to-integer casts, address-based alignment; (3) no undefined "
               "bytes: the three records have no padding and inter-section padding is a zero constant; (4) the emitted length is the one "
               "implied by the header (counts are len()/sums of exactly what is emitted, C09.2-3); (5) no statics or thread-locals are read. "
               "Hence the output is a function of the record stream, which is a function of the bytes (C06). Conservative: a hash "
               "iteration followed by a total sort would still be reported.")
RULE_TEXT = "one instance per reachable body (observer / ambient scans), per layout fact, per emission fact; distinct = distinct keys"
TRUSTED = ["std: BTreeMap iterates in key order; HashSet::insert / HashMap::get results do not depend on the hash seed", "watto 0.1.0, leb128 0.2.5 (analysed bodies)"]


def run(ctx, rep):
    configs = [""] if ctx.tier == "quick" else ["", "uuid"]
    for feat in configs:
        fx = ctx.facts(feat)
        sfx = "" if not feat else "@" + feat
        rep.configs.append(feat or "default")
        w = A.one(rep, "C14.roots", "ProguardCache::write", A.method(fx, A.CACHE, "write"))
        if not w:
            return
        seen = fx.reachable([w])
        for p in seen:
            rep.fn(p)
        rep.floor("C14.reach" + sfx, len(seen), 40, "bodies reachable from write (parser, string table, leb128 included)")
        obs = E.hash_order_observers(fx, seen)
        by_fn = {}
        for p, n, why in obs:
            by_fn.setdefault(p, []).append((why, F.loc(n)))
        for p in sorted(seen):
            hits = by_fn.get(p)
            if hits:
                path = fx.path_to(seen, p)
                rep.violation("C14.1" + sfx, "C14.1/hash-order/%s/%s" % (C.short_fn(p), hits[0][0].split(" ")[0]), loc=hits[0][1],
                              found="%s in %s" % (hits[0][0], C.short_fn(p)), expected="hash containers used for membership only on the write path",
                              detail="call path: " + " -> ".join(C.short_fn(x) for x in path))
        rep.ok("C14.1" + sfx, "C14.1/hash-order/scan", found="%d reachable bodies scanned, %d observer call(s)" % (len(seen), len(obs))) if not obs else None
        rep.context["hash_containers_on_write_path" + sfx] = E.hash_container_uses(fx, seen)
        amb = E.ambient_sources(fx, seen)
        for p, n, why in amb:
            path = fx.path_to(seen, p)
            rep.violation("C14.2" + sfx, "C14.2/ambient/%s/%s" % (C.short_fn(p), why.split(" ")[0] + "-" + why.split(" ")[-1]), loc=F.loc(n),
                          found="%s in %s" % (why, C.short_fn(p)), expected="no time/env/thread/pid/RNG/address dependence on the write path",
                          detail="call path: " + " -> ".join(C.short_fn(x) for x in path))
        if not amb:
            rep.ok("C14.2" + sfx, "C14.2/ambient/scan", found="%d reachable bodies scanned, no ambient source, pointer-to-int cast or static read" % len(seen))
        if not feat:
            CF.check_layouts(fx, rep, "C14.3")
            wv = CF.WriterView(fx, rep, "C14.4")
            if wv.ok:
                seqs = CF.check_emission(fx, rep, "C14.4", wv)
                if seqs:
                    CF.check_sections(fx, rep, "C14.4", wv, seqs)
                CF.check_order(fx, rep, "C14.4", wv)
                BR.check_method_effects(fx, rep, "C14.4", "cache")
            # BTreeMap keys carry no addresses
            cip = fx.adt(CF.RAW + "ClassInProgress")
            if cip:
                for f in cip["variants"][0]["fields"]:
                    rep.check("C14.2", "C14.2/key-types/%s" % f["name"], "*const" not in f["ty"] and "*mut" not in f["ty"], loc=F.short_file(cip["sp"]),
                              found="%s: %s" % (f["name"], f["ty"]), expected="no raw pointers in container keys/values", nontrivial=False)
    # controls
    cx = ctx.controls()
    allb = {p: None for p in cx.bodies}
    obs = {p.split("::")[-1] for p, n, w in E.hash_order_observers(cx, allb)}
    for nm in ("ctl_hash_iter", "ctl_hash_into_iter", "ctl_hash_extend"):
        rep.control("C14.1", nm in obs, "hash-order observer detected in controls::effects::%s" % nm)
    rep.control("C14.1", "ok_hash_membership" not in obs, "membership-only use accepted (controls::effects::ok_hash_membership)")
    amb = {p.split("::")[-1] for p, n, w in E.ambient_sources(cx, allb)}
    rep.control("C14.2", "ctl_time" in amb, "ambient time source detected")
    rep.control("C14.2", "ctl_ptr_cast" in amb, "pointer-to-integer cast detected")
    # parse side is known to use address-based alignment (context, not on the write path)
    fx = ctx.facts("")
    pp = A.method(fx, A.CACHE, "parse")
    if pp:
        ps = fx.reachable(pp)
        rep.context["address_uses_on_parse_side"] = sorted({C.short_fn(p) + ": " + w for p, n, w in E.ambient_sources(fx, ps)})
