"""Cache format rules (LAY / SEQ / PROV) shared by C09, C10, C11, C14, C02.5, C03.5."""
import re
import facts as F
import sym as S
from sym import SINK_TY
import fc
import refs as R
import anchors as A
import builders as B
import builder_rules as BR
from sym import lit_int, mk_field, mk_payload

RAW = "proguard::cache::raw::"
RECORDS = ("Header", "Class", "Member")
# documented format (src/cache/mod.rs:1-34 + field docs in raw.rs): the v1 table
V1 = {
    "Header": ["magic", "version", "num_classes", "num_members", "num_members_by_params", "string_bytes"],
    "Class": ["obfuscated_name_offset", "original_name_offset", "file_name_offset", "members_offset", "members_len",
              "members_by_params_offset", "members_by_params_len"],
    "Member": ["obfuscated_name_offset", "startline", "endline", "original_class_offset", "original_file_offset",
               "original_name_offset", "original_startline", "original_endline", "params_offset"],
}
V1_CONSTS = {"PRGCACHE_MAGIC": 0x43475250, "PRGCACHE_MAGIC_FLIPPED": 0x50524743, "PRGCACHE_VERSION": 1}
SENTINEL = 4294967295
ALIGN = 8


# ---- C09.1 / C10: layouts -------------------------------------------------------------------------------------------
def check_layouts(fx, rep, rule):
    n = 0
    for name in RECORDS:
        a = fx.adt(RAW + name)
        if a is None:
            rep.floor(rule, 0, 1, "record type %s" % name)
            continue
        n += 1
        fields = a["variants"][0]["fields"]
        names = [f["name"] for f in fields]
        ok_types = all(f["ty"] == "u32" for f in fields)
        ok_layout = a["repr_c"] and not a["repr_packed"] and a.get("size") == 4 * len(fields) and a.get("align") == 4 \
            and a.get("offsets") == [4 * i for i in range(len(fields))]
        rep.check(rule, "%s/layout/%s" % (rule, name), ok_types and ok_layout, loc=F.short_file(a["sp"]),
                  found="repr(C)=%s size=%s align=%s offsets=%s field types=%s" % (a["repr_c"], a.get("size"), a.get("align"), a.get("offsets"),
                                                                                   sorted(set(f["ty"] for f in fields))),
                  expected="repr(C), every field u32, size = 4 x #fields (no padding bytes), align 4, offsets 0,4,8,...")
    pods = [im for im in fx.items["proguard"]["impls"] if im.get("trait") == "watto::Pod"]
    pod_types = sorted(im["self"].split("::")[-1] for im in pods)
    rep.check(rule, "%s/pod-impls" % rule, pod_types == sorted(RECORDS), found="unsafe impl Pod for %s" % pod_types,
              expected="Pod (reinterpretation as bytes) exactly on the three all-u32 repr(C) records")
    return n


def check_v1_table(fx, rep, rule):
    """C10: every format-determining fact equals the frozen v1 table"""
    for name in RECORDS:
        a = fx.adt(RAW + name)
        if a is None:
            continue
        names = [f["name"] for f in a["variants"][0]["fields"]]
        rep.check(rule, "%s/v1/field-order/%s" % (rule, name), names == V1[name], loc=F.short_file(a["sp"]),
                  found="%s fields in order: %s" % (name, names), expected="v1: %s" % V1[name])
    for cname, want in V1_CONSTS.items():
        c = fx.const(RAW + cname)
        rep.check(rule, "%s/v1/const/%s" % (rule, cname), c is not None and c.get("int") == want,
                  loc=F.short_file(c["sp"]) if c else "", found="%s = %s" % (cname, c.get("int") if c else None), expected="v1: %d" % want)


# ---- C09.2: emission sequence --------------------------------------------------------------------------------------------------
class WriterView:
    """canonical success path of ProguardCache::write + summaries of its loops"""

    def __init__(self, fx, rep, rule):
        self.ok = False
        self.rl = BR.record_loop(fx, rep, rule, "cache")
        if self.rl is None:
            return
        self.fx = fx
        sy = self.rl.sy
        succ = [(st, v) for st, (k, v) in self.rl.res if v[0] == "adt" and v[2] == "Ok"]
        # the function may end in the last sink call itself (`writer.write_all(..)` as the tail): that path is the success path
        # when the call returns Ok - every earlier `?` already forked on its own result
        for st, (k, v) in self.rl.res:
            if v[0] == "mcall" and (v[1].endswith(("Write::write_all",)) or v[1] in fx.bodies) and st.effects and st.effects[-1][:1] == ("call",) \
                    and ("mcall",) + tuple(st.effects[-1][1:]) == v and all(p for a, p in st.conds if a[0] == "is" and a[2] == "Ok"):
                succ.append((st, v))
        self.success = succ
        self.loops = [sy.loops[k] for k in sy.loop_order]
        self.ok = bool(succ)
        self.helper_cache = {}

    def sink_sequence(self, st):
        """[(callee short name, args, seq)] of effectful calls whose first arg is the sink"""
        out = []
        for e in st.effects:
            if e[0] == "call" and e[2] and e[2][0][0] == "place" and e[2][0][1] == self.sink_name():
                out.append(e)
        return out

    def sink_name(self):
        b = self.rl.body
        for prm in b["params"]:
            if re.match(SINK_TY, prm["ty"]) and prm.get("pat"):
                return prm["pat"]["name"]
        return "writer"


def _ev_int(t, env):
    """evaluate an integer term under env: {atom term: int}; None if outside the evaluator"""
    if t in env:
        return env[t]
    if t[0] == "lit" and t[1] == "int":
        return t[2]
    if t[0] == "cast":
        return _ev_int(t[2], env)
    if t[0] == "lin":
        acc = t[2]
        for a, c in t[1]:
            v = _ev_int(a, env)
            if v is None:
                return None
            acc += c * v
        return acc
    if t[0] == "bin" and t[1] in ("Rem", "Add", "Sub", "Mul", "BitAnd"):
        a, b = _ev_int(t[2], env), _ev_int(t[3], env)
        if a is None or b is None or (t[1] == "Rem" and b == 0):
            return None
        return {"Rem": lambda: a % b, "Add": lambda: a + b, "Sub": lambda: a - b, "Mul": lambda: a * b, "BitAnd": lambda: a & b}[t[1]]()
    if t[0] == "bin" and t[1] == "Div":
        a, b = _ev_int(t[2], env), _ev_int(t[3], env)
        return None if a is None or not b else a // b
    if t[0] == "neg" or t[0] == "bitnot":
        a = _ev_int(t[1], env)
        return None if a is None else ((-a) % (1 << 64) if t[0] == "neg" else (~a) % (1 << 64))
    if t[0] == "call" and re.match(r"^core::num::(<impl (usize|u64)>::)?(next_multiple_of|wrapping_neg|div_ceil|wrapping_sub|wrapping_add)$", t[1]):
        vs = [_ev_int(a, env) for a in t[2]]
        if any(v is None for v in vs):
            return None
        fn = t[1].split("::")[-1]
        if fn == "next_multiple_of" and len(vs) == 2 and vs[1] > 0:
            return ((vs[0] + vs[1] - 1) // vs[1]) * vs[1]
        if fn == "div_ceil" and len(vs) == 2 and vs[1] > 0:
            return (vs[0] + vs[1] - 1) // vs[1]
        if fn == "wrapping_neg" and len(vs) == 1:
            return (-vs[0]) % (1 << 64)
        if fn == "wrapping_sub" and len(vs) == 2:
            return (vs[0] - vs[1]) % (1 << 64)
        if fn == "wrapping_add" and len(vs) == 2:
            return (vs[0] + vs[1]) % (1 << 64)
    return None


def _ev_cond(a, env):
    if a[0] == "eq":
        x, y = _ev_int(a[1], env), _ev_int(a[2], env)
        return None if x is None or y is None else x == y
    if a[0] == "lt":
        x, y = _ev_int(a[1], env), _ev_int(a[2], env)
        return None if x is None or y is None else x < y
    if a[0] == "not":
        r = _ev_cond(a[1], env)
        return None if r is None else not r
    return None


def helper_shape(fx, path):
    """canonical shape of a local sink helper: list of emitted pieces on its success path(s):
    ('bytes', <param index>) | ('pad', N) ; None if not recognised.
    The padding length may be any expression (and any case split) over len(section) % N: it is decided by evaluating it for
    every residue r in 0..N and comparing with (N - r) % N (finite, exact)."""
    b = fx.bodies[path]
    sy = S.Sym(fx)
    try:
        res = sy.eval_body(b)
    except S.Undecidable:
        return None
    names = [prm["pat"]["name"] for prm in b["params"] if prm.get("pat") and prm["pat"]["k"] == "Bind"]
    succ = []
    for st, (k, v) in res:
        # success = every sink call returned Ok (other conditions are case splits over the section length)
        io_conds = [(a, p) for a, p in st.conds if a[0] == "is" and a[2] == "Ok"]
        if all(p for a, p in io_conds):
            succ.append((st, v, [(a, p) for a, p in st.conds if not (a[0] == "is" and a[2] == "Ok")]))
    if not succ:
        return None
    shapes = []
    byte_term = {}
    for st, v, arith in succ:
        pieces = []
        for e in st.effects:
            if e[0] != "call" or not e[1].endswith("Write::write_all"):
                return None
            arg = e[2][1]
            a_in = as_bytes_of(arg)     # `section.as_bytes()` taken inside the helper (a `&S: Pod` parameter): the same bytes
            if a_in[0] == "in" and a_in[1] in names:
                pieces.append(("bytes", names.index(a_in[1])))
                byte_term[names.index(a_in[1])] = arg
                continue
            if arg[0] == "call" and arg[1] == "std::ops::Index::index":
                arg = ("index",) + tuple(arg[2])
            # `ZEROS.split_at(n).0` is `ZEROS[..n]`
            if arg[0] == "field" and arg[2] == "0" and arg[1][0] == "call" and arg[1][1].endswith("split_at") and len(arg[1][2]) == 2:
                arg = ("index", arg[1][2][0], ("adt", "RangeTo", "RangeTo", (("end", arg[1][2][1]),)))
            if arg[0] == "index" and arg[1][0] == "repeat" and arg[1][1] == ("lit", "int", 0) and str(arg[1][2]).isdigit() \
                    and arg[2][0] == "adt" and arg[2][2] == "RangeTo" and dict(arg[2][3]).get("end") is not None:
                # `[0; N]` (a constant or a plain static holding it)
                pieces.append(("padexpr", dict(arg[2][3])["end"], int(arg[1][2])))
                continue
            if arg[0] == "index" and arg[1][0] == "const" and arg[2][0] == "adt" and arg[2][2] == "RangeTo":
                zeros = arg[1][2] or ""
                m = re.match(r'^\*?b"((\\x00)+)"$', zeros)
                end = dict(arg[2][3]).get("end")
                if m and end is not None:
                    pieces.append(("padexpr", end, len(m.group(1)) // 4))
                    continue
            return None
        shapes.append((pieces, arith))
    # all success paths: same piece kinds
    kinds = {tuple(p[0] if p[0] != "bytes" else p for p in pcs) for pcs, _ in shapes}
    if len(kinds) != 1:
        return None
    npieces = len(shapes[0][0])
    out = []
    for i in range(npieces):
        pc0 = shapes[0][0][i]
        if pc0[0] == "bytes":
            out.append(pc0)
            continue
        # the section this padding follows: the nearest preceding bytes piece
        prev = [p for p in shapes[0][0][:i] if p[0] == "bytes"]
        if not prev:
            return None
        ln = ("call", "core::slice::len", (byte_term.get(prev[-1][1], ("in", names[prev[-1][1]])),))
        N = ALIGN
        for r in range(N):
            # any len with len % N == r behaves alike as long as the expressions only use len through `len % N`; use two
            # representatives to reject expressions that depend on len otherwise
            vals = set()
            for rep_len in (r, r + 5 * N):
                env = {ln: rep_len}
                hit = []
                for pcs, arith in shapes:
                    cs = [(_ev_cond(a, env), p) for a, p in arith]
                    if any(c is None for c, p in cs):
                        return None
                    if all(c == p for c, p in cs):
                        hit.append(pcs)
                if len(hit) != 1:
                    return None
                v = _ev_int(hit[0][i][1], env)
                if v is None:
                    return None
                vals.add(v)
            if vals != {(N - r) % N}:
                return None
        if min(p[i][2] for p, _ in shapes) < N - 1:
            return None
        out.append(("pad", N))
    return out


def check_emission(fx, rep, rule, wv):
    """C09.2: flattened emission sequence = [Header, pad8, Class[], pad8, Member[], pad8, Member[], pad8, strings]"""
    if not wv.ok:
        return None
    seqs = []
    for st, v in wv.success:
        flat = []
        for e in wv.sink_sequence(st):
            name, args = e[1], e[2]
            if name.endswith("Write::write_all"):
                flat.append(("bytes", args[1]))
            elif name in fx.bodies:
                shape = wv.helper_cache.get(name)
                if shape is None:
                    shape = helper_shape(fx, name)
                    wv.helper_cache[name] = shape
                if shape is None:
                    flat.append(("unknown", name))
                else:
                    for pc in shape:
                        flat.append(("bytes", args[pc[1]]) if pc[0] == "bytes" else pc)
            else:
                flat.append(("unknown", name))
        seqs.append(flat)
    # all success paths emit the same shape
    shapes = set(tuple(x[0] if x[0] != "pad" else x for x in s) for s in seqs)
    want_shape = ("bytes", ("pad", ALIGN), "bytes", ("pad", ALIGN), "bytes", ("pad", ALIGN), "bytes", ("pad", ALIGN), "bytes")
    rep.check(rule, "%s/emission-shape" % rule, shapes == {want_shape}, loc=F.short_file(wv.rl.body["sp"]),
              found=[str(s) for s in shapes], expected="header pad8 classes pad8 members pad8 members_by_params pad8 strings")
    if shapes != {want_shape}:
        return None
    return seqs


def as_bytes_of(t):
    """X for `as_bytes(X)` / `deref(X)` wrappers"""
    while t[0] == "call" and (t[1].endswith("Pod::as_bytes") or "as_bytes<" in t[1]
                              or (t[1] in ("std::slice::from_ref", "core::slice::from_ref") and len(t[2]) == 1)):
        # (`slice::from_ref(&x)` is the one-element slice `[x]`: its bytes are x's bytes)
        t = t[2][0]
    return t


def check_sections(fx, rep, rule, wv, seqs):
    """C09.2-5 provenance of every section + C09.3 header counts + tiling"""
    rl = wv.rl
    cls, uniq, cmap = BR.roles(rl, "cache")
    results = {}
    for flat in seqs:
        secs = [as_bytes_of(x[1]) for x in flat if x[0] == "bytes"]
        hdr, classes_v, members_v, byparams_v, strings_v = secs
        # --- header
        okh = hdr[0] == "adt" and hdr[1] == "Header"
        h = dict(hdr[3]) if okh else {}
        rep.check(rule, "%s/header/consts" % rule, okh and h.get("magic") == lit_int(V1_CONSTS["PRGCACHE_MAGIC"]) and
                  h.get("version") == lit_int(fx.const(RAW + "PRGCACHE_VERSION").get("int", -1)), loc=F.short_file(rl.body["sp"]),
                  found="magic=%s version=%s" % (S.tstr(h.get("magic", ("?",))), S.tstr(h.get("version", ("?",)))),
                  expected="magic = PRGCACHE_MAGIC, version = PRGCACHE_VERSION", nontrivial=False)
        # the class map as of the end of the record loop (+ epilogue insert)
        flat_loop = [L for L in wv.loops if L is not rl.loop]
        inner_extends = {}
        if len(flat_loop) > 1:
            # `for group in c.members.into_values() { members.extend(group) }` nested in the flatten loop instead of
            # `members.extend(c.members.into_values().flatten())`: the inner loops are read as that one extend
            outer = [L for L in flat_loop if any(e[0] == "loopsum" for st_, o_ in L["paths"] for e in st_.effects)]
            if len(outer) == 1:
                import readers as RD_
                okin = True
                for L in flat_loop:
                    if L is outer[0]:
                        continue
                    d_ = RD_.driver_of_loop(L)
                    conts = [(st_, o_) for st_, o_ in L["paths"] if o_[0] == S.CONT]
                    base_ = len(L["entry"].conds)
                    eff = [fc.rewrite(e, R.rw_iter) for st_, o_ in conts for e in st_.effects if e[0] == "call" and not R.is_next(e[1])]
                    if d_ is not None and len(conts) == 1 and len(eff) == 1 and eff[0][1].endswith("Extend::extend") and eff[0][2][1] == R.ELEM \
                            and eff[0][2][0][0] == "place" and d_[0] == "call" and d_[1].endswith(("BTreeMap::into_values", "BTreeMap::values")):
                        inner_extends[L["index"]] = ("call", "std::iter::Extend::extend", (eff[0][2][0], ("call", "std::iter::Iterator::flatten", (d_,))), 0)
                    else:
                        okin = False
                if okin:
                    flat_loop = outer
        if len(flat_loop) != 1:
            rep.undecidable(rule, "%s/flatten-loop" % rule, loc=F.short_file(rl.body["sp"]),
                            construct="expected exactly one flatten loop after the record loop, found %d" % len(flat_loop))
            return results
        FL_ = flat_loop[0]
        drv = FL_.get("driver")         # (a loop synthesised from `it.map(<effectful closure>).collect()` knows its driver)
        for n in F.walk(FL_["node"]["body"]):
            if F.is_call(n, "std::iter::Iterator::next"):
                v = F.strip(n["args"][0])
                drv = FL_["pre"].env.get(v["id"]) if v.get("k") in ("Var", "Upvar") else None
                break
        ok_drv = drv is not None and drv[0] == "call" and drv[1].endswith(("BTreeMap::into_values", "BTreeMap::values"))
        cm = drv[2][0] if ok_drv else None
        rep.check(rule, "%s/order/class-iteration" % rule, ok_drv, loc=F.loc(FL_["node"]),
                  found="flatten loop iterates %s" % (S.tstr(drv) if drv else "?"),
                  expected="classes BTreeMap iterated in key order via into_values()/values(), no adaptor")
        # counts
        def strip_cast(t):
            return t[2] if t[0] == "cast" and t[1] in ("u32", "usize", "u64") else t      # (only the format's own u32 narrowing, see strip_cast_t)
        def veclen(v):
            return ("call", "std::vec::Vec::len", (strip_deref(v),))
        ncl = strip_cast(h.get("num_classes", ("?",)))
        ok_ncl = (cm is not None and ncl == ("call", "std::collections::BTreeMap::len", (cm,))) or ncl == veclen(classes_v)
        rep.check(rule, "%s/counts/num_classes" % rule, ok_ncl,
                  loc=F.short_file(rl.body["sp"]), found="num_classes = %s" % S.tstr(ncl),
                  expected="len() of the class map whose values are emitted as Class entries (%s), or of the emitted entry vector" % (S.tstr(cm) if cm else "?"))
        for fld_, lenf, vec_ in (("num_members", "members_len", members_v), ("num_members_by_params", "members_by_params_len", byparams_v)):
            t = strip_cast(h.get(fld_, ("?",)))
            good = t == veclen(vec_)         # alternative: the length of exactly the vector that is emitted
            if not good and t[0] == "call" and "Iterator::sum::<" in t[1] and t[2][0][0] == "call" and t[2][0][1].endswith("Iterator::map"):
                # sum(values(classes).map(f)[.map(g)..]): the composed projection must be class.<section>_len
                src, clos_ = t[2][0], []
                while src[0] == "call" and src[1].endswith("Iterator::map") and len(src[2]) == 2 and src[2][1][0] == "closure":
                    clos_.insert(0, src[2][1])
                    src = src[2][0]
                while src[0] == "call" and src[1].endswith(("Clone::clone", "Iterator::by_ref")) and len(src[2]) == 1:
                    src = src[2][0]
                if src[0] == "call" and src[1].endswith(("BTreeMap::values", "BTreeMap::into_values")) and src[2][0] == cm and clos_:
                    sy2 = S.Sym(fx)
                    try:
                        val_ = ("bound", 0)
                        ok_chain = True
                        for clo in clos_:
                            r2 = sy2.apply(clo, [val_], S.St(), {"sp": "?"})
                            if len(r2) != 1 or r2[0][0].conds or r2[0][0].effects:
                                ok_chain = False
                                break
                            val_ = r2[0][1][1]
                        good = ok_chain and val_ == mk_field(mk_field(("bound", 0), "class"), lenf)
                    except S.Undecidable:
                        good = False
            rep.check(rule, "%s/counts/%s" % (rule, fld_), good, loc=F.short_file(rl.body["sp"]), found="%s = %s" % (fld_, S.tstr(t)),
                      expected="sum over the class map of class.%s (the counter paired with the pushes, C09.3), or len() of the emitted section vector" % lenf)
        sb = strip_cast(h.get("string_bytes", ("?",)))
        rep.check(rule, "%s/counts/string_bytes" % rule, sb[0] == "call" and sb[1].endswith("::len") and sb[2][0] == as_bytes_of(strings_v)
                  or (sb[0] == "call" and sb[2][0] == strip_deref(strings_v)),
                  loc=F.short_file(rl.body["sp"]), found="string_bytes = %s ; emitted = %s" % (S.tstr(sb), S.tstr(strings_v)),
                  expected="len() of exactly the byte vector emitted as the string section")
        sv = strip_deref(strings_v)
        rep.check(rule, "%s/strings/source" % rule, sv[0] == "call" and sv[1].endswith("StringTable::into_bytes"), loc=F.short_file(rl.body["sp"]),
                  found="string section = %s" % S.tstr(sv), expected="into_bytes() of the string table all references were inserted into")
        # --- tiling inside the flatten loop
        it_paths = [(st, o) for st, o in FL_["paths"] if o[0] == S.CONT]
        if len(it_paths) != 1:
            rep.undecidable(rule, "%s/flatten-loop-shape" % rule, loc=F.loc(FL_["node"]),
                            construct="flatten loop body has %d iteration paths (expected 1 straight-line body)" % len(it_paths))
            return results
        st, _ = it_paths[0]
        effs = [fc.rewrite(inner_extends.get(e[1], e) if e[0] == "loopsum" else e, R.rw_iter) for e in st.effects]
        if getattr(rl, "_unwrap_rw", None):
            effs = [fc.rewrite(e, rl._unwrap_rw) for e in effs]     # (member maps wrapped together with their de-dup set)
        idx = FL_["index"]
        vecs = {}   # section name -> vector var name
        def pl_name(pl):
            return pl[1] if not pl[2] else pl[1] + "." + ".".join(pl[2])
        for sec_name, vec_term in (("classes", classes_v), ("members", members_v), ("members_by_params", byparams_v)):
            vt = strip_deref(vec_term)
            fpath = []
            while vt[0] == "field":         # the three vectors may be the fields of one accumulator struct
                fpath.insert(0, vt[2])
                vt = vt[1]
            vecs[sec_name] = (vt[1] + "".join("." + x for x in fpath)) if vt[0] == "loop" else None
            rep.check(rule, "%s/section-source/%s" % (rule, sec_name), vt[0] == "loop" and vt[2] == idx, loc=F.short_file(rl.body["sp"]),
                      found="%s section emits %s" % (sec_name, S.tstr(vt)), expected="the vector filled by the flatten loop", nontrivial=False)
        order = []
        assigns = {}
        extends = {}
        n_ext = {}
        pushes = []
        for i, e in enumerate(effs):
            if e[0] == "assign" and e[1][0] == "place" and len(e[1][2]) == 2 and e[1][2][0] == "class":
                assigns[e[1][2][1]] = (i, e[2])
            elif e[0] == "assign" and e[1][0] == "place" and len(e[1][2]) == 1 and e[1][2][0].endswith("_offset"):
                # the entry was moved out of the map value first (`let ClassInProgress { mut class, .. } = c;`): same fields,
                # on the local that is pushed below (its origin - this class's entry - is checked on the push)
                assigns[e[1][2][0]] = (i, e[2])
            if e[0] == "call" and e[1].endswith("Extend::extend") and e[2][0][0] == "place":
                n_ext[pl_name(e[2][0])] = n_ext.get(pl_name(e[2][0]), 0) + 1
                extends[pl_name(e[2][0])] = (i, e[2][1])
            if e[0] == "call" and e[1].endswith("Vec::push") and e[2][0][0] == "place":
                pushes.append((i, pl_name(e[2][0]), e[2][1]))
        for X in ("members", "members_by_params"):
            vec = vecs.get(X)
            off = assigns.get(X + "_offset")
            ext = extends.get(vec)
            vroot = ("loop", vec.split(".")[0], idx) if vec else None
            for fp_ in (vec.split(".")[1:] if vec else []):
                vroot = mk_field(vroot, fp_)
            want_off = ("call", "std::vec::Vec::len", (vroot,))
            got = strip_cast_t(off[1]) if off else None
            key = "%s/tiling/%s_offset<-%s" % (rule.split(".")[0], X, "len(%s)" % (got[2][0][1] if got and got[0] == "call" and got[2] and got[2][0][0] == "loop" else "?"))
            good = off is not None and got == want_off
            if not good and off is not None and vec and got == ("call", "std::vec::Vec::len", (("place", vec, ()),)):
                # the length read through the `&mut Vec` a helper received: it is the loop-entry length as long as nothing in this
                # iteration touched the vector before the read (the extend comes later, checked below)
                touched = [i_ for i_, e_ in enumerate(effs) if i_ < off[0] and e_[0] == "call" and e_[2] and e_[2][0] == ("place", vec, ())]
                good = not touched
            if not good and off is not None and got is not None and got[0] == "loop" and got[2] == idx:
                # alternative: a running total. offset <- V where V is 0 before the flatten loop and every iteration adds exactly
                # this class's own entry count for this section (per-class counts = pushes: the counter-pairing rule)
                V = got[1]
                vid = None
                for n_ in F.walk(rl.body["body"]):
                    if n_.get("k") == "Block":
                        for s_ in n_["stmts"]:
                            if s_["k"] == "Let" and s_["pat"].get("k") == "Bind" and s_["pat"].get("name") == V:
                                vid = s_["pat"]["id"]
                pre_v = FL_["pre"].env.get(vid) if vid is not None else None
                ups = [e for e in effs if e[0] in ("opassign", "assign") and ((e[0] == "opassign" and e[2] == ("place", V, ())) or (e[0] == "assign" and e[1] == ("place", V, ())))]
                cnt = mk_field(mk_field(R.ELEM, "class"), X + "_len")
                up_ok = len(ups) == 1 and ((ups[0][0] == "opassign" and ups[0][1] == "Add" and strip_cast_t(ups[0][3]) == cnt)
                                           or (ups[0][0] == "assign" and ups[0][2] == S.lin_norm([(("loop", V, idx), 1), (cnt, 1)])))
                if pre_v == S.lit_int(0) and up_ok:
                    good = True
                    if not any("counter-pairing" in i_["key"] for i_ in rep.instances):
                        import builder_rules as _BR
                        _BR.check_method_effects(fx, rep, rule, "cache")
            rep.check(rule, key if not good else "%s/tiling/%s_offset" % (rule, X), good, loc=F.loc(FL_["node"]),
                      found="%s_offset <- %s" % (X, S.tstr(got) if got else "unassigned"),
                      expected="%s_offset <- len(%s) = start of this class's entries in the %s section" % (X, vec, X))
            src_ok = False
            if ext:
                t = ext[1]
                if t[0] == "call" and t[1].endswith("Iterator::flat_map") and t[2][0][0] == "call" \
                        and t[2][0][1].endswith(("BTreeMap::into_values", "BTreeMap::values")) and t[2][0][2][0] == mk_field(R.ELEM, X):
                    src_ok = True
                # `.into_values().flatten()`: the same sequence (each Vec yields its entries in order)
                if t[0] == "call" and t[1].endswith("Iterator::flatten") and len(t[2]) == 1 and t[2][0][0] == "call" \
                        and t[2][0][1].endswith(("BTreeMap::into_values", "BTreeMap::values")) and t[2][0][2][0] == mk_field(R.ELEM, X):
                    src_ok = True
            # the offset is read before the extend: either the assignment precedes it, or the assigned term *is* the loop-entry length
            # (a read after the extend would be `len(after(extend ..))`: places are versioned by the calls that mutate them)
            before = off is None or (ext is not None and off[0] < ext[0]) or got == want_off
            rep.check(rule, "%s/tiling/%s-extend" % (rule, X), ext is not None and src_ok and before and n_ext.get(vec) == 1, loc=F.loc(FL_["node"]),
                      found="extend(%s, %s)%s" % (vec, S.tstr(ext[1]) if ext else "-", "" if before else " [offset not taken before the extend]"),
                      expected="offset taken, then %s extended with this class's %s map values in key order (into_values + flat_map)" % (vec, X))
        cp = [p for p in pushes if p[1] == vecs.get("classes")]
        okp = len(cp) == 1 and cp[0][0] > max([a[0] for a in assigns.values()] or [0])
        pushed = cp[0][2] if cp else None
        base_ok = pushed is not None and (pushed[0] == "upd" and pushed[1] == mk_field(R.ELEM, "class") or pushed == mk_field(R.ELEM, "class"))
        rep.check(rule, "%s/tiling/class-entry" % rule, okp and base_ok, loc=F.loc(FL_["node"]),
                  found="push(%s, %s)" % (vecs.get("classes"), S.tstr(pushed)[:300] if pushed else "-"),
                  expected="exactly one Class entry per class, pushed after its offsets were set")
        results = dict(class_map=cm, vecs=vecs, flatten_index=idx)
        break
    return results


def strip_deref(t):
    while t[0] == "call" and t[1].endswith(("Deref::deref", "as_slice")) or (t[0] == "call" and "as_bytes" in t[1]):
        t = t[2][0]
    return t


def strip_cast_t(t):
    # the one narrowing the format itself makes: a length stored in a u32 field (assumption A-size). A cast to anything narrower
    # (`as u16 as u32`) is a different value and stays in the term
    return t[2] if t and t[0] == "cast" and t[1] in ("u32", "usize", "u64") else t


# ---- C09.6: ordered containers, no reordering ----------------------------------------------------------------------------------------
REORDER = re.compile(r"::(sort\w*|reverse|rev|swap\w*|retain\w*|dedup\w*|truncate|pop|remove|insert|drain|rotate\w*|shuffle|split_off)$")


def _subst_single_generic(adt, outer_ty, inner_ty):
    """the field type of a wrapper with one type parameter, with the wrapper's type argument (taken from `outer_ty`) in its place"""
    m_ = re.match(r"^[\w:]+<(.*)>$", outer_ty)
    if adt.get("n_generics") == 1 and m_:
        params_ = set(re.findall(r"(?<![\w:])([A-Z]\w*)(?![\w:])", inner_ty))
        if len(params_) == 1:
            arg_ = m_.group(1)
            return re.sub(r"(?<![\w:])%s(?![\w:])" % list(params_)[0], lambda mo: arg_, inner_ty)
    return inner_ty


def check_order(fx, rep, rule, wv):
    cip = fx.adt(RAW + "ClassInProgress")
    if cip is None:
        rep.floor(rule, 0, 1, "ClassInProgress")
        return
    tys = {f["name"]: f["ty"] for f in cip["variants"][0]["fields"]}
    # a member map wrapped in a private struct together with its de-dup set: the container is the wrapper's map field (the one
    # the record loop pushes through, builders.RecordLoop.unwrapped)
    for fname_, wf_ in (getattr(wv.rl, "unwrapped", None) or {}).items():
        wt_ = re.sub(r"<.*$", "", tys.get(fname_, "")).split("::")[-1]
        for a_ in fx.all_adts("proguard"):
            if wt_ and a_["path"].split("::")[-1] == wt_ and not a_.get("reachable_pub") and a_.get("kind") == "Struct":
                inner_ = {f_["name"]: f_["ty"] for f_ in a_["variants"][0]["fields"]}
                if wf_ in inner_:
                    tys[fname_] = _subst_single_generic(a_, tys.get(fname_, ""), inner_[wf_])
    # a member map behind a crate-private single-field tuple struct (`struct MemberGroups<K>(BTreeMap<K, Vec<Member>>)`): the
    # container is the wrapped map, with the wrapper's type argument put in place of its parameter
    for fname_ in ("members", "members_by_params"):
        fty_ = tys.get(fname_, "")
        wt_ = re.sub(r"<.*$", "", fty_).split("::")[-1]
        for a_ in fx.all_adts("proguard"):
            if wt_ and a_["path"].split("::")[-1] == wt_ and not a_.get("reachable_pub") and a_.get("kind") == "Struct" \
                    and [f_["name"] for f_ in a_["variants"][0]["fields"]] == ["0"]:
                tys[fname_] = _subst_single_generic(a_, fty_, a_["variants"][0]["fields"][0]["ty"])
    rep.check(rule, "%s/container/members" % rule, tys.get("members", "").startswith("std::collections::BTreeMap<&") and "Vec<cache::raw::Member>" in tys.get("members", ""),
              loc=F.short_file(cip["sp"]), found="members: %s" % tys.get("members"), expected="BTreeMap<&str, Vec<Member>> (sorted by obfuscated name, file order within)")
    def pair_key_ok(ty):
        """(&str, &str), or a private struct with derived Eq + Ord whose two fields are both &str (derive(Ord) = lexicographic in
        declaration order; which field is the name and which the params is checked on the entry() key by the slot rule)"""
        if ty.startswith("std::collections::BTreeMap<(&"):
            return True
        m_ = re.match(r"^std::collections::BTreeMap<([\w:]+)(<[^>]*>)?, ", ty)
        if not m_:
            return False
        nm = m_.group(1).split("::")[-1]
        derived = {i_.get("trait") for i_ in fx.items["proguard"]["impls"] if i_.get("exp") and i_.get("self", "").split("<")[0].split("::")[-1] == nm}
        if not {"std::cmp::PartialEq", "std::cmp::Eq", "std::cmp::PartialOrd", "std::cmp::Ord"} <= derived:
            return False
        for a_ in fx.all_adts("proguard"):
            if a_["path"].split("::")[-1] == nm:
                fl = a_["variants"][0]["fields"]
                return len(fl) == 2 and all(re.match(r"^&('\w+ )?str$", f_["ty"]) for f_ in fl)
        return False
    rep.check(rule, "%s/container/members_by_params" % rule, pair_key_ok(tys.get("members_by_params", "")) and "Vec<cache::raw::Member>" in tys.get("members_by_params", ""),
              loc=F.short_file(cip["sp"]), found="members_by_params: %s" % tys.get("members_by_params"), expected="BTreeMap<(&str, &str), Vec<Member>> (sorted by (name, params))")
    # classes map type from the local variable
    b = wv.rl.body
    cmty = None
    # (in the writer itself, or in the private function the record loop was moved to)
    for body_ in [b] + [fx.bodies[q] for q in sorted(fx.reachable([b["path"]])) if q != b["path"] and fx.bodies[q]["krate"] == "proguard" and "::cache::" in q]:
        for n in F.walk(body_["body"]):
            if n.get("k") == "Var" and n["name"] == "classes" or (n.get("k") == "Var" and "BTreeMap<&" in n.get("ty", "") and "ClassInProgress" in n.get("ty", "")):
                cmty = n["ty"]
                break
        if cmty is not None:
            break
    rep.check(rule, "%s/container/classes" % rule, cmty is not None and cmty.startswith("std::collections::BTreeMap<&") and "ClassInProgress" in cmty,
              loc=F.short_file(b["sp"]), found="classes: %s" % cmty, expected="BTreeMap<&str, ClassInProgress> (sorted by obfuscated class name)")
    # no reordering call on any Vec<Member>/Vec<Class>/BTreeMap on the write path
    bad = []
    n_calls = 0
    # (the writer and every function of the crate it reaches: the record loop and the layout may live in private helpers)
    scan = [fx.bodies[q] for q in sorted(fx.reachable([b["path"]])) if fx.bodies[q]["krate"] == "proguard" and "::cache::" in q]
    for body in scan:
        for n in F.walk(body["body"]):
            if n.get("k") == "Call" and "fn" in n and n["args"]:
                t0 = F.strip(n["args"][0]).get("ty", "") + n["args"][0].get("ty", "")
                if ("Vec<cache::raw::Member>" in t0 or "Vec<cache::raw::Class>" in t0 or "BTreeMap<" in t0) :
                    n_calls += 1
                    p = n["fn"]["path"]
                    if REORDER.search(p) and not p.endswith(("BTreeMap::<K, V, A>::insert",)):
                        bad.append((p, F.loc(n)))
    rep.check(rule, "%s/no-reorder" % rule, not bad and n_calls >= 8, loc=F.short_file(b["sp"]),
              found=bad or "%d container calls, none reorders/removes" % n_calls,
              expected="entry vectors are append-only; ordering comes from the BTreeMaps only")


# ---- C09.7: string references --------------------------------------------------------------------------------------------------
def check_string_refs(fx, rep, rule, wv):
    rl = wv.rl
    cls, uniq, cmap = BR.roles(rl, "cache")
    idx = rl.loop["index"]
    n = 0
    seen = set()

    def classify(v):
        if v[0] == "strref":
            return "insert"
        if v == R.MAX32:
            return "sentinel"
        if v[0] == "field" and v[2].endswith("_offset"):
            return "copy:" + v[2]
        return None
    # Member constructions (Method arm) and Class constructions (Class arm)
    for p in rl.arm("Method"):
        for slot, ent in BR.pushed_entries(p, "cache"):
            for fn, fv in ent[3]:
                if fn.endswith("_offset"):
                    c = classify(fv)
                    k = (fn, c)
                    if k in seen:
                        continue
                    seen.add(k)
                    n += 1
                    rep.check(rule, "%s/string-ref/Member.%s/%s" % (rule, fn, c or "other"), c is not None, loc=F.short_file(rl.body["sp"]),
                              found="Member.%s = %s" % (fn, S.tstr(fv)), expected="string_table.insert(..) as u32, u32::MAX, or a copy of another string reference")
    for p in rl.arm("Class"):
        for e in p["effects"]:
            if e[0] == "assign" and e[2][0] == "adt":
                d = dict(e[2][3])
                cl = d.get("class")
                if cl and cl[0] == "adt":
                    for fn, fv in cl[3]:
                        if fn.endswith("_name_offset"):
                            c = classify(fv)
                            k = ("Class." + fn, c)
                            if k in seen:
                                continue
                            seen.add(k)
                            n += 1
                            rep.check(rule, "%s/string-ref/Class.%s/%s" % (rule, fn, c or "other"), c is not None, loc=F.short_file(rl.body["sp"]),
                                      found="Class.%s = %s" % (fn, S.tstr(fv)), expected="string_table.insert(..) as u32 or u32::MAX")
    return n


# ---- C11 / C09.8: the parser's check sequence ----------------------------------------------------------------------------------------
POD = "watto::pod::Pod::"
ALIGN_TO = "watto::helpers::align_to"


def ref_parse(fx):
    """reference for ProguardCache::parse as a guarded early-return chain over opaque atoms"""
    H = "cache::raw::Header"
    C = "cache::raw::Class"
    M = "cache::raw::Member"
    buf = ("in", "buf")
    hp = ("call", POD + "ref_from_prefix<%s>" % H, (buf,))
    header = mk_field(mk_payload(hp, "Some", "0"), "0")
    rest0 = mk_field(mk_payload(hp, "Some", "0"), "1")
    magic, flipped = lit_int(V1_CONSTS["PRGCACHE_MAGIC"]), lit_int(V1_CONSTS["PRGCACHE_MAGIC_FLIPPED"])
    ver = lit_int(fx.const(RAW + "PRGCACHE_VERSION").get("int", -1))

    def kind(k):
        return ("Err", k)

    def al(x):
        return ("call", ALIGN_TO, (x, lit_int(ALIGN)))

    def sl(T, x, n):
        return ("call", POD + "slice_from_prefix<%s>" % T, (x, mk_field(header, n)))

    def ref(o):
        if not o(("is", hp, "Some")):
            return kind("InvalidHeader")
        if o(("eq", mk_field(header, "magic"), flipped)):
            return kind("WrongEndianness")
        if not o(("eq", mk_field(header, "magic"), magic)):
            return kind("WrongFormat")
        if not o(("eq", mk_field(header, "version"), ver)):
            return kind("WrongVersion")
        a1 = al(rest0)
        if not o(("is", a1, "Some")):
            return kind("InvalidClasses")
        s1 = sl(C, mk_field(mk_payload(a1, "Some", "0"), "1"), "num_classes")
        if not o(("is", s1, "Some")):
            return kind("InvalidClasses")
        a2 = al(mk_field(mk_payload(s1, "Some", "0"), "1"))
        if not o(("is", a2, "Some")):
            return kind("InvalidMembers")
        s2 = sl(M, mk_field(mk_payload(a2, "Some", "0"), "1"), "num_members")
        if not o(("is", s2, "Some")):
            return kind("InvalidMembers")
        a3 = al(mk_field(mk_payload(s2, "Some", "0"), "1"))
        if not o(("is", a3, "Some")):
            return kind("InvalidMembers")
        s3 = sl(M, mk_field(mk_payload(a3, "Some", "0"), "1"), "num_members_by_params")
        if not o(("is", s3, "Some")):
            return kind("InvalidMembers")
        a4 = al(mk_field(mk_payload(s3, "Some", "0"), "1"))
        # (the kind carries what was declared and what was found: part of the error a caller sees)
        if not o(("is", a4, "Some")):
            return ("Err", "UnexpectedStringBytes", (("expected", mk_field(header, "string_bytes")), ("found", lit_int(0))))
        sb = mk_field(mk_payload(a4, "Some", "0"), "1")
        if o(("lt", ("call", "core::slice::len", (sb,)), mk_field(header, "string_bytes"))):
            return ("Err", "UnexpectedStringBytes", (("expected", mk_field(header, "string_bytes")), ("found", ("call", "core::slice::len", (sb,)))))
        return ("Ok", (("header", header), ("classes", mk_field(mk_payload(s1, "Some", "0"), "0")),
                       ("members", mk_field(mk_payload(s2, "Some", "0"), "0")),
                       ("members_by_params", mk_field(mk_payload(s3, "Some", "0"), "0")), ("string_bytes", sb)))
    return ref


def parse_outcome(st, out):
    k, v = out
    if v[0] == "adt" and v[2] == "Ok":
        pc = v[3][0][1]
        if pc[0] == "adt" and pc[1] == "ProguardCache":
            return ("Ok", tuple(pc[3]))
        return ("Ok?", v)
    if v[0] == "adt" and v[2] == "Err":
        e = v[3][0][1]
        # Err(from(kind)) | Err(CacheError{kind,..}) | Err(kind)
        while e[0] == "from":
            e = e[1]
        if e[0] == "adt" and e[1] == "CacheError":
            e = dict(e[3]).get("kind", e)
        if e[0] == "adt":
            if e[3]:
                def uncast(t_):
                    while t_[0] == "cast" and t_[1] in ("u32", "usize", "u64"):
                        t_ = t_[2]
                    return t_
                return ("Err", e[2], tuple(sorted((fn_, uncast(fv_)) for fn_, fv_ in e[3])))
            return ("Err", e[2])
    return ("other", v)


def check_parse(fx, rep, rule):
    p = A.one(rep, rule, "ProguardCache::parse", A.method(fx, A.CACHE, "parse"))
    if not p:
        return
    rep.fn(p)
    b = fx.bodies[p]
    sy = S.Sym(fx, opaque=lambda q: False, inline_mut=True, thread_places=True)     # a cursor object with `&mut self` readers is evaluated through
    try:
        res = sy.eval_body(b)
    except S.Undecidable as e:
        rep.undecidable(rule, "%s/shape" % rule, loc=F.loc(e.node) if isinstance(e.node, dict) else "", construct=e.msg)
        return
    if sy.loop_order:
        rep.undecidable(rule, "%s/shape" % rule, loc=F.short_file(b["sp"]), construct="loop in parse")
        return
    # rename the buffer parameter
    bufname = [prm["pat"]["name"] for prm in b["params"] if prm.get("pat") and "[u8]" in prm["ty"]]

    def hand_aligned(g):
        """X, N for `X.get(X.as_ptr().align_offset(N)..)` - watto's `align_to(X, N)` spelled out (its body is exactly `offset =
        as_ptr().align_offset(N); if len < offset { None } else { Some(split_at(offset)) }`: checked below as C11-style premise)"""
        if g[0] == "call" and g[1] == "core::slice::get" and len(g[2]) == 2 and g[2][1][0] == "adt" and g[2][1][2] == "RangeFrom":
            st_ = dict(g[2][1][3]).get("start")
            if st_ is not None and st_[0] == "call" and st_[1].endswith("align_offset") and len(st_[2]) == 2 \
                    and st_[2][0] == ("call", "core::slice::as_ptr", (g[2][0],)):
                return g[2][0], st_[2][1]
        return None
    used_hand = []

    def rw(t):
        if t[0] == "in" and bufname and t[1] == bufname[0]:
            return ("in", "buf")
        if t[0] == "is" and t[2] == "Some" and hand_aligned(t[1]):
            x_, n_ = hand_aligned(t[1])
            used_hand.append(1)
            return ("is", ("call", "watto::helpers::align_to", (x_, n_)), "Some")
        if t[0] == "payload" and t[2] == "Some" and t[3] == "0" and hand_aligned(t[1]):
            x_, n_ = hand_aligned(t[1])
            return mk_field(mk_payload(("call", "watto::helpers::align_to", (x_, n_)), "Some", "0"), "1")
        return None
    ref = ref_parse(fx)
    bad, ncmp = fc.compare_paths(res, ref, lambda st_, out_: fc.rewrite(parse_outcome(st_, out_), rw), rw=rw)
    rep.context.setdefault("fc", {})[rule] = dict(paths=len(res), comparisons=ncmp, atoms=len(fc.atoms_of(res, 0, rw)))
    oks = [1 for st, o in res if parse_outcome(st, o)[0] == "Ok"]       # (tags only)
    if not bad and len(oks) == 1:
        rep.ok(rule, "%s/check-sequence" % rule, loc=F.short_file(b["sp"]),
               found="%d canonical paths: header -> endianness -> format -> version -> classes -> members -> by-params -> strings; "
                     "one Ok built from exactly the five checked pieces; error kind per check as documented" % len(res))
    else:
        for conds, impl_o, ref_o, comp in bad[:5]:
            tag = "%s-vs-%s" % (impl_o[1] if impl_o[0] == "Err" else impl_o[0], ref_o[1] if ref_o[0] == "Err" else ref_o[0])
            if impl_o[0] == "Ok" and ref_o[0] == "Ok":
                diffs = [a[0] for a, b2 in zip(impl_o[1], ref_o[1]) if a != b2]
                tag = "Ok-field-" + "-".join(diffs)
            rep.violation(rule, "%s/check-sequence/%s" % (rule, tag), loc=F.short_file(b["sp"]),
                          found="when %s%s: %s" % (S.cstr(tuple((fc.rewrite(a, rw), pl) for a, pl in conds))[-700:],
                                                   (" [" + ", ".join("%s=%s" % (S.tstr(k)[-80:], v) for k, v in comp.items()) + "]") if comp else "",
                                                   render_parse(impl_o)),
                          expected=render_parse(ref_o))
        if len(oks) != 1:
            rep.violation(rule, "%s/ok-paths" % rule, loc=F.short_file(b["sp"]), found="%d Ok paths" % len(oks), expected="exactly one Ok")
    if used_hand:
        # the premise of reading `get(align_offset..)` as watto's align_to: that is how watto does it
        wa = fx.bodies.get("watto::helpers::align_to")
        okw = False
        if wa is not None:
            calls_ = [n_["fn"]["path"].split("::")[-1] for n_ in F.walk(wa["body"]) if n_.get("k") == "Call" and "fn" in n_]
            okw = sorted(calls_) == ["align_offset", "as_ptr", "len", "split_at"]
        rep.check(rule, "%s/align-to-model" % rule, okw, loc="watto/src/helpers.rs", found="watto::helpers::align_to calls %s" % (calls_ if wa else "?"),
                  expected="as_ptr().align_offset(n), len() < offset -> None, split_at(offset)", nontrivial=False)
    # buffer access discipline: only checked watto APIs, no indexing
    sites = [n for n in F.walk(b["body"]) if n.get("k") == "Index" or F.is_call(n, "std::ops::Index::index", "core::slice::<impl [T]>::get_unchecked", "split_at")]
    rep.check(rule, "%s/buffer-access" % rule, not sites, loc=F.short_file(b["sp"]),
              found=[F.loc(n) for n in sites] or "buffer only touched through ref_from_prefix / slice_from_prefix / align_to / len",
              expected="no raw indexing or unchecked splitting of the untrusted buffer in parse", nontrivial=False)


def render_parse(o):
    if o[0] == "Ok":
        return "Ok(ProguardCache{%s})" % ", ".join("%s: %s" % (k, S.tstr(v)[-90:]) for k, v in o[1])
    if o[0] == "Err":
        return "Err(%s)" % o[1]
    return S.tstr(o[1])[:200]


# ---- the string-table model used by the writer-side references (strref) --------------------------------------------
def check_string_table_model(fx, rep, rule):
    """watto's StringTable::insert is what `strref(x)` abstracts: "" -> usize::MAX (the sentinel after `as u32`),
    an already inserted string -> its stored offset (de-duplication: equal offsets <=> equal strings), a new string ->
    the current length of the byte vector, then LEB128 length + bytes appended and the offset remembered."""
    p = "watto::string_table::StringTable::insert"
    if p not in fx.bodies:
        rep.floor(rule, 0, 1, "watto StringTable::insert body")
        return
    rep.fn(p)
    sy = S.Sym(fx, krates=("watto",))
    try:
        res = sy.eval_body(fx.bodies[p])
    except S.Undecidable as e:
        rep.undecidable(rule, "%s/string-table/insert/shape" % rule, loc=F.loc(e.node) if isinstance(e.node, dict) else "", construct=e.msg)
        return
    slf, s_ = ("in", "self"), ("in", "s")
    g = ("call", "std::collections::HashMap::get", (mk_field(slf, "strings"), s_))
    blen = ("call", "std::vec::Vec::len", (mk_field(slf, "bytes"),))
    good = True
    seen = set()
    desc = []
    for st, (k, v) in res:
        a = fc.assignment(st.conds)
        effs = [e for e in st.effects if e[0] == "call"]
        if a.get(("empty", s_)) is True:
            seen.add("empty")
            good = good and v == lit_int(18446744073709551615) and not effs
        elif a.get(("is", g, "Some")) is True:
            seen.add("dedupe")
            good = good and v == mk_payload(g, "Some", "0") and not effs
        elif any(e[0] == "panic" for e in st.effects):
            seen.add("unwrap-path")      # discharged by the census (D-infallible-vec-write)
        else:
            seen.add("new")
            names = [e[1].split("::")[-1] for e in effs]
            ok_eff = names == ["unsigned", "extend", "insert"] and effs[2][2][1] == s_ and effs[2][2][2] == blen
            good = good and v == blen and ok_eff
            desc.append(names)
    rep.check(rule, "%s/string-table/insert" % rule, good and {"empty", "dedupe", "new"} <= seen, loc=F.short_file(fx.bodies[p]["sp"]),
              found="cases %s; new-string effects %s" % (sorted(seen), desc),
              expected="\"\" -> usize::MAX; known string -> stored offset; new string -> offset = bytes.len(), append LEB128 length + bytes, remember offset")
    q = "watto::string_table::StringTable::read"
    if q in fx.bodies:
        rep.fn(q)
        b = fx.bodies[q]
        raw = [n for n in F.walk(b["body"]) if n.get("k") == "Index" or F.is_call(n, "std::ops::Index::index", "split_at")]
        gets = [n for n in F.walk(b["body"]) if F.is_call(n, "core::slice::<impl [T]>::get")]
        rep.check(rule, "%s/string-table/read" % rule, not raw and len(gets) >= 2, loc=F.short_file(b["sp"]),
                  found="%d raw index operations, %d get(..) calls" % (len(raw), len(gets)),
                  expected="offset and length are applied with get(..): an unreadable reference is an Err, never a panic", nontrivial=False)


# ---- C09.9: the library's own self-test accepts every file the writer produces ------------------------------------------------
MANDATORY_STR = {"obfuscated_name_offset", "original_name_offset"}
OPTIONAL_STR = {"file_name_offset", "params_offset", "original_class_offset", "original_file_offset"}


def check_self_test(fx, rep, rule):
    """every assertion of ProguardCache::test is one the writer's invariants imply (string references resolve - optional ones
    only when not the sentinel -, per-class ranges tile their section and stay inside it). Any other assertion (e.g. a
    strict order where the writer only guarantees a non-strict one) could reject a valid file and is reported."""
    import census as C
    import flow as FL
    p = A.one(rep, rule, "ProguardCache::test", A.method(fx, A.CACHE, "test"))
    if not p:
        return
    rep.fn(p)
    bodies = [fx.bodies[p]] + fx.closures_of(p)
    # private helpers that exist only for the self-test (every caller is the self-test itself) are part of it
    cg = fx.callgraph()
    callers = {}
    for q_, edges_ in cg.items():
        for c_, r_, _n in edges_:
            for t_ in (r_, c_):
                if t_ in fx.bodies:
                    callers.setdefault(t_, set()).add(q_)
    inc = {b_["path"] for b_ in bodies}
    grew = True
    while grew:
        grew = False
        for q_ in sorted(inc):
            for c_, r_, _n in cg.get(q_, ()):
                for t_ in (r_, c_):
                    if t_ in fx.bodies and t_ not in inc and fx.bodies[t_]["krate"] == "proguard" and fx.bodies[t_].get("kind") in ("Fn", "AssocFn") \
                            and not fx.bodies[t_].get("reachable_pub") and callers.get(t_, set()) <= inc:
                        inc.add(t_)
                        rep.fn(t_)
                        bodies += [fx.bodies[t_]] + fx.closures_of(t_)
                        inc |= {b_["path"] for b_ in fx.closures_of(t_)}
                        grew = True
    n_assert = 0
    for b in bodies:
        fam = C.family_of(fx, fx.bodies[b["path"]] if b.get("kind") in ("Fn", "AssocFn") else fx.bodies[p])
        for n, parents in F.walk_with_parents(b["body"]):
            if not (n.get("k") == "Call" and "fn" in n):
                continue
            last = n["fn"]["path"].split("::")[-1]
            if not (n["fn"]["path"].startswith(("core::panicking", "std::rt")) or last in ("assert_failed", "panic", "panic_fmt", "unwrap", "expect")):
                continue
            n_assert += 1
            facts = FL.dominating_facts(n, parents)
            cond = next(((f_, pol) for f_, pol in reversed(facts) if not pol), None)
            why = None
            if last in ("unwrap", "expect"):
                why = None
            elif cond is not None:
                c = F.strip(cond[0])
                why = _admissible_assertion(c, facts, n, parents, fam)
            rep.check(rule, "%s/self-test/%s" % (rule, C.canon(cond[0])[:80] if cond else last), why is not None, loc=F.loc(n),
                      found=("assert %s -- %s" % (F.pp(cond[0])[:160], why)) if why else "assertion `%s` is not one of the invariants the writer establishes" % (F.pp(cond[0])[:200] if cond else last),
                      expected="string reference resolves (optional ones only when != u32::MAX); <section>_offset == running total of <section>_len; total <= section length")
    rep.floor(rule + "/self-test", n_assert, 5, "assertions in ProguardCache::test")


def _sec_total(v, fam, sec):
    """v is a local initialised to 0 and only ever `+= <x>.<sec>_len`"""
    import census as C
    import flow as FL
    v = FL.peel(v)
    if v.get("k") == "Cast":
        v = FL.peel(v["e"])
    if v.get("k") not in ("Var", "Upvar"):
        return False
    srcs = fam.origins.sources(v["id"])
    n_init = 0
    for path, expr, how in srcs:
        if how == "let" and path == () and expr is not None and C.int_lit(expr) == 0:
            n_init += 1
        elif how == "assignop" and expr.get("k") == "AssignOp" and expr["op"].startswith("Add") and F.strip(expr["r"]).get("k") == "Field" \
                and F.strip(expr["r"])["name"] == sec + "_len":
            continue
        else:
            return False
    return n_init == 1


def _admissible_assertion(c, facts, n, parents, fam):
    import census as C
    import flow as FL
    # is_ok(read_string(self, X.<field>))
    if F.is_call(c, "std::result::Result::<T, E>::is_ok"):
        inner = FL.peel(c["args"][0])
        if inner.get("k") == "Call" and "fn" in inner and inner["fn"]["path"].endswith("read_string") and len(inner["args"]) == 2:
            fld = FL.peel(inner["args"][1])
            if fld.get("k") == "Field":
                if fld["name"] in MANDATORY_STR:
                    return "mandatory string reference"
                if fld["name"] in OPTIONAL_STR:
                    for f_, pol in facts:
                        f_ = F.strip(f_)
                        if pol and f_.get("k") == "Binary" and f_["op"] == "Ne" and FL.same_place(f_["l"], fld) \
                                and ("MAX" in F.pp(f_["r"]) or C.int_lit(f_["r"]) == 0xFFFFFFFF):
                            return "optional string reference, checked only when not the sentinel"
        return None
    # assert_eq!(X.<sec>_offset, total)
    if c.get("k") == "Binary" and c["op"] == "Eq":
        # left_val / right_val are bound by `match (&a, &b)`
        for q in reversed(parents):
            if q.get("k") == "Match":
                sc = F.strip(q["scrut"])
                if sc.get("k") == "Tuple" and len(sc["fields"]) == 2:
                    a_, b_ = FL.peel(sc["fields"][0]), FL.peel(sc["fields"][1])
                    for x, y in ((a_, b_), (b_, a_)):
                        if x.get("k") == "Field" and x["name"].endswith("_offset") and x["name"][:-7] in ("members", "members_by_params") \
                                and _sec_total(y, fam, x["name"][:-7]):
                            return "tiling: %s equals the running total of %s_len" % (x["name"], x["name"][:-7])
                    return None
        return None
    # total as usize <= self.<sec>.len()
    if c.get("k") == "Binary" and c["op"] in ("Le",):
        r_ = FL.peel(c["r"])
        if F.is_call(r_, *C.LEN_CALLS):
            sec = FL.peel(r_["args"][0])
            if sec.get("k") == "Field" and sec["name"] in ("members", "members_by_params") and _sec_total(c["l"], fam, sec["name"]):
                return "tiling: the running total stays inside the %s section" % sec["name"]
        return None
    return None
