"""C08 - typed stack-trace remapping keeps every element and agrees with the text API."""
import facts as F
import anchors as A
import trace_rules as TR
import rules_C02 as R2
import rules_C01 as R1
import sym as S, fc

LEVEL = "other"
TECHNIQUE = R1.TECHNIQUE + "; format-template table agreement; twin comparison as cross-reference"
EXPLANATION = ("Structural necessary conditions in the mapper and the cache: result.exception is Some iff trace.exception is Some, holding the "
               "remapped throwable or else the unchanged one; result.cause is Some iff trace.cause is Some (recursive call on the inner trace, "
               "so the cause-chain depth is preserved); frames come from one fold starting from an empty vector whose body, per frame, "
               "either extends with the remapped frames (non-empty) or pushes the unchanged frame - never neither; Display for StackTrace "
               "uses the same templates as the text API's format_* helpers piecewise and the same Display impls for elements. "
               "Composition (typed print == text output) is a paper argument over these clauses.")
RULE_TEXT = R1.RULE_TEXT
TRUSTED = R1.TRUSTED


def run(ctx, rep):
    fx = ctx.facts("")
    rep.configs.append("default")
    for impl in ("mapper", "cache"):
        TR.check_typed(fx, rep, "C08.1", impl)
    # premise of "every element is remapped or unchanged": what remap_throwable answers (remap_class on the class, the message
    # passed through untouched, None iff the class is unknown), in both implementations
    import lookup_rules as LR
    LR.check_class_lookup(fx, rep, "C08.T")
    TR.check_display_templates(fx, rep, "C08.4")
    TR.check_format_helpers(fx, rep, "C08.4")
    TR.check_element_display(fx, rep, "C08.4")
    # "printing the typed result gives exactly the text API's output": the text API and its line classifiers are the other side
    for impl in ("mapper", "cache"):
        TR.check_text_api(fx, rep, "C08.6", impl)
    TR.check_classifiers(fx, rep, "C08.6")
    import api_rules as AR
    AR.check_throwable_trace_api(fx, rep, "C08.api")
    AR.check_frame_api(fx, rep, "C08.api")
    n = R2.check_twins(fx, rep, "C08.5", only=("remap_stacktrace_typed", "remap_stacktrace", "remap_throwable"))
    rep.floor("C08.5", n, 3, "twin pairs")
    # control: and_then (drops) vs map+fallback (keeps) are different canonical forms
    cx = ctx.controls()
    outs = {}
    for nm in ("ctl_and_then_drops", "ok_map_keeps"):
        bs = [b for p, b in cx.bodies.items() if p.endswith("shapes::" + nm)]
        if bs:
            sy = S.Sym(cx, krates=("pgcontrols",))
            res = sy.eval_body(bs[0])
            def shape(st, v):
                # Some(..) literally, or a term the path conditions say is Some (Some(t!Some) is printed as t)
                if v[0] == "adt" and v[2] == "Some":
                    return "Some"
                if v == S.NONE:
                    return "None"
                at, pol = fc.canon_atom(("is", v, "Some"))
                known = fc.assignment(st.conds).get(at)
                return "Some" if known is not None and (known == pol) else "maybe"
            outs[nm] = sorted(set(shape(st, o[1]) for st, o in res if fc.assignment(st.conds).get(("is", ("in", "x"), "Some")) is True))
    rep.control("C08.1", outs.get("ctl_and_then_drops") not in (None, ["Some"]) and outs.get("ok_map_keeps") == ["Some"],
                "Option-shape analysis separates and_then (may drop) from map+fallback (keeps): %s" % outs)
