"""Reader-side FC rules shared by C01 / C02 / C03: the per-entry decision of the frame iterators
(mapper and cache) against the paired references of refs.py."""
import facts as F
import sym as S
import fc
import refs as R
import anchors as A
import census as C


def iterator_roles(fx, rep, rule, impl):
    """role anchors: the functions called by <RemappedFrameIter as Iterator>::next on the
    parameters.is_none() / is_some() branches. Returns (with_lines_path, without_lines_path)."""
    nexts = A.method(fx, impl + "::RemappedFrameIter", "next", trait="Iterator")
    p = A.one(rep, rule, impl + "::RemappedFrameIter::next", nexts)
    if not p:
        return None, None
    rep.fn(p)
    import parser_rules as PR_
    PR_.check_iterator_overrides(fx, rep, rule, impl + "::RemappedFrameIter", impl + "::RemappedFrameIter")
    sy = S.Sym(fx)
    try:
        res = sy.eval_body(fx.bodies[p])
    except S.Undecidable as e:
        rep.undecidable(rule, "%s/dispatch/%s" % (rule, impl), loc=F.loc(e.node) if isinstance(e.node, dict) else "", construct=e.msg)
        return None, None
    wl = wo = None
    ok = True
    for st, (k, v) in res:
        has_params = None
        for atom, pol in st.conds:
            if atom[0] == "is" and atom[2] == "Some" and atom[1][0] == "field" and atom[1][2] == "parameters":
                has_params = pol
        if v == S.NONE:
            continue
        if v[0] == "mcall" and has_params is not None:
            if has_params:
                wo = v[1] if wo in (None, v[1]) else "ambiguous"
            else:
                wl = v[1] if wl in (None, v[1]) else "ambiguous"
        else:
            ok = False
    good = ok and wl and wo and wl != "ambiguous" and wo != "ambiguous" and wl in fx.bodies and wo in fx.bodies
    rep.check(rule, "%s/dispatch/%s" % (rule, impl), bool(good), loc=F.short_file(fx.bodies[p]["sp"]),
              found="parameters.is_none() -> %s; else -> %s" % (wl, wo),
              expected="next(): None when exhausted/empty; line-based iteration iff frame.parameters is None")
    return (wl, wo) if good else (None, None)


def _through_query(n):
    """does the place expression `n` go through a `&mut StackFrame` (the query stored in the frame iterator)?"""
    n = F.strip(n)
    while True:
        ty = n.get("ty", "")
        if ty.startswith("&mut ") and "StackFrame" in ty and "Option" not in ty and "(" not in ty:
            return True
        k = n.get("k")
        if k in ("Field", "Deref", "Index"):
            n = F.strip(n["e"])
            continue
        return False


def check_query_readonly(fx, rep, rule, impl, paths, key_prefix):
    """the frame iterator keeps the caller's query (`&mut StackFrame` inside RemappedFrameIter) for its whole life: every
    yielded entry is computed from the same query, so nothing may assign to it or hand it out mutably. Checked over the
    iterator's `next` and every local function it reaches with the query."""
    todo, seen, bad, n_fn = list(paths), set(), [], 0
    while todo:
        q = todo.pop()
        if q in seen or q not in fx.bodies:
            continue
        seen.add(q)
        b = fx.bodies[q]
        n_fn += 1
        for n in F.walk(b["body"]):
            k = n.get("k")
            if k in ("Assign", "AssignOp") and _through_query(n["l"]):
                bad.append((n, "assignment to the stored query"))
            if k == "Call" and "fn" in n:
                tgt = fx.by_dp.get(n["fn"].get("dp"))
                for a in n["args"]:
                    a0 = F.strip(a)
                    aty = a0.get("ty", "")
                    passes = aty.startswith("&mut ") and "StackFrame" in aty and "Option" not in aty and "(" not in aty
                    inner = a0.get("k") == "Borrow" and a0.get("mut") and _through_query(a0["e"])
                    if passes or inner:
                        if tgt and tgt in fx.bodies and fx.bodies[tgt]["krate"] == "proguard":
                            todo.append(tgt)
                        elif not n["fn"]["path"].startswith(("core::", "std::", "alloc::")) or inner or \
                                n["fn"]["path"].split("::")[-1] in ("swap", "replace", "take", "clone_from", "write"):
                            bad.append((n, "query handed mutably to %s" % n["fn"]["path"]))
    for n, what in bad[:4]:
        rep.violation(rule, "%s/query-readonly/%s/%s" % (key_prefix, impl, F.pp(n)[:50]), loc=F.loc(n), found=what,
                      expected="the query frame stored in the iterator is only read: every entry of one remap_frame call is computed from the same class, line, file and parameters")
    if not bad:
        rep.ok(rule, "%s/query-readonly/%s" % (key_prefix, impl), found="%d function(s) reached with the stored query; none assigns to it or hands it out mutably" % n_fn)
    return n_fn


def check_with_lines(fx, rep, rule, impl, path, key_prefix):
    """C01.R1-R4 (+ loop tail): every iteration of the with-lines loop equals the reference."""
    b = fx.bodies[path]
    rep.fn(path)
    # role anchor: the local helper(s) `fn(&str) -> Option<&str>` called from this function (the outer-simple-name helper)
    helpers = str_helpers(fx, b)
    extract_fn = S.short_path(helpers[0]) if len(helpers) == 1 else "?"
    sy = S.Sym(fx, opaque=lambda q: q in helpers)
    try:
        res = sy.eval_body(b)
    except S.Undecidable as e:
        rep.undecidable(rule, "%s/shape/%s" % (key_prefix, impl), loc=F.loc(e.node) if isinstance(e.node, dict) else "", construct=e.msg)
        return
    fm = None
    if len(sy.loop_order) == 0 and len(res) == 1 and not res[0][0].conds:
        # `members.find_map(|member| ...)`: None = skip this entry, Some(frame) = emit; exhausted -> None (std semantics)
        v0 = res[0][1][1]
        if v0[0] in ("mcall", "call") and v0[1].endswith("Iterator::find_map") and len(v0[2]) == 2 and v0[2][1][0] == "closure":
            fm = v0
    fnd = None
    if len(sy.loop_order) == 0 and fm is None:
        # `let member = members.find(|m| <covers the line>)?; Some(<frame from member>)`: rejected entries are skipped, the first
        # accepted one is used, exhausted -> None. (Only sound when everything after the find is infallible: a later `?`/None would
        # END the answer here where the loop form `continue`s - such paths are reported below as a value that is not a frame.)
        finds = {e[:3] for st_, o_ in res for e in st_.effects if e[0] == "call" and e[1].endswith("Iterator::find") and len(e[2]) == 2
                 and e[2][0][0] in ("place", "in") and e[2][1][0] == "closure"}
        if len({(e[1], e[2][0], e[2][1][1]) for e in finds}) == 1:
            fnd = sorted(finds, key=repr)[0]
    if len(sy.loop_order) != 1 and fm is None and fnd is None:
        rep.undecidable(rule, "%s/shape/%s" % (key_prefix, impl), loc=F.short_file(b["sp"]),
                        construct="%d loops in the with-lines iterator (expected exactly one)" % len(sy.loop_order))
        return
    if fm is not None:
        try:
            cpaths = sy.apply(fm[2][1], [R.ELEM], S.St(), {"sp": "?"})
        except S.Undecidable as e:
            rep.undecidable(rule, "%s/shape/%s" % (key_prefix, impl), loc="", construct=e.msg)
            return
        lp = []
        for st_, (k_, v_) in cpaths:
            st2 = st_.copy()
            st2.conds = ((("is", R.NEXT, "Some"), True),) + tuple(st_.conds)
            if v_ == S.NONE:
                lp.append((st2, (S.CONT, S.UNIT)))
            else:
                lp.append((st2, (S.RET, v_)))
        endst = S.St()
        endst.conds = ((("is", R.NEXT, "Some"), False),)
        lp.append((endst, (S.BRK, S.UNIT)))
        L = dict(paths=lp, entry=S.St(), node=b["body"], index=0, pre=None, find_map=fm)
        res = [(S.St(), (S.VAL, S.NONE))]       # after exhaustion find_map yields None
    elif fnd is not None:
        try:
            pp = sy.apply(fnd[2][1], [R.ELEM], S.St(), {"sp": "?"})
        except S.Undecidable as e:
            rep.undecidable(rule, "%s/shape/%s" % (key_prefix, impl), loc="", construct=e.msg)
            return
        some_c = (("is", R.NEXT, "Some"), True)
        lp = []
        tails = []

        def is_find(t):
            return t[0] == "mcall" and t[1].endswith("Iterator::find") and t[2] == fnd[2]

        def rwf(t):
            if t[0] == "payload" and t[2] == "Some" and is_find(t[1]):
                return R.ELEM
            return None
        verdicts = []
        for pst, (pk, pv) in pp:
            if pst.effects:
                rep.undecidable(rule, "%s/shape/%s" % (key_prefix, impl), loc=F.short_file(b["sp"]), construct="find predicate with effects")
                return
            if pv in (S.TRUE, S.FALSE):
                verdicts.append((tuple(pst.conds), pv == S.TRUE))
            else:
                at = pv if pv[0] in ("bool", "eq", "lt", "is", "empty", "not") else ("bool", pv)
                verdicts.append((tuple(pst.conds) + ((at, True),), True))
                verdicts.append((tuple(pst.conds) + ((at, False),), False))
        for pconds, keep in verdicts:
            if not keep:
                st2 = S.St(conds=(some_c,) + pconds)
                lp.append((st2, (S.CONT, S.UNIT)))
        for st_, (k_, v_) in res:
            fa = [(a_, p_) for a_, p_ in st_.conds if a_[0] == "is" and a_[2] == "Some" and is_find(a_[1])]
            rest = tuple((fc.rewrite(a_, rwf), p_) for a_, p_ in st_.conds if not (a_[0] == "is" and a_[2] == "Some" and is_find(a_[1])))
            if fa and fa[0][1]:
                for pconds, keep in verdicts:
                    if keep:
                        st2 = S.St(conds=(some_c,) + pconds + rest)
                        lp.append((st2, (S.RET, fc.rewrite(v_, rwf))))
            else:
                tails.append((S.St(conds=rest), (S.VAL, v_)))
        lp.append((S.St(conds=((("is", R.NEXT, "Some"), False),)), (S.BRK, S.UNIT)))
        L = dict(paths=lp, entry=S.St(), node=b["body"], index=0, pre=None, find_map=fnd)
        res = tails
    else:
        L = sy.loops[sy.loop_order[0]]
        L = unfold_filter_driver(sy, L)
    # parameter names: frame is the StackFrame-typed parameter, cache the ProguardCache-typed one
    frame = cache = None
    for prm in b["params"]:
        if prm.get("pat") and prm["pat"]["k"] == "Bind":
            if "StackFrame" in prm["ty"]:
                frame = ("in", prm["pat"]["name"])
            if "ProguardCache" in prm["ty"]:
                cache = ("in", prm["pat"]["name"])
    enc = R.MapperEnc(extract_fn, frame) if impl == "mapper" else R.CacheEnc(extract_fn, frame, cache)
    ref = R.ref_with_lines(enc)
    base = len(L["entry"].conds)

    def outcome(st, out):
        k, v = out
        if k == S.CONT:
            return ("skip",)
        if k == S.BRK:
            return ("end",)
        if k == S.RET:
            return R.frame_outcome(fc.rewrite(v, R.rw_iter))
        return ("other", k)
    bad, ncmp = fc.compare_paths(L["paths"], ref, outcome, rw=R.rw_iter, axioms=enc.axioms, base=base)
    atoms = fc.atoms_of(L["paths"], base, R.rw_iter)
    rep.context.setdefault("fc", {})["%s/%s" % (key_prefix, impl)] = dict(paths=len(L["paths"]), atoms=len(atoms), comparisons=ncmp)
    if not bad:
        rep.ok(rule, "%s/entry-decision/%s" % (key_prefix, impl), loc=F.loc(L["node"]),
               found="%d canonical paths over %d atoms all equal the reference (range filter, line formula, file rule, class rule)"
                     % (len(L["paths"]), len(atoms)))
    else:
        for conds, impl_o, ref_o, comp in bad[:4]:
            what = diff_outcome(impl_o, ref_o)
            rep.violation(rule, "%s/entry-decision/%s/%s" % (key_prefix, impl, what[0]), loc=F.loc(L["node"]),
                          found="when %s [%s]: %s" % (S.cstr(tuple((fc.rewrite(a, R.rw_iter), p) for a, p in conds)),
                                                      ", ".join("%s=%s" % (S.tstr(k), v) for k, v in comp.items()), what[1]),
                          expected=what[2])
    # after the loop: the iterator is exhausted -> None
    tails = [(st, out) for st, out in res if not any(e[0] == "inloop" for e in st.effects)]
    tail_ok = tails and all(out == (S.VAL, S.NONE) for st, out in tails)
    rep.check(rule, "%s/exhausted-none/%s" % (key_prefix, impl), bool(tail_ok), loc=F.short_file(b["sp"]),
              found=[S.tstr(out[1]) for st, out in tails], expected="None after the last entry", nontrivial=False)
    # the loop is driven by the member iterator parameter, un-adapted
    drv = L["driver"] if "driver" in L else (driver_of_loop(L) if not L.get("find_map") else L["find_map"][2][0])
    params = {prm["pat"]["name"] for prm in b["params"] if prm.get("pat") and prm["pat"]["k"] == "Bind"}
    drv_ok = drv is not None and ((drv[0] == "in" and drv[1] in params) or (drv[0] == "place" and drv[1] in params and not drv[2]))
    rep.check(rule, "%s/driver/%s" % (key_prefix, impl), drv_ok, loc=F.loc(L["node"]),
              found="loop iterates %s" % (S.tstr(drv) if drv else "?"),
              expected="the loop consumes the member iterator parameter directly (no adaptor)")


def str_helpers(fx, b):
    out = []
    nodes = list(F.walk(b["body"]))
    for cb in fx.closures_of(b["path"]):
        nodes += list(F.walk(cb["body"]))
    # ... and the private, loop-free helpers this function delegates to (e.g. an extracted `remapped_file(member, frame)`)
    seen_h = set()
    todo = list(nodes)
    while todo:
        n0 = todo.pop()
        if n0.get("k") == "Call" and "fn" in n0:
            t0 = fx.by_dp.get(n0["fn"].get("dp"))
            if t0 and t0 in fx.bodies and t0 not in seen_h and fx.bodies[t0]["krate"] == "proguard" and fx.bodies[t0]["kind"] in ("Fn", "AssocFn") \
                    and not fx.bodies[t0].get("reachable_pub") and not S.has_loop(fx.bodies[t0]) and len(seen_h) < 6:
                tb0 = fx.bodies[t0]
                is_role = len(tb0.get("inputs", [])) == 1 and "str" in tb0["inputs"][0] and tb0.get("output", "").startswith("std::option::Option<&")
                if not is_role:
                    seen_h.add(t0)
                    extra = list(F.walk(tb0["body"]))
                    nodes += extra
                    todo += extra
    for n in nodes:
        if n.get("k") == "Call" and "fn" in n:
            tgt = fx.by_dp.get(n["fn"].get("dp"))
            if tgt and tgt in fx.bodies and fx.bodies[tgt]["kind"] == "Fn" and fx.bodies[tgt]["krate"] == "proguard":
                tb = fx.bodies[tgt]
                if len(tb.get("inputs", [])) == 1 and tb["inputs"][0].replace("'_ ", "").startswith("&") and "str" in tb["inputs"][0] \
                        and tb.get("output", "").startswith("std::option::Option<&") and tgt not in out:
                    out.append(tgt)
    return out


def driver_of_loop(L):
    """the value (before the loop) of the iterator variable the loop calls next() on"""
    for n in F.walk(L["node"]["body"]):
        if F.is_call(n, "std::iter::Iterator::next"):
            v = F.strip(n["args"][0])
            if v.get("k") in ("Var", "Upvar"):
                return L["pre"].env.get(v["id"])
            return None
    return None


def unfold_filter_driver(sy, L):
    """`for x in it.filter(|x| p(x)) { body }` is `for x in it { if !p(x) { continue } body }`: returns a loop record whose paths
    carry the predicate's conditions (rejected elements are `continue` paths) and whose driver is `it`; L itself if the driver is
    not a filter. The predicate must be effect-free."""
    drv = driver_of_loop(L)
    if not (drv is not None and drv[0] in ("call", "mcall") and drv[1].endswith("Iterator::filter") and len(drv[2]) == 2 and drv[2][1][0] == "closure"):
        return L
    nxt = None
    for st, o in L["paths"]:
        for a, p in st.conds:
            if a[0] == "is" and a[2] == "Some" and a[1][0] == "mcall" and R.is_next(a[1][1]):
                nxt = a[1]
    if nxt is None:
        return L
    elem = S.mk_payload(nxt, "Some", "0")
    try:
        pp = sy.apply(drv[2][1], [elem], S.St(), {"sp": "?"})
    except S.Undecidable:
        return L
    if any(st.effects for st, o in pp):
        return L
    base = len(L["entry"].conds)
    paths = []
    for st, (k, v) in L["paths"]:
        extra = st.conds[base:]
        has_some = any(a == ("is", nxt, "Some") and p for a, p in extra)
        if not has_some:
            paths.append((st, (k, v)))
            continue
        some_i = [i for i, (a, p) in enumerate(extra) if a == ("is", nxt, "Some")][0]
        for pst, (pk, pv) in pp:
            if pv == S.TRUE or pv == S.FALSE:
                verdicts = [(pst.conds, pv == S.TRUE)]
            else:
                verdicts = [(pst.conds + ((pv if pv[0] in ("bool", "eq", "lt", "is", "empty", "not") else ("bool", pv), True),), True),
                            (pst.conds + ((pv if pv[0] in ("bool", "eq", "lt", "is", "empty", "not") else ("bool", pv), False),), False)]
            for pconds, keep in verdicts:
                st2 = st.copy()
                st2.conds = st.conds[:base] + extra[:some_i + 1] + tuple(pconds) + (extra[some_i + 1:] if keep else ())
                if keep:
                    paths.append((st2, (k, v)))
                else:
                    st2.effects = tuple(e for e in st.effects if e[0] == "call" and R.is_next(e[1]))
                    paths.append((st2, (S.CONT, S.UNIT)))
    L2 = dict(L)
    L2["paths"] = paths
    L2["driver"] = drv[2][0]
    return L2


def first_iteration_flags(sy, L):
    """loop-carried bool variables that are a constant b before the loop and the constant !b at the end of every iteration that
    continues: inside the body, `flag == b` holds exactly in the first iteration. Returns [(loop term, b)]."""
    out = []
    for vid, t in L["entry"].env.items():
        if not (isinstance(t, tuple) and t[:1] == ("loop",) and t[2] == L["index"]):
            continue
        pre = L["pre"].env.get(vid)
        if pre not in (S.TRUE, S.FALSE):
            continue
        want = S.FALSE if pre == S.TRUE else S.TRUE
        conts = [st for st, (k, v) in L["paths"] if k == S.CONT]
        if conts and all(st.env.get(vid) == want for st in conts):
            out.append((t, pre == S.TRUE))
    return out


def diff_outcome(impl_o, ref_o):
    if impl_o[0] != ref_o[0]:
        return (impl_o[0] + "-vs-" + ref_o[0], "implementation does `%s`" % render(impl_o), "reference does `%s`" % render(ref_o))
    for a, b in zip(impl_o[1:], ref_o[1:]):
        if a != b:
            return (a[0], "%s = %s" % (a[0], S.tstr(a[1]) if a[1] is not None else None),
                    "%s = %s" % (b[0], S.tstr(b[1]) if b[1] is not None else None))
    return ("?", render(impl_o), render(ref_o))


def render(o):
    if o[0] == "emit":
        return "emit(" + ", ".join("%s=%s" % (k, S.tstr(v) if v is not None else None) for k, v in o[1:]) + ")"
    return str(o[0]) if len(o) == 1 else "%s %s" % (o[0], S.tstr(o[1]))


def check_without_lines(fx, rep, rule, impl, path, key_prefix):
    b = fx.bodies[path]
    rep.fn(path)
    sy = S.Sym(fx)
    try:
        res = sy.eval_body(b)
    except S.Undecidable as e:
        rep.undecidable(rule, "%s/shape/%s" % (key_prefix, impl), loc=F.loc(e.node) if isinstance(e.node, dict) else "", construct=e.msg)
        return
    if sy.loop_order:
        rep.undecidable(rule, "%s/shape/%s" % (key_prefix, impl), loc=F.short_file(b["sp"]),
                        construct="loop in the no-lines iterator (one entry per call expected)")
        return
    frame = cache = None
    for prm in b["params"]:
        if prm.get("pat") and prm["pat"]["k"] == "Bind":
            if "StackFrame" in prm["ty"]:
                frame = ("in", prm["pat"]["name"])
            if "ProguardCache" in prm["ty"]:
                cache = ("in", prm["pat"]["name"])
    enc = R.MapperEnc("?", frame) if impl == "mapper" else R.CacheEnc("?", frame, cache)
    ref = R.ref_without_lines(enc)

    def outcome(st, out):
        return R.frame_outcome(fc.rewrite(out[1], R.rw_iter))
    bad, ncmp = fc.compare_paths(res, ref, outcome, rw=R.rw_iter, axioms=enc.axioms)
    # exactly one next() per path
    n_next = [sum(1 for e in st.effects if e[0] == "call" and e[1].endswith("Iterator::next")) for st, _ in res]
    if not bad and all(x == 1 for x in n_next):
        rep.ok(rule, "%s/entry-decision/%s" % (key_prefix, impl), loc=F.short_file(b["sp"]),
               found="%d canonical paths equal the reference (class rule, method, file=None, line=0, one entry per call)" % len(res))
    else:
        for conds, impl_o, ref_o, comp in bad[:4]:
            what = diff_outcome(impl_o, ref_o)
            rep.violation(rule, "%s/entry-decision/%s/%s" % (key_prefix, impl, what[0]), loc=F.short_file(b["sp"]),
                          found="when %s: %s" % (S.cstr(tuple((fc.rewrite(a, R.rw_iter), p) for a, p in conds)), what[1]),
                          expected=what[2])
        if not all(x == 1 for x in n_next):
            rep.violation(rule, "%s/entries-per-call/%s" % (key_prefix, impl), loc=F.short_file(b["sp"]),
                          found="next() calls per path: %s" % sorted(set(n_next)), expected="exactly one entry consumed per call")
