"""Comparison of canonicalised fragments (sym.py paths) with hand-written reference decision
structures. A reference is a Python function ref(o) -> outcome, where o(atom) -> bool is an
oracle over canonical atoms; the comparator enumerates every completion of the atoms the
implementation path leaves open (propositional equivalence over opaque atoms - no solver)."""
import sym as S


class Need(Exception):
    def __init__(self, atom):
        self.atom = atom


def rewrite(t, f):
    """bottom-up term rewriting; f(term) -> replacement or None"""
    if not isinstance(t, tuple):
        return t
    new = tuple(rewrite(x, f) if isinstance(x, tuple) else x for x in t)
    if not new or not isinstance(new[0], str):
        return new
    if new[0] == "lin":
        new = S.lin_norm(list(new[1]), new[2])
    r = f(new)
    return r if r is not None else new


def canon_atom(atom):
    """(atom, polarity) after simplification; atom may collapse to True/False"""
    pol = True
    while True:
        r = S.simplify_atom(atom)
        if r is True or r is False:
            return r, pol
        if r[0] == "not":
            atom, pol = r[1], not pol
            continue
        return r, pol


def assignment(conds, rw=None):
    a = {}
    for atom, pol in conds:
        if rw:
            atom = rewrite(atom, rw)
        at, p = canon_atom(atom)
        if at is True or at is False:
            continue
        a[at] = (pol == p)
    return a


def ref_outcomes(ref, assign, axioms=None, limit=4096):
    """all outcomes the reference can produce under assignments extending `assign` (only atoms
    the reference actually asks about are completed). axioms(assign) -> False prunes impossible
    completions."""
    outs = []
    todo = [dict(assign)]
    n = 0
    while todo:
        a = todo.pop()
        n += 1
        if n > limit:
            raise S.Undecidable({}, "reference comparison exceeded %d completions" % limit)
        if axioms is not None and axioms(a) is False:
            continue

        def oracle(atom, a=a):
            at, p = canon_atom(atom)
            if at is True or at is False:
                return at == p if p else (not at)
            if at not in a:
                d = derive(at, a)
                if d is None:
                    raise Need(at)
                a[at] = d
            return a[at] if p else (not a[at])
        try:
            outs.append((a, ref(oracle)))
        except Need as need:
            for v in (True, False):
                b = dict(a)
                b[need.atom] = v
                if consistent(b):
                    todo.append(b)
    return outs


def derive(at, a):
    """truth of an atom that follows from the assignment although it is not literally in it:
    Some(x) == y   <=>   y is Some  and  x == y!Some      (either orientation of the equalities)"""
    if at[0] == "eq":
        for l, r in ((at[1], at[2]), (at[2], at[1])):
            if l[0] == "adt" and l[1] == "Option" and l[2] == "Some" and r[0] != "adt":
                x = l[3][0][1]
                is_some = a.get(("is", r, "Some"))
                if is_some is False:
                    return False
                if is_some is True:
                    pay = S.mk_payload(r, "Some", "0")
                    for cand in (("eq", x, pay), ("eq", pay, x)):
                        c, pol = canon_atom(cand)
                        if c in a:
                            return a[c] if pol else (not a[c])
    return None


def consistent(a):
    """syntactic consistency: one variant / one literal per term; lt antisymmetry"""
    isv = {}
    eqs = {}
    for at, v in a.items():
        if at[0] == "is" and v:
            if isv.setdefault(at[1], at[2]) != at[2]:
                return False
        if at[0] == "eq" and v and at[2][0] == "lit":
            if eqs.setdefault(at[1], at[2]) != at[2]:
                return False
        if at[0] == "lt" and v and a.get(("lt", at[2], at[1])):
            return False
    return True


def compare_paths(paths, ref, outcome_of, rw=None, axioms=None, base=0):
    """for every implementation path: the reference, under every completion consistent with the
    path's conditions, must produce the path's outcome. Returns list of mismatches:
    (path_conds, impl_outcome, ref_outcome, completion)."""
    bad = []
    n_cmp = 0
    for st, out in paths:
        conds = st.conds[base:]
        a = assignment(conds, rw)
        if not consistent(a):
            continue
        if axioms is not None and axioms(a) is False:
            continue
        impl = outcome_of(st, out)
        for comp, r in ref_outcomes(ref, a, axioms):
            n_cmp += 1
            if r != impl:
                bad.append((conds, impl, r, {k: v for k, v in comp.items() if k not in a}))
                break
    return bad, n_cmp


def atoms_of(paths, base=0, rw=None):
    s = set()
    for st, _ in paths:
        for atom, pol in st.conds[base:]:
            if rw:
                atom = rewrite(atom, rw)
            at, p = canon_atom(atom)
            if at not in (True, False):
                s.add(at)
    return s
