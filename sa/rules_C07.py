"""C07 - text trace remapping rewrites known lines and passes everything else through."""
import facts as F
import anchors as A
import trace_rules as TR
import rules_C02 as R2
import rules_C01 as R1

LEVEL = "other"
TECHNIQUE = R1.TECHNIQUE + "; result-discipline (must-propagate) rule; twin comparison as cross-reference"
EXPLANATION = ("Structural clauses for remap_stacktrace in the mapper and the cache: per-line classification order (first line: throwable, "
               "else frame, else verbatim; later lines: frame, else 'Caused by: '+throwable, else verbatim) equals the reference on every "
               "canonical path; every path through the per-line body performs exactly one output operation built from the line or its "
               "remap; the format helpers fall back to the input line when nothing was remapped and print one indented line per remapped "
               "frame; a single input.lines() iterator is consumed by one next() and one for loop with no adaptor; Ok(output) is the only "
               "non-error return and every fmt::Result is propagated. the two line classifiers are the documented decision structures (delimiters and split "
               "directions: last '.', first '(', first ':', first \": \"). NOT decided: the string languages std's trim/split/parse accept and "
               "str::lines terminator normalisation.")
RULE_TEXT = R1.RULE_TEXT
TRUSTED = R1.TRUSTED + ["fmt::Write for String is infallible"]


def run(ctx, rep):
    fx = ctx.facts("")
    rep.configs.append("default")
    for impl in ("mapper", "cache"):
        TR.check_text_api(fx, rep, "C07.1", impl)
    # premise of "a line that cannot be remapped is passed through": what remap_frame answers for a parsed frame line is the
    # per-entry decision of the frame iterators (range filter included), in both implementations
    import readers as RD
    for impl in ("mapper", "cache"):
        wl, wo = RD.iterator_roles(fx, rep, "C07.R", impl)
        if wl:
            RD.check_with_lines(fx, rep, "C07.R", impl, wl, "C07.R")
    # premise of "a throwable / cause line of a known class is rewritten": remap_throwable is remap_class on the class, the message
    # passed through, None iff the class is unknown - and remap_class the exact lookup (both implementations)
    import lookup_rules as LR
    LR.check_class_lookup(fx, rep, "C07.T")
    TR.check_format_helpers(fx, rep, "C07.2")
    TR.check_display_templates(fx, rep, "C07.4")
    TR.check_classifiers(fx, rep, "C07.6")
    TR.check_element_display(fx, rep, "C07.4")
    import api_rules as AR
    AR.check_throwable_trace_api(fx, rep, "C07.api")
    n = R2.check_twins(fx, rep, "C07.5", only=("remap_stacktrace", "remap_throwable"))
    rep.floor("C07.5", n, 2, "twin pairs")
