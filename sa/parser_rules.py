"""SEQ/FC rules for the mapping parser (C05, C06): grammar skeletons with cursor threading,
combinator shapes (suffix property), byte-set predicates, capture wiring."""
import facts as F
import sym as S
import fc
import refs as R
import anchors as A
import rules_C01 as R1
import models as M
from sym import some, NONE, lit_int, mk_field, mk_payload, ok, err

MOD = "proguard::mapping::"
COMB = ("parse_prefix", "parse_usize", "parse_until", "parse_until_no_newline", "consume_leading_newlines", "split_line", "is_newline")
NL = frozenset({10, 13})


def call(name, *args):
    return ("call", name, tuple(args))


_FX = None


def use(fx):
    global _FX
    _FX = fx


def rp(name):
    """actual path of the private parser function in the role `name` (by name, else by signature/structure)"""
    r = A.func(_FX, "mapping", name) if _FX is not None else []
    return r[0] if len(r) == 1 else MOD + name


def role_of(path):
    for n in COMB + ("parse_proguard_header", "parse_proguard_field_or_method", "parse_proguard_class", "parse_proguard_record"):
        if rp(n) == path:
            return n
    return path.replace(MOD, "")


def opq(q):
    return q in {rp(n) for n in COMB}


def ev(fx, rep, rule, key, path, opaque=None, through_mut=False):
    opaque = opaque or opq
    rep.fn(path)
    sy = S.Sym(fx, opaque=opaque, inline_mut=through_mut, thread_places=through_mut)
    try:
        res = sy.eval_body(fx.bodies[path])
        if not through_mut and any(e_[0] == "call" and e_[1].startswith("proguard::") for st_, o_ in res for e_ in st_.effects):
            # the cursor is an object with `&mut self` steps (`line.expect(b":")?`): evaluated through, with the cursor's value threaded
            sy = S.Sym(fx, opaque=opaque, inline_mut=True, thread_places=True)
            res = sy.eval_body(fx.bodies[path])
        return sy, res
    except S.Undecidable as e:
        rep.undecidable(rule, key + "/shape", loc=F.loc(e.node) if isinstance(e.node, dict) else "", construct=e.msg)
        return None, None


# ---- predicates -> byte sets ---------------------------------------------------------------------------------------
def byteset(fx, sy, fval, depth=0):
    """canonical byte set of a predicate closure / fn: returns (frozenset, extra) where extra lists
    opaque sub-predicates (e.g. the generic `predicate` parameter); None if not recognised"""
    try:
        paths = sy.apply(fval, [("bound", 0)], S.St(), {"sp": "?"})
    except S.Undecidable:
        return None
    bs = set()
    extra = set()
    for st, (k, v) in paths:
        if v not in (S.TRUE, S.FALSE):
            # a single-term predicate (e.g. `*c == b' '` or `is_newline(c)`)
            r = term_set(fx, sy, v, depth)
            if r is None:
                return None
            bs |= r[0]
            extra |= r[1]
            continue
        pos = [a for a, pol in st.conds if pol]
        neg = [a for a, pol in st.conds if not pol]
        if v == S.TRUE:
            if len(pos) != 1:
                return None
            r = term_set(fx, sy, pos[0], depth)
            if r is None:
                return None
            bs |= r[0]
            extra |= r[1]
        else:
            if pos:
                return None
    return frozenset(bs), frozenset(extra)


def term_set(fx, sy, t, depth):
    if t[0] == "eq" and t[1][0] == "adt" and t[2][0] == "adt" and t[1][1] == t[2][1] == "Option" and t[1][2] == t[2][2] == "Some" \
            and len(t[1][3]) == len(t[2][3]) == 1:
        # `Some(c) == terminator.first()` with a known, non-empty terminator: equality of the payloads
        return term_set(fx, sy, ("eq", t[1][3][0][1], t[2][3][0][1]), depth)
    if t[0] == "eq" and t[2] == ("bound", 0) and t[1] != ("bound", 0):
        return term_set(fx, sy, ("eq", t[2], t[1]), depth)
    if t[0] == "eq" and t[1] == ("bound", 0) and t[2][0] == "index" and t[2][2][0] == "lit" and t[2][2][1] == "int" \
            and lit_bytes(t[2][1]) is not None and 0 <= t[2][2][2] < len(lit_bytes(t[2][1])):
        return {lit_bytes(t[2][1])[t[2][2][2]]}, set()       # the k-th byte of a literal
    if t[0] == "eq" and t[1] == ("bound", 0) and t[2][0] == "lit" and t[2][1] == "int":
        return {t[2][2]}, set()
    if t[0] == "bool":
        return term_set(fx, sy, t[1], depth)
    if t[0] == "call" and t[1] == rp("is_newline") and t[2] == (("bound", 0),):
        return set(NL), set()
    if t[0] == "call" and t[1] == "std::ops::Fn::call" and t[2][1] == ("tuple", (("bound", 0),)):
        return set(), {S.tstr(t[2][0])}
    if t[0] == "apply" and t[2] == (("bound", 0),):
        return set(), {S.tstr(t[1])}
    # `delimiters.contains(byte)`: a byte set given as a slice - a literal, or the caller's (a parameter)
    if t[0] == "call" and t[1].endswith("slice::contains") and len(t[2]) == 2 and t[2][1] == ("bound", 0):
        lb = lit_bytes(t[2][0])
        if lb is not None:
            return set(lb), set()
        if t[2][0][0] == "in":
            return set(), {S.tstr(t[2][0])}
    return None


def is_newline_set(fx, rep, rule):
    use(fx)
    p = A.one(rep, rule, "mapping::is_newline", A.func(fx, "mapping", "is_newline"))
    if not p:
        return False
    sy = S.Sym(fx)
    r = byteset(fx, sy, ("fnref", p, fx.bodies[p]["dp"]))
    good = r is not None and r[0] == NL and not r[1]
    rep.check(rule, "%s/is_newline" % rule, good, loc=F.short_file(fx.bodies[p]["sp"]), found="is_newline accepts %s" % (sorted(r[0]) if r else "?"),
              expected="{\\r, \\n}")
    return good


# ---- combinator shapes (C06.2a suffix property, C05.6) ---------------------------------------------------------------
def check_combinators(fx, rep, rule):
    use(fx)
    b_ = ("in", "bytes")
    ok_all = True

    def EE(v):
        # what a private parser puts *into* its Err is not observable: the dispatcher answers every failure with its own error (line
        # cut by split_line, fixed kind) - pinned by the dispatch rule, which would see a propagated payload as a different outcome
        return ("adt", "Result", "Err", (("0", ("any-error",)),)) if (isinstance(v, tuple) and v[:3] == ("adt", "Result", "Err")) else v

    def cmp(name, ref, what, params=None, opaque=opq, outcome=None):
        nonlocal ok_all
        p = A.one(rep, rule, "mapping::" + name, A.func(fx, "mapping", name))
        if not p:
            ok_all = False
            return None
        sy, res = ev(fx, rep, rule, "%s/%s" % (rule, name), p, opaque)
        if res is None:
            ok_all = False
            return None
        oc_ = outcome or (lambda st, out: out[1])
        bad, n = fc.compare_paths(res, lambda o: EE(ref(o)), lambda st, out: EE(oc_(st, out)))
        R1.report_cmp(rep, rule, "%s/%s" % (rule, name), fx.bodies[p], res, bad, what)
        ok_all = ok_all and not bad
        return sy, res

    ERRK = ("adt", "ParseErrorKind", "ParseError", (("0", ("lit", "str", "line is not a valid proguard record")),))

    def perr(line, kind):
        return err(("adt", "ParseError", "ParseError", (("line", line), ("kind", kind))))
    # parse_prefix
    pre = ("in", "prefix")
    sp_ = call("core::slice::strip_prefix", b_, pre)
    cmp("parse_prefix", lambda o: ok(mk_payload(sp_, "Some", "0")) if o(("is", sp_, "Some")) else perr(b_, ERRK),
        "Ok(rest after the literal) iff the cursor starts with it; rest is a suffix of the cursor")
    # parse_until
    pred = ("in", "predicate")
    pos = call("std::iter::Iterator::position", call("core::slice::iter", b_), pred)

    def ref_until(o, pos=pos, conv=None):
        if o(("is", pos, "Some")):
            sp2 = call("core::slice::split_at", b_, mk_payload(pos, "Some", "0"))
            sl, rest = mk_field(sp2, "0"), mk_field(sp2, "1")
        else:
            sl, rest = b_, ("array", ())
        u = call("std::str::from_utf8", sl)
        if not o(("is", u, "Ok")):
            return perr(sl, ("adt", "ParseErrorKind", "Utf8Error", (("0", mk_payload(u, "Err", "0")),)))
        s_ = mk_payload(u, "Ok", "0")
        if conv is None:
            return ok(("tuple", (s_, rest)))
        pv = call("core::str::parse::<usize>", s_)
        if not o(("is", pv, "Ok")):
            return perr(sl, ERRK)
        return ok(("tuple", (mk_payload(pv, "Ok", "0"), rest)))
    cmp("parse_until", ref_until, "slice = maximal prefix without a predicate byte (UTF-8 checked), rest = the remaining suffix")
    # parse_usize: digits = maximal prefix of bytes that are `numeric`
    r = cmp("parse_usize", None, "") if False else None
    pu = A.func(fx, "mapping", "parse_usize")
    if len(pu) == 1:
        sy, res = ev(fx, rep, rule, "%s/parse_usize" % rule, pu[0])
        if res is not None and any(len(t) > 2 and t[0] == "call" and t[1] == rp("parse_until") for st, (k, v) in res for src in [v] + [a for a, _ in st.conds] for t in subterms_of(src)):
            # the digit run taken with the generic scan combinator: judged with that combinator's own body in place of the call
            sy, res = ev(fx, rep, rule, "%s/parse_usize" % rule, pu[0], opaque=lambda q: opq(q) and q != rp("parse_until"))
        if res is not None:
            clos = set()

            def g(t):
                if t[0] == "closure":
                    clos.add(t)
                # the digit predicate as a named private function (`fn ends_number(b: &u8) -> bool`)
                if t[0] == "fnref" and t[1] in fx.bodies and fx.bodies[t[1]]["krate"] == "proguard" and role_of(t[1]) not in COMB \
                        and len(fx.bodies[t[1]].get("params") or []) == 1 and (fx.bodies[t[1]].get("output") or fx.bodies[t[1]].get("ret") or "bool") == "bool":
                    clos.add(t)
                return None
            for st, (k, v) in res:
                fc.rewrite(v, g)
                for a, pol in st.conds:
                    fc.rewrite(a, g)
            if len(clos) == 1:
                clo = list(clos)[0]
                pos2 = call("std::iter::Iterator::position", call("core::slice::iter", b_), clo)
                bad, n = fc.compare_paths(res, lambda o: EE(ref_until(o, pos2, True)), lambda st, out: EE(out[1]))
                R1.report_cmp(rep, rule, "%s/parse_usize" % rule, fx.bodies[pu[0]], res, bad,
                              "digit run = maximal prefix under the digit predicate, then from_utf8 and str::parse::<usize>, both failures -> Err; rest is the suffix")
                t = M.closure_term(sy, clo, 1, S.St(), {"sp": "?"})
                want = ("not", call("std::char::methods::is_numeric", ("bound", 0)))
                rep.check(rule, "%s/parse_usize/digit-predicate" % rule, t == want, loc=F.short_file(fx.bodies[pu[0]]["sp"]),
                          found="stop predicate |c| %s" % S.tstr(t), expected="|c| !(*c as char).is_numeric()")
                ok_all = ok_all and not bad
            else:
                rep.undecidable(rule, "%s/parse_usize/shape" % rule, loc=F.short_file(fx.bodies[pu[0]]["sp"]), construct="%d closures" % len(clos))
                ok_all = False
    # consume_leading_newlines
    cl = A.func(fx, "mapping", "consume_leading_newlines")
    if len(cl) == 1:
        sy, res = ev(fx, rep, rule, "%s/consume_leading_newlines" % rule, cl[0])
        if res is not None:
            clos = set()

            def g2(t):
                if t[0] == "closure":
                    clos.add(t)
                return None
            for st, (k, v) in res:
                fc.rewrite(v, g2)
                for a, pol in st.conds:
                    fc.rewrite(a, g2)
            good = False
            if len(clos) == 1:
                clo = list(clos)[0]
                pos3 = call("std::iter::Iterator::position", call("core::slice::iter", b_), clo)

                def refc(o):
                    if o(("is", pos3, "Some")):
                        return call("std::ops::Index::index", b_, ("adt", "RangeFrom", "RangeFrom", (("start", mk_payload(pos3, "Some", "0")),)))
                    return ("lit", "bytes", b"")
                def norm_empty(t_):
                    # `&x[x.len()..]` is the empty slice
                    if t_[0] == "call" and t_[1] == "std::ops::Index::index" and len(t_[2]) == 2 and t_[2][1][0] == "adt" and t_[2][1][1] == "RangeFrom" \
                            and dict(t_[2][1][3]).get("start") == ("call", "core::slice::len", (t_[2][0],)):
                        return ("lit", "bytes", b"")
                    return None
                bad, n = fc.compare_paths(res, refc, lambda st, out: fc.rewrite(out[1], norm_empty))
                t = M.closure_term(sy, clo, 1, S.St(), {"sp": "?"})
                good = not bad and t == ("not", call(rp("is_newline"), ("bound", 0)))
            rep.check(rule, "%s/consume_leading_newlines" % rule, good, loc=F.short_file(fx.bodies[cl[0]]["sp"]),
                      found="%d paths" % len(res), expected="bytes[first non-newline ..] or the empty slice: a suffix of the cursor")
            ok_all = ok_all and good
    # split_line
    posn = call("std::iter::Iterator::position", call("core::slice::iter", b_), ("fnref", rp("is_newline"), fx.bodies.get(rp("is_newline"), {}).get("dp")))

    def ref_split(o):
        if o(("is", posn, "Some")):
            return call("core::slice::split_at", b_, S.lin_norm([(mk_payload(posn, "Some", "0"), 1)], 1))
        return call("core::slice::split_at", b_, call("core::slice::len", b_))
    def split_outcome(st, out):
        # on a path where the cursor is known to be empty, 0 and len(cursor) are the same split point
        v = out[1]
        if fc.assignment(st.conds).get(("empty", b_)) is True and v == call("core::slice::split_at", b_, lit_int(0)):
            return call("core::slice::split_at", b_, call("core::slice::len", b_))
        return v
    cmp("split_line", ref_split, "(line incl. its terminator byte, rest): consumes position(newline)+1 or everything", outcome=split_outcome)
    # parse_until_no_newline
    pn = A.func(fx, "mapping", "parse_until_no_newline")
    if len(pn) == 1:
        sy, res = ev(fx, rep, rule, "%s/parse_until_no_newline" % rule, pn[0])
        if res is not None:
            clos = set()

            def g3(t):
                if t[0] == "closure":
                    clos.add(t)
                return None
            for st, (k, v) in res:
                fc.rewrite(v, g3)
                for a, pol in st.conds:
                    fc.rewrite(a, g3)
            good = False
            if len(clos) == 1:
                clo = list(clos)[0]
                pu_ = call(rp("parse_until"), b_, clo)

                def refn(o):
                    if not o(("is", pu_, "Ok")):
                        return err(mk_payload(pu_, "Err", "0"))
                    sl, rest = mk_field(mk_payload(pu_, "Ok", "0"), "0"), mk_field(mk_payload(pu_, "Ok", "0"), "1")
                    if (not o(("empty", rest))) and o(("bool", call(rp("is_newline"), ("index", rest, lit_int(0))))):
                        return perr(call("core::str::as_bytes", sl), ERRK)
                    return ok(("tuple", (sl, rest)))
                bad, n = fc.compare_paths(res, lambda o: EE(refn(o)), lambda st, out: EE(out[1]))
                r = byteset(fx, sy, clo)
                good = not bad and r is not None and r[0] == NL and len(r[1]) == 1
                R1.report_cmp(rep, rule, "%s/parse_until_no_newline" % rule, fx.bodies[pn[0]], res, bad,
                              "scan to the first byte in {\\r,\\n} U predicate; Err iff the scan stopped at a line terminator")
                rep.check(rule, "%s/parse_until_no_newline/predicate" % rule, r is not None and r[0] == NL and len(r[1]) == 1,
                          loc=F.short_file(fx.bodies[pn[0]]["sp"]), found="stop set = %s U %s" % (sorted(r[0]) if r else "?", sorted(r[1]) if r else "?"),
                          expected="{\\r,\\n} U caller's predicate")
            else:
                # no (or more than one) scan predicate built here: the scan is not provably stopped by line terminators
                rep.violation(rule, "%s/parse_until_no_newline/predicate" % rule, loc=F.short_file(fx.bodies[pn[0]]["sp"]),
                              found="%d scan-predicate closures in parse_until_no_newline" % len(clos),
                              expected="one predicate |b| is_newline(b) || predicate(b) handed to the scan: {\\r,\\n} U caller's predicate")
            ok_all = ok_all and good
    return ok_all


# ---- grammar skeletons (C05.2/3, C05.5 threading, C06.3 line-bounded scans) -----------------------------------------------
def unfold_chain(rest, cursor0=("in", "bytes")):
    """walk a rest-cursor term back to the cursor parameter: list of consuming steps, outermost last.
    step = (kind, call term, extra)"""
    steps = []
    t = rest
    while True:
        if t == cursor0:
            break
        if t[0] == "call" and t[1] == rp("consume_leading_newlines"):
            steps.append(("skipnl", t, None))
            t = t[2][0]
            continue
        if t[0] == "payload" and t[2] == "Ok" and t[1][0] == "call" and t[1][1] == rp("parse_prefix"):
            steps.append(("lit", t[1], t[1][2][1]))
            t = t[1][2][0]
            continue
        if t[0] == "field" and t[2] == "1" and t[1][0] == "payload" and t[1][2] == "Ok" and t[1][1][0] == "call":
            c = t[1][1]
            nm = role_of(c[1])
            if nm == "parse_usize":
                steps.append(("usize", c, None))
            elif nm in ("parse_until", "parse_until_no_newline"):
                steps.append(("until" if nm == "parse_until" else "until_nn", c, c[2][1]))
            else:
                return None
            t = c[2][0]
            continue
        return None
    return list(reversed(steps))


def lit_bytes(t):
    if t[0] == "lit" and t[1] == "bytes":
        return t[2]
    if t[0] == "array" and t[1] and all(e_[0] == "lit" and e_[1] == "int" and 0 <= e_[2] < 256 for e_ in t[1]):
        return bytes(e_[2] for e_ in t[1])      # `&[terminator]` with the byte known at this call
    if t[0] == "call" and t[1] in ("std::array::as_slice", "core::array::as_slice") and len(t[2]) == 1:
        return lit_bytes(t[2][0])       # `PREFIX.as_slice()` of a byte-array constant
    if t[0] == "const" and t[2]:
        import ast
        try:
            v = ast.literal_eval(t[2].lstrip("*&"))
            if isinstance(v, bytes):
                return v
        except Exception:
            return None
    return None


def skeletons(fx, rep, rule, name, sy, res):
    """for every Ok path: (events, record term, positions). events include failed optional attempts."""
    out = []
    problems = []
    # the cursor parameter (first parameter of the parser in this role), whatever it is called
    cursor0 = ("in", "bytes")
    pb_ = fx.bodies.get(rp({"member": "parse_proguard_field_or_method", "header": "parse_proguard_header", "class": "parse_proguard_class"}.get(name, "-")))
    if pb_ and pb_.get("params") and (pb_["params"][0].get("pat") or {}).get("k") == "Bind":
        cursor0 = ("in", pb_["params"][0]["pat"]["name"])

    def as_prefix_step(t):
        """`cur.strip_prefix(LIT)` used directly is the literal combinator without its error value (`parse_prefix` is checked to be
        `Ok(rest)` iff `strip_prefix` is `Some(rest)`, C05.6): same step, same rest"""
        if t[0] == "call" and t[1] == "core::slice::strip_prefix" and len(t[2]) == 2 and lit_bytes(t[2][1]) is not None:
            return ("call", rp("parse_prefix"), t[2]) + tuple(t[3:])
        if t[0] == "payload" and t[2] == "Some" and t[1][0] == "call" and t[1][1] == rp("parse_prefix"):
            return ("payload", t[1], "Ok") + tuple(t[3:])
        if t[0] == "is" and t[2] == "Some" and t[1][0] == "call" and t[1][1] == rp("parse_prefix"):
            return ("is", t[1], "Ok")
        return None
    # `match cur.split_first() { Some((b':', rest)) => <with rest>, _ => <at cur> }`: the one-byte literal step, spelled with a slice
    # pattern. Both conditions together are `parse_prefix(cur, b":") is Ok`; either one failing is its failure.
    first_byte = {}
    for st, (k, v) in res:
        for a, pol in st.conds:
            if a[0] == "eq" and a[2][0] == "lit" and a[2][1] == "int" and a[1][0] == "field" and a[1][2] == "0" and a[1][1][0] == "payload" \
                    and a[1][1][2] == "Some" and a[1][1][1][0] == "call" and a[1][1][1][1] == "core::slice::split_first" and 0 <= a[2][2] < 256:
                first_byte.setdefault(a[1][1][1], set()).add(a[2][2])
    first_byte = {sf: list(cs)[0] for sf, cs in first_byte.items() if len(cs) == 1}

    def pp_of(sf):
        return ("call", rp("parse_prefix"), (sf[2][0], ("lit", "bytes", bytes([first_byte[sf]]))))

    def as_first_byte_step(t):
        if t[0] == "field" and t[2] == "1" and t[1][0] == "payload" and t[1][2] == "Some" and t[1][1] in first_byte:
            return ("payload", pp_of(t[1][1]), "Ok", "0")
        return None
    res2 = []
    for st, (k, v) in res:
        st = st.copy()
        conds = []
        a_ = {a: pol for a, pol in st.conds}
        for a, pol in st.conds:
            if a[0] == "is" and a[2] == "Some" and a[1] in first_byte:
                sf = a[1]
                eqa = ("eq", ("field", ("payload", sf, "Some", "0"), "0"), ("lit", "int", first_byte[sf]))
                if not pol:
                    conds.append((("is", pp_of(sf), "Ok"), False))
                    continue
                if eqa in a_:
                    conds.append((("is", pp_of(sf), "Ok"), a_[eqa]))
                    continue
            elif a[0] == "eq" and a[1][0] == "field" and a[1][1][0] == "payload" and a[1][1][1] in first_byte and a_.get(("is", a[1][1][1], "Some")) is True:
                continue
            conds.append((a, pol))
        st.conds = tuple((fc.rewrite(fc.rewrite(a, as_first_byte_step), as_prefix_step), pol) for a, pol in conds)
        res2.append((st, (k, fc.rewrite(fc.rewrite(v, as_first_byte_step), as_prefix_step))))
    res = res2
    # a line is rejected only by the grammar: the test that decides an Err path is a combinator that failed on the cursor (or the
    # `next()` of a split iterator being None, which cannot happen) - never a test of the captured text (`is_valid_name(ty)`)
    comb_paths = {rp(n_) for n_ in COMB}
    for st, (k, v) in res:
        if not (v[0] == "adt" and v[2] == "Err") or not st.conds:
            continue
        a_, pol_ = st.conds[-1]
        if a_[0] == "is" and a_[2] == "Ok" and a_[1][0] == "call" and a_[1][1] in comb_paths and not pol_:
            continue
        if a_[0] == "is" and a_[2] == "Some" and not pol_ and a_[1][0] in ("call", "mcall") and a_[1][1].endswith("Iterator::next") \
                and a_[1][2] and a_[1][2][0][0] in ("call", "place", "after") and ("split" in repr(a_[1][2][0])):
            continue
        problems.append("a line is rejected by a test outside the grammar: %s" % S.cstr((st.conds[-1],))[:200])
    for st, (k, v) in res:
        if not (v[0] == "adt" and v[2] == "Ok"):
            continue
        tup = v[3][0][1]
        if tup[0] != "tuple" or len(tup[1]) != 2:
            problems.append("Ok value is not (record, rest)")
            continue
        rec, rest = tup[1]
        chain = unfold_chain(rest, cursor0)
        if chain is None:
            problems.append("rest cursor is not derived from the input by combinator results: %s" % S.tstr(rest)[:200])
            continue
        # positions: cursor before each step
        positions = [cursor0]
        for kind, c, extra in chain:
            if kind == "skipnl":
                positions.append(c)
            elif kind == "lit":
                positions.append(mk_payload(c, "Ok", "0"))
            else:
                positions.append(mk_field(mk_payload(c, "Ok", "0"), "1"))
        chain_calls = [c for kind, c, extra in chain]
        events = []
        pre_lit = _DISPATCH_PREFIX.get(id(fx), {}).get(rp({"member": "parse_proguard_field_or_method", "header": "parse_proguard_header"}.get(name, "-")))
        if pre_lit:
            events.append(("lit", pre_lit))     # consumed by the dispatcher in front of this parser (C05.1 dispatch rule)
        idx_of = {}
        # every combinator call mentioned in the path conditions must use a cursor on the chain
        attempts = {}   # position index -> list of failed attempts
        infeasible = False
        for a, pol in st.conds:
            if a[0] == "is" and a[2] == "Ok" and a[1][0] == "call" and (a[1][1] in {rp(n_) for n_ in COMB}):
                c = a[1]
                cur = c[2][0]
                if cur not in positions:
                    problems.append("STALE CURSOR: %s is applied to %s, which is not the current position" % (role_of(c[1]), S.tstr(cur)[:160]))
                    continue
                i = positions.index(cur)
                if pol:
                    if c not in chain_calls:
                        # a literal probed successfully whose result is thrown away (`match parse_prefix(..) { Ok(r) if cond => .., _ => .. }`
                        # with the guard false): the path continues at the same cursor. If the next step there is a different
                        # literal, no input takes this path (the cursor cannot start with both) - it is not a path of the parser.
                        if role_of(c[1]) == "parse_prefix" and i < len(chain) and chain[i][0] == "lit":
                            b1, b2 = lit_bytes(c[2][1]), lit_bytes(chain[i][2])
                            if b1 and b2 and not (b1.startswith(b2) or b2.startswith(b1)):
                                infeasible = True
                                continue
                        problems.append("result of %s is checked but its rest is not threaded on" % role_of(c[1]))
                    elif chain_calls.index(c) != i:
                        problems.append("step order differs from cursor order")
                else:
                    attempts.setdefault(i, []).append(c)
        if infeasible:
            continue
        for i, (kind, c, extra) in enumerate(chain):
            for f in attempts.get(i, []):
                events.append(("no-" + describe(fx, sy, f)[0], describe(fx, sy, f)[1]))
            d = describe(fx, sy, c) if kind != "skipnl" else ("skipnl", None)
            events.append(d)
            idx_of[c] = len(events) - 1
            # fallible steps must have been checked
            if kind != "skipnl" and not any(a == ("is", c, "Ok") and pol for a, pol in st.conds):
                problems.append("step %s consumed without checking its result" % kind)
        for f in attempts.get(len(chain), []):
            events.append(("no-" + describe(fx, sy, f)[0], describe(fx, sy, f)[1]))
        # the blank-line skip after the record may be applied by the dispatcher instead of by each parser (it is idempotent)
        if _DISPATCH_SKIPS.get(id(fx)) and (not events or events[-1] != ("skipnl", None)):
            events.append(("skipnl", None))
        out.append((tuple(events), rec, idx_of, st))
    return out, problems


def describe(fx, sy, c):
    nm = role_of(c[1])
    if nm == "parse_prefix":
        return ("lit", lit_bytes(c[2][1]))
    if nm == "parse_usize":
        return ("usize", None)
    if nm in ("parse_until", "parse_until_no_newline"):
        p = c[2][1]
        r = byteset(fx, sy, p) if p[0] in ("closure", "fnref") else None
        if r is None and lit_bytes(p) is not None:
            r = (frozenset(lit_bytes(p)), frozenset())      # the stop set handed over as a byte-string (the combinator rule checks `contains`)
        bs = tuple(sorted(r[0])) if (r is not None and not r[1]) else None
        return ("until" if nm == "parse_until" else "until_nn", bs)
    return (nm, None)


def cap(idx_of, c, which):
    return ("cap", idx_of.get(c), which)


def record_wiring(rec, idx_of):
    """record term with captures replaced by ('cap', event index)"""
    def f(t):
        if t[0] == "field" and t[2] == "0" and t[1][0] == "payload" and t[1][2] == "Ok" and t[1][1] in idx_of:
            return ("cap", idx_of[t[1][1]])
        return None
    return fc.rewrite(rec, f)


def events_str(ev):
    out = []
    for k, x in ev:
        if k in ("lit", "no-lit"):
            out.append("%s(%r)" % (k, x.decode("latin1") if isinstance(x, bytes) else x))
        elif k in ("until", "until_nn", "no-until", "no-until_nn"):
            out.append("%s{%s}" % (k, ",".join(repr(chr(b)) for b in (x or ())) if x is not None else "?"))
        else:
            out.append(k)
    return " ".join(out)


SP, LP, RP_, COLON, QUOTE = 32, 40, 41, 58, 34


def ref_member_language():
    """documented member-line grammar -> set of event sequences with the record wiring.
    `[startline:endline:]type [class.]name[(args)[:os[:oe]]] -> obfuscated`"""
    out = {}
    for has_s in (True, False):
        for has_args in (True, False):
            for has_os in ((True, False) if has_args else (False,)):
                for has_oe in ((True, False) if has_os else (False,)):
                    ev = [("lit", b"    ")]
                    capi = {}
                    if has_s:
                        capi["s"] = len(ev); ev.append(("usize", None))
                        ev.append(("lit", b":"))
                        capi["e"] = len(ev); ev.append(("usize", None))
                        ev.append(("lit", b":"))
                    else:
                        ev.append(("no-usize", None))
                    capi["ty"] = len(ev); ev.append(("until_nn", (SP,)))
                    ev.append(("lit", b" "))
                    capi["orig"] = len(ev); ev.append(("until_nn", (SP, LP)))
                    if has_args:
                        ev.append(("lit", b"("))
                        capi["args"] = len(ev); ev.append(("until_nn", (RP_,)))
                        ev.append(("lit", b")"))
                        if has_os:
                            ev.append(("lit", b":"))
                            capi["os"] = len(ev); ev.append(("usize", None))
                            if has_oe:
                                ev.append(("lit", b":"))
                                capi["oe"] = len(ev); ev.append(("usize", None))
                            else:
                                ev.append(("no-lit", b":"))
                        else:
                            ev.append(("no-lit", b":"))
                    else:
                        ev.append(("no-lit", b"("))
                    ev.append(("lit", b" -> "))
                    capi["obf"] = len(ev); ev.append(("until", (10, 13)))
                    ev.append(("skipnl", None))
                    out[tuple(ev)] = (capi, dict(has_s=has_s, has_args=has_args, has_os=has_os, has_oe=has_oe))
    return out


def check_member_parser(fx, rep, rule):
    use(fx)
    p = A.one(rep, rule, "mapping::parse_proguard_field_or_method", A.func(fx, "mapping", "parse_proguard_field_or_method"))
    if not p:
        return None
    sy, res = ev(fx, rep, rule, "%s/member" % rule, p)
    if res is None:
        return None
    sk, problems = skeletons(fx, rep, rule, "member", sy, res)
    b = fx.bodies[p]
    rep.check(rule.replace(".2", ".5"), "%s/member/cursor-threading" % rule.replace(".2", ".5"), not problems, loc=F.short_file(b["sp"]),
              found=problems[:3] or "%d Ok paths: every combinator is applied to the rest returned by the previous step (or the unchanged cursor after a failed optional step)" % len(sk),
              expected="cursor threading (typestate): no stale cursor, every consumed step checked")
    def norm_events(events):
        """drop negative lookaheads that the next positive literal implies: `no-lit(X)` (possibly followed by further no-* events)
        in front of `lit(Y)` with Y not starting like X says nothing new. Returns (events, old index -> new index)."""
        keep = []
        for i, (k_, x_) in enumerate(events):
            if k_ == "no-lit" and x_:
                j = i + 1
                while j < len(events) and events[j][0].startswith("no-"):
                    j += 1
                if j < len(events) and events[j][0] == "lit" and events[j][1] and events[j][1][:1] != x_[:1]:
                    continue
            keep.append(i)
        return tuple(events[i] for i in keep), {old: new for new, old in enumerate(keep)}
    ref = {}
    for ev_, (capi_, flags_) in ref_member_language().items():
        nev, rm = norm_events(ev_)
        ref[nev] = ({k_: rm[i_] for k_, i_ in capi_.items()}, flags_)
    have = {}
    for events, rec, idx_of, st in sk:
        nev, rm = norm_events(events)
        have.setdefault(nev, []).append((rec, {c_: rm[i_] for c_, i_ in idx_of.items() if i_ in rm}, st))
    missing = [e for e in ref if e not in have]
    extra = [e for e in have if e not in ref]
    rep.check(rule, "%s/member/grammar" % rule, not missing and not extra, loc=F.short_file(b["sp"]),
              found=("missing: %s ; unexpected: %s" % ([events_str(e) for e in missing[:2]], [events_str(e) for e in extra[:2]])) if (missing or extra)
              else "%d event sequences = the documented grammar (all combinations of the optional groups)" % len(have),
              expected="`    [s:e:]type [class.]name[(args)[:os[:oe]]] -> obfuscated` with line-bounded scans")
    # wiring of captures into the record (C05.4) per sequence
    def norm_rfind(t):
        """`match x.rfind(c) { Some(d) => (&x[..d], &x[d + 1..]) .. }` with a one-byte char c is `x.rsplit_once(c)`"""
        def rf(u):
            return u[0] == "payload" and u[2] == "Some" and u[1][0] == "call" and u[1][1] == "core::str::rfind" and len(u[1][2]) == 2 \
                and u[1][2][1][0] == "lit" and u[1][2][1][1] == "char" and ord(u[1][2][1][2]) < 128

        def f(u):
            if u[0] == "call" and u[1] == "std::ops::Index::index" and len(u[2]) == 2:
                u = ("index", u[2][0], u[2][1])
            if u[0] == "index" and u[2][0] == "adt" and u[2][1] in ("RangeTo", "RangeFrom") and len(u[2][3]) == 1:
                bound = u[2][3][0][1]
                if u[2][1] == "RangeTo" and rf(bound) and bound[1][2][0] == u[1]:
                    return mk_field(mk_payload(("call", "core::str::rsplit_once", bound[1][2]), "Some", "0"), "0")
                if u[2][1] == "RangeFrom" and bound[0] == "lin" and bound[2] == 1 and len(bound[1]) == 1 and bound[1][0][1] == 1 and rf(bound[1][0][0]) \
                        and bound[1][0][0][1][2][0] == u[1]:
                    return mk_field(mk_payload(("call", "core::str::rsplit_once", bound[1][0][0][1][2]), "Some", "0"), "1")
            if u[0] == "is" and u[2] == "Some" and u[1][0] == "call" and u[1][1] == "core::str::rfind" and len(u[1][2]) == 2 \
                    and u[1][2][1][0] == "lit" and u[1][2][1][1] == "char" and ord(u[1][2][1][2]) < 128:
                return ("is", ("call", "core::str::rsplit_once", u[1][2]), "Some")
            return None
        return fc.rewrite(t, f)
    wiring_ok = True
    wdesc = []
    presence_seen = [0]
    for events, (capi, flags) in ref.items():
        for rec, idx_of, st in have.get(events, []):
            w = norm_rfind(record_wiring(rec, idx_of))
            st = st.copy()
            st.conds = tuple((norm_rfind(a_), p_) for a_, p_ in st.conds)
            C_ = lambda k: ("cap", capi[k])
            if not flags["has_args"]:
                want = ("adt", "ProguardRecord", "Field", (("ty", C_("ty")), ("original", C_("orig")), ("obfuscated", C_("obf"))))
                good = w == want
            else:
                good = w[0] == "adt" and w[2] == "Method"
                if good:
                    d = dict(w[3])
                    good = d.get("ty") == C_("ty") and d.get("obfuscated") == C_("obf") and d.get("arguments") == C_("args")
                    # class split at the LAST dot (`rsplitn(2, '.')` + two next(), or `rsplit_once('.')`): with a dot the name is the
                    # part after it and the class the part before; without one the whole text is the name and there is no class
                    o1, o2 = d.get("original"), d.get("original_class")
                    rs = call("core::str::rsplit_once", C_("orig"), ("lit", "char", "."))
                    asg0 = fc.assignment(tuple((record_wiring(a_, idx_of), p_) for a_, p_ in st.conds))
                    has_dot = asg0.get(fc.canon_atom(("is", rs, "Some"))[0])
                    if has_dot is True:
                        pr_ = mk_payload(rs, "Some", "0")
                        split_ok = o1 == mk_field(pr_, "1") and o2 == some(mk_field(pr_, "0"))
                    elif has_dot is False:
                        split_ok = o1 == C_("orig") and o2 == NONE
                    else:
                        split_ok = False
                    good = good and split_ok
                    lm = d.get("line_mapping")
                    # line mapping only from the captured numbers (presence rule is C01.P1)
                    if flags["has_s"]:
                        ok_lm = lm == NONE or (lm[0] == "adt" and lm[2] == "Some" and dict(lm[3][0][1][3]) == {
                            "startline": C_("s"), "endline": C_("e"),
                            "original_startline": some(C_("os")) if flags["has_os"] else NONE,
                            "original_endline": some(C_("oe")) if flags["has_oe"] else NONE})
                        # presence rule (C01.P1 / C05.4): Some iff both obfuscated line numbers are > 0, decided on this path's own conditions
                        conds_w = tuple((record_wiring(a_, idx_of), p_) for a_, p_ in st.conds)
                        asg = fc.assignment(conds_w)
                        gs = asg.get(fc.canon_atom(("lt", lit_int(0), C_("s")))[0])
                        ge = asg.get(fc.canon_atom(("lt", lit_int(0), C_("e")))[0])
                        pol_s = fc.canon_atom(("lt", lit_int(0), C_("s")))[1]
                        pol_e = fc.canon_atom(("lt", lit_int(0), C_("e")))[1]
                        gs = None if gs is None else (gs == pol_s)
                        ge = None if ge is None else (ge == pol_e)
                        if lm == NONE:
                            ok_lm = ok_lm and (gs is False or ge is False)
                        else:
                            ok_lm = ok_lm and gs is True and ge is True
                        presence_seen[0] += 1
                    else:
                        ok_lm = lm == NONE
                    good = good and ok_lm
            if not good:
                wiring_ok = False
                wdesc.append("%s => %s" % (events_str(events), S.tstr(w)[:400]))
    rep.check(rule.replace(".2", ".4"), "%s/member/capture-wiring" % rule.replace(".2", ".4"), wiring_ok and bool(have), loc=F.short_file(b["sp"]),
              found=wdesc[:2] or "every record component is the capture of its grammar position (Field iff no argument group; Method: ty, arguments, obfuscated, "
              "last-dot split of the name, line numbers from the 1st..4th number)", expected="printed components land in the fields of the same names")
    return sk


def check_class_parser(fx, rep, rule):
    use(fx)
    p = A.one(rep, rule, "mapping::parse_proguard_class", A.func(fx, "mapping", "parse_proguard_class"))
    if not p:
        return None
    sy, res = ev(fx, rep, rule, "%s/class" % rule, p)
    if res is None:
        return None
    sk, problems = skeletons(fx, rep, rule, "class", sy, res)
    b = fx.bodies[p]
    rep.check(rule.replace(".3", ".5"), "%s/class/cursor-threading" % rule.replace(".3", ".5"), not problems, loc=F.short_file(b["sp"]),
              found=problems[:3] or "cursor threaded through %d step(s)" % (len(sk[0][0]) if sk else 0), expected="no stale cursor")
    want = (("until_nn", (SP,)), ("lit", b" -> "), ("until_nn", (COLON,)), ("lit", b":"), ("skipnl", None))
    good = len(sk) == 1 and sk[0][0] == want
    if good:
        w = record_wiring(sk[0][1], sk[0][2])
        good = w == ("adt", "ProguardRecord", "Class", (("original", ("cap", 0)), ("obfuscated", ("cap", 2))))
    rep.check(rule, "%s/class/grammar" % rule, good, loc=F.short_file(b["sp"]), found=[events_str(s[0]) for s in sk],
              expected="until_nn{' '} lit(' -> ') until_nn{':'} lit(':') ; Class{original: 1st capture, obfuscated: 2nd}")
    return sk


def norm_split_once(entry):
    """`let (t, rest) = parse_until(cur, S)?; match t.split_once(c) { Some((a, b)) => .., None => .. }` with a one-byte char c outside S
    reads the same language as `parse_until(cur, S + {c})` followed by an optional `lit(c) parse_until(.., S)`: the capture t holds no
    byte of S, so its part before the first c is the S+{c}-bounded scan and the part after it is the S-bounded one; without a c
    in t the S+{c}-bounded scan stops where the S-bounded one does. Returns (events, wiring) in that second form."""
    events, rec, idx_of, st = entry
    w = record_wiring(rec, idx_of)
    conds = [(record_wiring(a, idx_of), pol) for a, pol in st.conds]
    for a, pol in conds:
        if not (a[0] == "is" and a[2] == "Some" and a[1][0] == "call" and a[1][1] == "core::str::split_once" and len(a[1][2]) == 2):
            continue
        x, c = a[1][2]
        if not (x[0] == "cap" and len(x) == 2 and c[0] == "lit" and c[1] == "char" and ord(c[2]) < 128):
            continue
        i = x[1]
        if i is None or not (0 <= i < len(events)) or events[i][0] != "until" or events[i][1] is None or ord(c[2]) in events[i][1]:
            continue
        bs = events[i][1]
        cb = bytes([ord(c[2])])
        wide = ("until", tuple(sorted(set(bs) | {ord(c[2])})))
        shift = 2 if pol else 1
        mid = (wide, ("lit", cb), ("until", bs)) if pol else (wide, ("no-lit", cb))
        so = a[1]

        def f(t, i=i, so=so, pol=pol, shift=shift):
            if pol and t[0] == "field" and t[2] in ("0", "1") and t[1] == mk_payload(so, "Some", "0"):
                return ("cap", i if t[2] == "0" else i + 2)
            if t[0] == "cap" and len(t) == 2 and t[1] is not None and t[1] > i:
                return ("cap", t[1] + shift)
            return None
        w2 = fc.rewrite(w, f)
        # the whole capture may survive only where it means the same thing: nowhere on the Some path (it would span the separator)
        if pol and ("cap", i) in set(subterms_of(fc.rewrite(w, lambda t, so=so: ("hole",) if t == mk_payload(so, "Some", "0") else None))):
            continue
        return events[:i] + mid + events[i + 1:], w2
    return events, w


def subterms_of(t):
    if isinstance(t, tuple):
        yield t
        for x in t:
            if isinstance(x, tuple):
                for y in subterms_of(x):
                    yield y


def check_header_parser(fx, rep, rule):
    use(fx)
    p = A.one(rep, rule, "mapping::parse_proguard_header", A.func(fx, "mapping", "parse_proguard_header"))
    if not p:
        return None
    sy, res = ev(fx, rep, rule, "%s/header" % rule, p)
    if res is None:
        return None
    sk, problems = skeletons(fx, rep, rule, "header", sy, res)
    b = fx.bodies[p]
    rep.check(rule.replace(".3", ".5"), "%s/header/cursor-threading" % rule.replace(".3", ".5"), not problems, loc=F.short_file(b["sp"]),
              found=problems[:3] or "cursor threaded on %d Ok paths" % len(sk), expected="no stale cursor")
    SFP = b' {"id":"sourceFile","fileName":"'
    want = {
        (("lit", b"#"), ("lit", SFP), ("until_nn", (QUOTE,)), ("lit", b'"}'), ("skipnl", None)): "json",
        (("lit", b"#"), ("no-lit", SFP), ("until", (10, 13, COLON)), ("lit", b":"), ("until", (10, 13)), ("skipnl", None)): "kv",
        (("lit", b"#"), ("no-lit", SFP), ("until", (10, 13, COLON)), ("no-lit", b":"), ("skipnl", None)): "k",
    }
    have = {}
    for s_ in sk:
        ev2, w2 = norm_split_once(s_)
        have.setdefault(ev2, []).append((ev2, w2))       # (several paths may share one event sequence: every one of them is checked)
    missing = [e for e in want if e not in have]
    extra = [e for e in have if e not in want]
    # F1: the sourceFile value scan must be line-bounded
    unb = [e for e in have if any(k == "until" and x is not None and not NL <= set(x) for k, x in e)]
    if unb:
        rep.violation(rule.replace("C05", "C06") if False else rule, "C06/scan-unbounded/parse_proguard_header/sourceFile-value", loc=F.short_file(b["sp"]),
                      found=[events_str(e) for e in unb], expected="every scan stops at the end of the line")
    rep.check(rule, "%s/header/grammar" % rule, not missing and not extra, loc=F.short_file(b["sp"]),
              found=[events_str(e) for e in have], expected=[events_str(e) for e in want])
    good = True
    for e, kind in want.items():
        if e not in have:
            continue
        for sk_ in have[e]:
            w = sk_[1]
            if kind == "json":
                g = w == ("adt", "ProguardRecord", "Header", (("key", ("lit", "str", "sourceFile")), ("value", some(("cap", 2)))))
            elif kind == "kv":
                g = w == ("adt", "ProguardRecord", "Header", (("key", call("core::str::trim", ("cap", 2))), ("value", some(call("core::str::trim", ("cap", 4))))))
            else:
                g = w == ("adt", "ProguardRecord", "Header", (("key", call("core::str::trim", ("cap", 2))), ("value", NONE)))
            good = good and g
    rep.check(rule.replace(".3", ".4"), "%s/header/capture-wiring" % rule.replace(".3", ".4"), good and not missing, loc=F.short_file(b["sp"]),
              found="key/value wired (trimmed) from their captures" if good else "wiring differs", expected="Header{key: trim(key capture), value: trim(value capture) | sourceFile json value}")
    return sk


def all_scans_line_bounded(rep, rule, sks):
    """C06.3: every scan of the three record parsers has a stop set containing \\r and \\n
    (until_nn adds them by construction), and all literals are newline-free"""
    n = 0
    for name, sk in sks.items():
        for events, rec, idx_of, st in sk or []:
            for k, x in events:
                if k in ("until", "until_nn"):
                    n += 1
                    bounded = k == "until_nn" or (x is not None and NL <= set(x))
                    key = "%s/scan/%s/%s" % (rule, name, events_str(((k, x),)))
                    if not bounded:
                        key = "C06/scan-unbounded/%s/%s" % ("parse_proguard_" + name, "sourceFile-value" if name == "header" else events_str(((k, x),)))
                    rep.check(rule, key, bounded, found="%s in %s" % (events_str(((k, x),)), events_str(events)), expected="stop set contains \\r and \\n", nontrivial=False)
                if k == "lit":
                    rep.check(rule, "%s/literal/%s/%r" % (rule, name, x), x is not None and b"\n" not in x and b"\r" not in x and len(x) > 0,
                              found="literal %r" % x, expected="non-empty, newline-free literal", nontrivial=False)
    return n


_DISPATCH_SKIPS = {}
_DISPATCH_PREFIX = {}     # id(fx) -> {sub-parser path: line-start literal the dispatcher consumed for it}


def pair_struct_rw(fx):
    """the dispatcher may return its (result, rest) pair as a small private struct instead of a tuple: a rewriter that reads
    such a struct (and field accesses on the dispatcher's result) positionally, in declaration order; None if it is a tuple"""
    recp = rp("parse_proguard_record")
    b = fx.bodies.get(recp)
    if not b:
        return None
    out_ty = (b.get("output") or "")
    if out_ty.startswith("("):
        return None
    nm = out_ty.split("<")[0].split("::")[-1]
    decl = None
    for a_ in fx.all_adts("proguard"):
        if a_["path"].split("::")[-1] == nm and a_["variants"] and len(a_["variants"][0]["fields"]) == 2:
            decl = [f_["name"] for f_ in a_["variants"][0]["fields"]]
    if not decl:
        return None

    def rw(t):
        if t[0] == "adt" and t[1] == nm and len(t[3]) == 2:
            d = dict(t[3])
            if set(d) == set(decl):
                return ("tuple", (d[decl[0]], d[decl[1]]))
        if t[0] == "field" and t[2] in decl and t[1][0] == "call" and t[1][1] == recp:
            return ("field", t[1], str(decl.index(t[2])))
        return None
    return rw


# ---- dispatcher, iterator, try_parse (C05.1, C05.7, C06.2c/d, C06.4) ------------------------------------------------------------
def check_dispatch(fx, rep, rule):
    use(fx)
    p = A.one(rep, rule, "mapping::parse_proguard_record", A.func(fx, "mapping", "parse_proguard_record"))
    if not p:
        return
    parsers = {nm: rp(nm) for nm in ("parse_proguard_header", "parse_proguard_field_or_method", "parse_proguard_class")}
    sy, res = ev(fx, rep, rule, "%s/dispatch" % rule, p, opaque=lambda q: opq(q) or q in parsers.values())
    if res is None:
        return
    b0 = ("in", "bytes")
    cur = call(rp("consume_leading_newlines"), b0)

    def ref(o, skip_here=False, strip=()):
        def starts(lit_, who):
            # the line start is either only looked at (the sub-parser consumes it itself) or consumed here and the sub-parser
            # gets what follows it (`strip`): then the sub-parser's grammar is judged with that literal in front (skeletons)
            if who in strip:
                sp_ = call("core::slice::strip_prefix", cur, ("lit", "bytes", lit_))
                return (mk_payload(sp_, "Some", "0"),) if o(("is", sp_, "Some")) else None
            return (cur,) if o(("bool", call("core::slice::starts_with", cur, ("lit", "bytes", lit_)))) else None
        a_ = starts(b"#", "parse_proguard_header")
        if a_ is not None:
            r = call(parsers["parse_proguard_header"], a_[0])
        else:
            a_ = starts(b"    ", "parse_proguard_field_or_method")
            if a_ is not None:
                r = call(parsers["parse_proguard_field_or_method"], a_[0])
            else:
                r = call(parsers["parse_proguard_class"], cur)
        if o(("is", r, "Ok")):
            t = mk_payload(r, "Ok", "0")
            rest_ = mk_field(t, "1")
            return ("tuple", (ok(mk_field(t, "0")), call(rp("consume_leading_newlines"), rest_) if skip_here else rest_))
        sl = call(rp("split_line"), cur)
        return ("tuple", (err(("adt", "ParseError", "ParseError", (("line", mk_field(sl, "0")), ("kind", ("adt", "ParseErrorKind", "ParseError",
                                                                                                     (("0", ("lit", "str", "line is not a valid proguard record")),)))))), mk_field(sl, "1")))
    prw = pair_struct_rw(fx)
    oc = (lambda st, out: fc.rewrite(out[1], prw)) if prw else (lambda st, out: out[1])
    bad, n = fc.compare_paths(res, ref, oc)
    _DISPATCH_SKIPS[id(fx)] = False
    _DISPATCH_PREFIX[id(fx)] = {}
    if bad:
        # variants: the dispatcher (not each record parser) skips the line terminator and blank lines behind an Ok record; the
        # dispatcher (not the header / member parser) consumes the line-start literal
        H_, M_ = "parse_proguard_header", "parse_proguard_field_or_method"
        for skip_, strip_ in ((True, ()), (False, (H_, M_)), (True, (H_, M_)), (False, (H_,)), (True, (H_,)), (False, (M_,)), (True, (M_,))):
            bad2, n2 = fc.compare_paths(res, lambda o: ref(o, skip_, strip_), oc)
            if not bad2:
                bad = bad2
                _DISPATCH_SKIPS[id(fx)] = skip_
                _DISPATCH_PREFIX[id(fx)] = {parsers[w_]: {H_: b"#", M_: b"    "}[w_] for w_ in strip_}
                break
    R1.report_cmp(rep, rule, "%s/dispatch" % rule, fx.bodies[p], res, bad,
                  "skip leading newlines; '#' -> header, four spaces -> member, else class; on Err: ParseError{line = split_line(line start).0}, rest = .1")


def check_iterator_overrides(fx, rep, rule, self_ty, what):
    """`next` is the only place an iterator's sequence is defined: an override of a provided method (nth, fold, count, last,
    advance_by, ...) is a second definition of the same sequence that adaptors (`skip`, `step_by`, `last`) silently use."""
    over = sorted(b["name"] for q, b in fx.bodies.items() if b["krate"] == "proguard" and b.get("impl_trait") == "std::iter::Iterator"
                  and b.get("impl_self_dp", "").endswith(self_ty) and b["name"] not in ("next", "size_hint"))
    if over:
        rep.undecidable(rule, "%s/iterator-overrides/%s" % (rule, what), loc=self_ty,
                        construct="`impl Iterator for %s` overrides provided method(s) %s: their agreement with next() is not decided" % (what, over))
    else:
        rep.ok(rule, "%s/iterator-overrides/%s" % (rule, what), found="`impl Iterator for %s` defines the sequence in next() only" % what)


def check_iterator(fx, rep, rule):
    p = A.one(rep, rule, "ProguardRecordIter::next", A.method(fx, "mapping::ProguardRecordIter", "next", trait="Iterator"))
    if not p:
        return
    check_iterator_overrides(fx, rep, rule, "mapping::ProguardRecordIter", "ProguardRecordIter")
    use(fx)
    rec = rp("parse_proguard_record")
    sy, res = ev(fx, rep, rule, "%s/iterator" % rule, p, opaque=lambda q: q == rec, through_mut=True)      # (a private `&mut self` step helper is evaluated through)
    if res is None:
        return
    slf = ("in", "self")
    SLICE = A.record_iter_field(fx) or "slice"       # role: the iterator's only field (the unparsed rest), whatever its name
    good = len(res) == 2
    desc = []
    prw = pair_struct_rw(fx)
    if prw:
        res2 = []
        for st, (k, v) in res:
            st2 = st.copy()
            st2.conds = tuple((fc.rewrite(a_, prw), p_) for a_, p_ in st.conds)
            st2.effects = tuple(fc.rewrite(e_, prw) for e_ in st.effects)
            res2.append((st2, (k, fc.rewrite(v, prw))))
        res = res2
    bnext = fx.bodies[p]
    params_ = {prm["pat"]["name"] for prm in bnext["params"] if prm.get("pat") and prm["pat"].get("k") == "Bind"} | {"self"}
    locals_ = set()
    for n_ in F.walk(bnext["body"]):
        if n_.get("k") == "Block":
            for s_ in n_["stmts"]:
                if s_["k"] == "Let":
                    for q_ in F.walk(s_["pat"]):
                        if q_.get("k") == "Bind":
                            locals_.add(q_["name"])
    for st, (k, v) in res:
        a = fc.assignment(st.conds)
        e = a.get(("empty", mk_field(slf, SLICE)))
        # (an assignment to a local of `next` - `let record; (record, self.slice) = ..` - is not an effect on the iterator)
        effs = [x for x in st.effects if x[0] == "assign" and not (x[1][0] == "place" and x[1][1] in locals_ and x[1][1] not in params_)]
        desc.append("%s -> %s ; %s" % (S.cstr(st.conds), S.tstr(v)[:80], [S.tstr(x)[:120] for x in effs]))
        r = call(rec, mk_field(slf, SLICE))
        if e is True:
            good = good and v == NONE and not effs
        elif e is False:
            good = good and v == some(mk_field(r, "0")) and effs == [("assign", ("place", "self", (SLICE,)), mk_field(r, "1"))]
        else:
            good = False
    rep.check(rule, "%s/iterator/next" % rule, good, loc=F.short_file(fx.bodies[p]["sp"]), found=desc,
              expected="None iff the slice is empty; otherwise (item, rest) = parse_proguard_record(slice), slice := rest, Some(item)")


def check_try_parse(fx, rep, rule):
    p = A.one(rep, rule, "ProguardRecord::try_parse", A.method(fx, "mapping::ProguardRecord", "try_parse"))
    if not p:
        return
    use(fx)
    rec = rp("parse_proguard_record")
    sy, res = ev(fx, rep, rule, "%s/try_parse" % rule, p, opaque=lambda q: q == rec)
    if res is None:
        return
    line = ("in", "line")
    r = call(rec, line)

    def ref(o):
        if not o(("is", mk_field(r, "0"), "Ok")):
            return err(mk_payload(mk_field(r, "0"), "Err", "0"))
        if not o(("empty", mk_field(r, "1"))):
            return err(("adt", "ParseError", "ParseError", (("line", line), ("kind", ("adt", "ParseErrorKind", "ParseError",
                                                                                     (("0", ("lit", "str", "line is not a valid proguard record")),))))))
        return ok(mk_payload(mk_field(r, "0"), "Ok", "0"))
    prw = pair_struct_rw(fx)
    bad, n = fc.compare_paths(res, ref, (lambda st, out: fc.rewrite(out[1], prw)) if prw else (lambda st, out: out[1]), rw=prw)
    R1.report_cmp(rep, rule, "%s/try_parse" % rule, fx.bodies[p], res, bad,
                  "(Err, _) -> Err; (Ok, rest) with bytes left -> Err{line: whole input}; else Ok(record)")


def check_parser_premises(fx, rep, rule):
    """the whole line-parser rule set as a premise of a property that quantifies over 'well-formed mapping files':
    dispatcher, the three line grammars, line-terminator set, combinators (incl. split_line / blank-line skipping),
    the record iterator. Returns the number of grammar success paths."""
    check_dispatch(fx, rep, rule)
    sks = {}
    sks["member"] = check_member_parser(fx, rep, rule)
    sks["class"] = check_class_parser(fx, rep, rule)
    sks["header"] = check_header_parser(fx, rep, rule)
    is_newline_set(fx, rep, rule)
    check_combinators(fx, rep, rule)
    check_iterator(fx, rep, rule)
    n = sum(len(v or []) for v in sks.values())
    rep.floor(rule, n, 18, "success paths of the three line parsers (14 member + 1 class + 3 header)")
    return n
