#!/usr/bin/env python3
"""Entry point: ./check <Cxx> [--tier quick|thorough] [--replay file]

Decides one property from /repo's current source (re-extracted by the compiler front end on
every run, cached only by content hash). Exit 0 = held; 1 = VIOLATION line(s); 2 = no verdict
(tree does not build / extractor failed)."""
import sys, os, importlib, json, time, traceback

sys.path.insert(0, os.path.dirname(os.path.abspath(__file__)))
import facts as F
import report as RPT


MIN_INSTANCES = dict(C01=48, C02=85, C03=51, C04=43, C05=14, C06=120, C07=25, C08=20, C09=31, C10=49, C11=15, C12=75, C13=55,
                     C14=19, C15=20, C16=37, C18=8, C19=10, C20=60)


class Ctx:
    def __init__(self, tier, base_feature=""):
        self.tier = tier
        self.base_feature = base_feature
        self._facts = {}
        self._controls = None
        self.cache_hits = {}

    def facts(self, feature=""):
        feature = feature or self.base_feature
        if feature not in self._facts:
            d, hit = F.extract(F.REPO, feature)
            self.cache_hits[feature or "default"] = hit
            fx = F.Facts(d)
            if fx.errors:
                raise F.ExtractError("extractor met constructs it does not know: %s" % fx.errors[:5])
            if "proguard" not in fx.crates:
                raise F.ExtractError("no facts for crate proguard")
            self._facts[feature] = fx
        return self._facts[feature]

    def controls(self):
        if self._controls is None:
            d, hit = F.extract(os.path.join(F.VERIF, "controls"), "", crates=("pgcontrols",))
            self._controls = F.Facts(d, crates=("pgcontrols",))
        return self._controls


def main(argv):
    if len(argv) < 2:
        print(__doc__)
        return 2
    prop = argv[1]
    tier = os.environ.get("VERIF_TIER", "quick")
    replay = None
    i = 2
    while i < len(argv):
        if argv[i] == "--tier":
            tier = argv[i + 1]; i += 2
        elif argv[i] == "--replay":
            replay = argv[i + 1]; i += 2
        else:
            i += 1
    if tier not in ("quick", "thorough"):
        tier = "quick"
    seed = int(os.environ.get("VERIF_SEED", "0") or 0)
    try:
        mod = importlib.import_module("rules_" + prop)
    except ImportError as e:
        print("no rule module for %s: %s" % (prop, e))
        return 2
    ctx = Ctx(tier)
    rep = RPT.Report(prop, tier)
    try:
        mod.run(ctx, rep)
    except F.ExtractError as e:
        print("NO VERDICT for %s: %s" % (prop, e))
        return 2
    except Exception as e:
        # A rule met a construct it was not written for. The tree builds (facts were extracted), so this is a shape the rule
        # cannot decide: fail closed as `undecidable-shape` (exit 1, with the construct named) rather than give no verdict.
        tb = traceback.extract_tb(e.__traceback__)
        where = "%s:%s" % (os.path.basename(tb[-1].filename), tb[-1].name) if tb else "?"
        traceback.print_exc()
        rep.undecidable(prop + ".internal", "%s.internal/rule-error/%s/%s" % (prop, type(e).__name__, where), loc="",
                        construct="rule code raised %s: %s" % (type(e).__name__, str(e)[:200]),
                        detail="the analysed code has a shape this rule does not handle; the remaining rules of the check were not run")
    # premise of every check: the analysed build configurations cover the code (no behaviour hidden behind other cfg predicates;
    # the `uuid` feature only adds code)
    try:
        import cfgscan
        cfgscan.check(ctx, rep, prop)
    except F.ExtractError as e:
        print("NO VERDICT for %s: %s" % (prop, e))
        return 2
    if tier == "thorough" and getattr(mod, "THOROUGH_SECOND_CONFIG", True) and prop != "C18":
        # thorough = every rule of the property again on the `uuid` feature configuration (the second build
        # configuration of the crate), merged under rule names suffixed with @uuid
        ctx2 = Ctx("quick", base_feature="uuid")
        ctx2._controls = ctx._controls
        rep2 = RPT.Report(prop, tier)
        try:
            mod.run(ctx2, rep2)
        except F.ExtractError as e:
            print("NO VERDICT for %s (uuid configuration): %s" % (prop, e))
            return 2
        except Exception as e:
            tb = traceback.extract_tb(e.__traceback__)
            where = "%s:%s" % (os.path.basename(tb[-1].filename), tb[-1].name) if tb else "?"
            traceback.print_exc()
            rep2.undecidable(prop + ".internal", "%s.internal/rule-error/%s/%s" % (prop, type(e).__name__, where), loc="",
                             construct="rule code raised %s: %s (uuid configuration)" % (type(e).__name__, str(e)[:200]))
        for i in rep2.instances:
            if i["rule"].endswith("@uuid"):
                continue
            i = dict(i)
            i["rule"] += "@uuid"
            i["key"] += "@uuid" if i["status"] == "pass" else ""
            rep.instances.append(i)
        for f_ in rep2.floors:
            f_ = dict(f_); f_["rule"] += "@uuid"; rep.floors.append(f_)
        rep.analysed_functions |= rep2.analysed_functions
        if "uuid" not in rep.configs:
            rep.configs.append("uuid")
        ctx.cache_hits.update(ctx2.cache_hits)
    # anti-vacuity: a rule module whose rules silently stop matching (anchor renamed, early return) must not pass with a handful
    # of instances. Minimum = 60% of the number of passing instances counted on the repaired tree (quick tier, default config).
    n_pass_default = len([i for i in rep.instances if i["status"] == "pass" and not i["rule"].endswith("@uuid")])
    rep.floor(prop + ".instances", n_pass_default, MIN_INSTANCES.get(prop, 1), "passing rule instances of this check (anti-vacuity)")
    rep.context["fact_cache_hit"] = ctx.cache_hits
    # what the loader renamed / reordered to the rules' reference vocabulary before any rule ran (empty on the reference tree)
    norm = {}
    for feat_, fx_ in ctx._facts.items():
        d_ = {k_: v_ for k_, v_ in (("parameters", getattr(fx_, "renamed_params", {})), ("private_fields", getattr(fx_, "renamed_fields", {})),
                                    ("field_order", getattr(fx_, "reordered_fields", {})), ("types", getattr(fx_, "renamed_adts", {}))) if v_}
        if d_:
            norm[feat_ or "default"] = d_
    rep.context["names_normalised"] = norm
    if replay:
        try:
            want = json.load(open(replay))
            key = want.get("key")
            hits = [x for x in rep.instances if x["key"] == key]
            print("replay of %s: %s" % (key, [h["status"] for h in hits] or "instance no longer present"))
        except OSError as e:
            print("cannot read replay file: %s" % e)
    cmd = "cd /verif && ./check %s --tier %s" % (prop, tier)
    return RPT.finish(rep, mod.LEVEL, mod.EXPLANATION, mod.RULE_TEXT, mod.TRUSTED, cmd, seed)


if __name__ == "__main__":
    sys.exit(main(sys.argv))
