"""Type-checker witnesses: generate a tiny crate depending on /repo (and the controls crate) and
let rustc decide `T: Send + Sync`. Positive lines must compile; negative control lines must each
be rejected with E0277."""
import os, json, subprocess, shutil, hashlib
import facts as F

WORK = F.WORK


def _write_crate(dirname, lines, repo, features):
    d = os.path.join(WORK, dirname)
    os.makedirs(os.path.join(d, "src"), exist_ok=True)
    pkg = "pgw_" + dirname.replace("-", "_")
    feat = (', features = ["%s"]' % features) if features else ""
    cargo = """[package]
name = "%s"
version = "0.1.0"
edition = "2021"

[workspace]

[dependencies]
proguard = { path = "%s"%s }
pgcontrols = { path = "%s" }
""" % (pkg, repo, feat, os.path.join(F.VERIF, "controls"))
    _write_if_changed(os.path.join(d, "Cargo.toml"), cargo)
    # a lock file derived from /repo's, so that exactly the pinned dependency versions are used
    try:
        shutil.copyfile(os.path.join(repo, "Cargo.lock"), os.path.join(d, "Cargo.lock"))
    except OSError:
        pass
    src = "#![allow(dead_code, unused, unreachable_code)]\nfn ss<T: Send + Sync + ?Sized>() {}\nfn ssv<T: Send + Sync>(_: &T) {}\n" \
          "fn a0<R: Send + Sync>(_: impl Fn() -> R) {}\nfn a1<A, R: Send + Sync>(_: impl Fn(A) -> R) {}\n" \
          "fn a2<A, B, R: Send + Sync>(_: impl Fn(A, B) -> R) {}\nfn a3<A, B, C, R: Send + Sync>(_: impl Fn(A, B, C) -> R) {}\n" \
          "fn a4<A, B, C, D, R: Send + Sync>(_: impl Fn(A, B, C, D) -> R) {}\n"
    line_map = {}
    n = src.count("\n")
    for label, code in lines:
        src += code + "\n"
        n += 1
        line_map[n] = label
        extra = code.count("\n")
        for k in range(extra):
            line_map[n - extra + k] = label  # multi-line snippets: map all lines
        n += 0
    _write_if_changed(os.path.join(d, "src", "lib.rs"), src)
    return d, line_map, pkg


def _write_if_changed(path, content):
    try:
        if open(path).read() == content:
            return
    except OSError:
        pass
    open(path, "w").write(content)


def run_witness(dirname, lines, repo=None, features=""):
    """lines: list of (label, one-line rust item). Returns (ok, errors) where errors is a list of
    dicts {label, code, message} (label None if the error is not on a witness line)."""
    repo = repo or F.REPO
    # one witness crate and target directory per analysed tree: two checks running at the same time on different trees (developer
    # matrix) must not overwrite each other's Cargo.toml
    tag = "" if os.path.realpath(repo) == "/repo" else "-" + hashlib.md5(os.path.realpath(repo).encode()).hexdigest()[:8]
    dirname = dirname + tag
    d, line_map, pkg = _write_crate(dirname, lines, repo, features)
    env = dict(os.environ)
    env["CARGO_TARGET_DIR"] = os.path.join(WORK, "witness-target")      # shared (cargo locks it): dependencies are built once
    env["CARGO_NET_OFFLINE"] = "true"
    env.pop("RUSTC_WRAPPER", None)
    env["RUSTFLAGS"] = "-Awarnings"
    r = subprocess.run(["cargo", "+nightly", "check", "--offline", "--message-format=json", "--lib"],
                       cwd=d, env=env, capture_output=True, text=True)
    errors = []
    foreign_error = False
    for ln in r.stdout.splitlines():
        try:
            m = json.loads(ln)
        except ValueError:
            continue
        if m.get("reason") != "compiler-message":
            continue
        msg = m["message"]
        if msg.get("level") != "error":
            continue
        is_witness = m.get("target", {}).get("name") == pkg
        if not is_witness:
            foreign_error = True
            errors.append(dict(label=None, code=(msg.get("code") or {}).get("code"),
                               message=msg.get("message"), foreign=True))
            continue
        label = None
        for sp in msg.get("spans", []):
            if sp.get("is_primary"):
                label = line_map.get(sp["line_start"])
        errors.append(dict(label=label, code=(msg.get("code") or {}).get("code"),
                           message=msg.get("message")))
    return r.returncode == 0, errors, foreign_error, r.stderr[-2000:]
