"""API wiring rules: public constructors store their arguments in the fields of the same names, public getters
return the field of their name, and the mapper's public constructors delegate with the flag they were given.
(These are the entry points every property quantifies through; a swapped field here breaks the property for
every input although all per-fragment rules still hold.)"""
import facts as F
import sym as S
import fc
import anchors as A
import census as C
import re
from sym import some, NONE, lit_int, mk_field, mk_payload

TRANSPARENT = ("as_ref", "as_deref", "as_str", "deref", "as_slice")


def _single(fx, path):
    sy = S.Sym(fx)
    try:
        res = sy.eval_body(fx.bodies[path])
    except S.Undecidable:
        return None
    return res


def check_getters(fx, rep, rule, type_contains, expect=None):
    """every public inherent `fn name(&self)` of the type whose name equals a field name returns that field"""
    adt = None
    for a in fx.all_adts("proguard"):
        if a["path"].endswith(type_contains):
            adt = a
    if adt is None:
        rep.floor(rule, 0, 1, "type " + type_contains)
        return 0
    fields = [f["name"] for f in adt["variants"][0]["fields"]]
    n = 0
    for p, b in sorted(fx.bodies.items()):
        if b["krate"] != "proguard" or b["kind"] != "AssocFn" or b.get("impl_trait") or not b.get("reachable_pub"):
            continue
        if type_contains.split("::")[-1] not in (b.get("impl_self") or "").split("<")[0].split("::")[-1:] :
            continue
        name = b.get("name")
        if name not in fields or len(b["params"]) != 1 or b["params"][0].get("self_kind") not in ("RefImm", "Imm"):
            continue
        res = _single(fx, p)
        n += 1
        rep.fn(p)
        slf = ("in", "self")
        want = mk_field(slf, name)
        good = res is not None and len(res) >= 1
        desc = []
        if res is not None:
            for st, (k, v) in res:
                desc.append(S.tstr(v)[:100])
                # allow Option/deref adapters: value mentions exactly the field `name` of self and no other field of self
                used = set()

                def f(t):
                    if t[0] == "field" and t[1] == slf:
                        used.add(t[2])
                    return None
                fc.rewrite(v, f)
                for a_, pol in st.conds:
                    fc.rewrite(a_, f)
                if used != {name}:
                    good = False
        rep.check(rule, "%s/getter/%s::%s" % (rule, type_contains.split("::")[-1], name), good, loc=F.short_file(b["sp"]),
                  found="%s() = %s" % (name, desc), expected="%s() returns self.%s" % (name, name), nontrivial=True)
    return n


def check_constructor(fx, rep, rule, type_path_suffix, method, expect):
    """expect: dict field -> ('param', name) | ('some-param', name) | ('lit', term) | ('box-some-param', name)"""
    c = [p for p, b in fx.bodies.items() if b["krate"] == "proguard" and b["kind"] == "AssocFn" and b.get("name") == method
         and not b.get("impl_trait") and (b.get("impl_self") or "").split("<")[0].endswith(type_path_suffix)]
    p = A.one(rep, rule, "%s::%s" % (type_path_suffix, method), c)
    if not p:
        return
    rep.fn(p)
    res = _single(fx, p)
    b = fx.bodies[p]
    good = res is not None and len(res) == 1 and res[0][1][1][0] == "adt"
    found = "-"
    if good:
        v = res[0][1][1]
        d = dict(v[3])
        found = S.tstr(v)
        for fld, (kind, x) in expect.items():
            if kind == "param":
                w = ("in", x)
            elif kind == "some-param":
                w = some(("in", x))
            elif kind == "box-some-param":
                w = some(("call", "std::boxed::Box::new", (("in", x),)))
                if d.get(fld) == some(("in", x)):
                    w = some(("in", x))      # Box::new modelled as identity
            else:
                w = x
            if d.get(fld) != w:
                good = False
    rep.check(rule, "%s/constructor/%s::%s" % (rule, type_path_suffix.split("::")[-1], method), good, loc=F.short_file(b["sp"]), found=found,
              expected="fields wired from the arguments of the same names: %s" % {k: (v[1] if v[0] != "lit" else S.tstr(v[1])) for k, v in expect.items()})


def check_frame_api(fx, rep, rule):
    sf = "stacktrace::StackFrame"
    check_constructor(fx, rep, rule, sf, "new", dict(class_=None) and {"class": ("param", "class"), "method": ("param", "method"), "line": ("param", "line"),
                                                                      "file": ("lit", NONE), "parameters": ("lit", NONE)})
    check_constructor(fx, rep, rule, sf, "with_file", {"class": ("param", "class"), "method": ("param", "method"), "line": ("param", "line"),
                                                       "file": ("some-param", "file"), "parameters": ("lit", NONE)})
    check_constructor(fx, rep, rule, sf, "with_parameters", {"class": ("param", "class"), "method": ("param", "method"), "line": ("lit", lit_int(0)),
                                                             "file": ("lit", NONE), "parameters": ("some-param", "arguments")})
    return check_getters(fx, rep, rule, sf)


def check_throwable_trace_api(fx, rep, rule):
    th = "stacktrace::Throwable"
    check_constructor(fx, rep, rule, th, "new", {"class": ("param", "class"), "message": ("lit", NONE)})
    check_constructor(fx, rep, rule, th, "with_message", {"class": ("param", "class"), "message": ("some-param", "message")})
    st = "stacktrace::StackTrace"
    check_constructor(fx, rep, rule, st, "new", {"exception": ("param", "exception"), "frames": ("param", "frames"), "cause": ("lit", NONE)})
    check_constructor(fx, rep, rule, st, "with_cause", {"exception": ("param", "exception"), "frames": ("param", "frames"), "cause": ("box-some-param", "cause")})
    n = check_getters(fx, rep, rule, th)
    n += check_getters(fx, rep, rule, st)
    return n


def check_mapper_constructors(fx, rep, rule):
    """new -> build(mapping, false); new_with_param_mapping -> build(mapping, flag); From impls delegate likewise"""
    build = A.method(fx, A.MAPPER, "create_proguard_mapper")
    if len(build) != 1:
        import builder_rules as BR
        b_ = BR.builder_path(fx, rep, rule, "mapper")
        build = [b_] if b_ else []
    if len(build) != 1:
        return
    bp = build[0]
    B = S.short_path(bp)
    pm_new = A.method(fx, "mapping::ProguardMapping", "new")
    PMN = S.short_path(pm_new[0]) if len(pm_new) == 1 else "?"
    cases = []
    for nm, want in (("new", lambda: ("call", B, (("in", "mapping"), S.FALSE))),
                     ("new_with_param_mapping", lambda: ("call", B, (("in", "mapping"), ("in", "initialize_param_mapping"))))):
        c = A.method(fx, A.MAPPER, nm)
        p = A.one(rep, rule, "ProguardMapper::" + nm, c)
        if p:
            cases.append((nm, p, want()))
    for nm, p, want in cases:
        rep.fn(p)
        if p == bp:
            # the builder inlined into this constructor: its two parameters are the builder's (the builder rules read the mapping
            # and the flag from them by position)
            ok_sig = len([prm for prm in fx.bodies[p]["params"] if prm.get("pat")]) == 2 and (fx.bodies[p]["params"][1].get("ty") or "") == "bool"
            rep.check(rule, "%s/mapper-constructor/%s" % (rule, nm), ok_sig, loc=F.short_file(fx.bodies[p]["sp"]),
                      found="%s is the builder itself" % nm, expected="(mapping, flag) -> built mapper", nontrivial=False)
            continue
        sy = S.Sym(fx, opaque=lambda q: q == bp)
        res = sy.eval_body(fx.bodies[p])
        names = [prm["pat"]["name"] for prm in fx.bodies[p]["params"] if prm.get("pat")]
        w = want
        if nm == "new":
            w = ("call", B, (("in", names[0]), S.FALSE))
        else:
            w = ("call", B, (("in", names[0]), ("in", names[1])))
        good = len(res) == 1 and res[0][1][1] == w
        rep.check(rule, "%s/mapper-constructor/%s" % (rule, nm), good, loc=F.short_file(fx.bodies[p]["sp"]), found=[S.tstr(o[1]) for s, o in res],
                  expected=S.tstr(w))
    # From impls
    for p in A.method(fx, A.MAPPER, "from", trait="From"):
        rep.fn(p)
        opaque = {bp} | set(A.method(fx, A.MAPPER, "new")) | set(A.method(fx, A.MAPPER, "new_with_param_mapping")) | set(pm_new)
        sy = S.Sym(fx, opaque=lambda q: q in opaque)
        res = sy.eval_body(fx.bodies[p])
        v = res[0][1][1] if len(res) == 1 else None
        tuple_variant = "bool" in (fx.bodies[p].get("inputs") or [""])[0]
        txt = S.tstr(v) if v else "-"
        # the single parameter may be bound to a name or destructured in the parameter pattern (`(mapping, flag): (&str, bool)`)
        pat0 = fx.bodies[p]["params"][0].get("pat") or {}
        pname0 = pat0.get("name", "arg0") if pat0.get("k") == "Bind" else "arg0"
        if tuple_variant:
            good = v is not None and v[0] == "call" and v[1].endswith("new_with_param_mapping") and v[2][1] == mk_field(("in", pname0), "1") \
                and "ProguardMapping::new" in repr(v[2][0]) and repr(mk_field(("in", pname0), "0")) in repr(v[2][0])
        else:
            good = v is not None and v[0] == "call" and v[1].endswith("ProguardMapper::new") and "ProguardMapping::new" in repr(v[2][0])
        rep.check(rule, "%s/mapper-constructor/from%s" % (rule, "-tuple" if tuple_variant else "-str"), good, loc=F.short_file(fx.bodies[p]["sp"]), found=txt,
                  expected="delegates to new / new_with_param_mapping with the mapping built from the given text (and the given flag)", nontrivial=False)


def check_mapping_wiring(fx, rep, rule):
    """ProguardMapping::new stores its argument; ProguardMapping::iter iterates exactly the stored bytes (every
    property that quantifies over 'a mapping file' enters through these two)."""
    MF = A.mapping_field(fx)
    newp = A.method(fx, "mapping::ProguardMapping", "new")
    pn = "source"
    if len(newp) == 1:
        pp_ = [prm["pat"] for prm in fx.bodies[newp[0]]["params"] if prm.get("pat")]
        pn = pp_[0].get("name", "arg0") if pp_ and pp_[0].get("k") == "Bind" else "arg0"
    check_constructor(fx, rep, rule, "mapping::ProguardMapping", "new", {MF: ("param", pn)})
    c = A.method(fx, "mapping::ProguardMapping", "iter")
    p = A.one(rep, rule, "ProguardMapping::iter", c)
    if not p:
        return
    rep.fn(p)
    res = _single(fx, p)
    b = fx.bodies[p]
    slf = ("in", "self")
    good = res is not None and len(res) == 1 and not res[0][0].conds and not res[0][0].effects and res[0][1][1][0] == "adt"
    found = "-"
    if res is not None and len(res) == 1:
        v = res[0][1][1]
        found = S.tstr(v)
        if good:
            flds = dict(v[3])
            good = len(flds) == 1 and list(flds.values())[0] == mk_field(slf, MF) and v[1].endswith("ProguardRecordIter")
    rep.check(rule, "%s/mapping-iter" % rule, good, loc=F.short_file(b["sp"]), found=found,
              expected="ProguardRecordIter over exactly self.source (no condition, no effect)")


def check_structural_eq(fx, rep, rule, type_suffixes):
    """`==` on the listed public value types is the derived, field-by-field comparison: a type that implements PartialEq also has
    the compiler's `StructuralPartialEq` marker, which only `#[derive(PartialEq)]` can emit (it is not nameable on stable). A
    hand-written `eq` is accepted when it is visibly the same comparison (a struct: the conjunction of `self.f == other.f` over all
    fields); any other hand-written `eq` is reported - what two values "being the same answer" means is then up to that function."""
    impls = fx.items.get("proguard", {}).get("impls", [])
    base = lambda s: re.sub(r"<.*", "", s or "")
    n = 0
    for suf in type_suffixes:
        a = fx.adt("proguard::" + suf)
        if a is None:
            A.one(rep, rule, "public type %s" % suf, [])
            continue
        mine = [im for im in impls if base(im.get("self")) == suf]
        has_eq = [im for im in mine if (im.get("trait") or "") == "std::cmp::PartialEq"]
        if not has_eq:
            continue
        n += 1
        derived = any((im.get("trait") or "") == "std::marker::StructuralPartialEq" for im in mine) and all(im.get("exp") for im in has_eq)
        if derived:
            rep.ok(rule, "%s/structural-eq/%s" % (rule, suf), loc=F.short_file(has_eq[0]["sp"]), found="derived PartialEq", nontrivial=False)
            continue
        good, found = False, "hand-written PartialEq"
        cands = A.method(fx, suf, "eq", trait="PartialEq")
        if len(cands) == 1 and len(a["variants"]) == 1:
            b = fx.bodies[cands[0]]
            names = [prm["pat"]["name"] for prm in b["params"] if prm.get("pat") and prm["pat"].get("k") == "Bind"]
            try:
                res = S.Sym(fx).eval_body(b)
            except S.Undecidable as e:
                res, found = [], "hand-written PartialEq: %s" % e.msg
            if len(names) == 2 and res:
                fields = [f_["name"] for f_ in a["variants"][0]["fields"]]
                x, y = ("in", names[0]), ("in", names[1])

                def ref(o):
                    return S.TRUE if all(o(("eq", S.mk_field(x, f_), S.mk_field(y, f_))) for f_ in fields) else S.FALSE
                bad, _ = fc.compare_paths(res, ref, lambda st, out: out[1])
                good = not bad
                found = "hand-written PartialEq comparing %s" % ("every field" if good else "something else than every field")
        rep.check(rule, "%s/structural-eq/%s" % (rule, suf), good, loc=F.short_file(has_eq[0]["sp"]), found=found,
                  expected="`==` on %s compares every field (derived, or visibly the same)" % suf)
    return n
