"""C18 - the mapping UUID is the v5 UUID of exactly the source bytes in the guardsquare.com namespace (PROV + TAB, cfg uuid)."""
import re
import facts as F
import anchors as A
import flow as FL
import effects as E
import cen_rules as CR
import census as C

LEVEL = "other"
TECHNIQUE = "provenance of the single new_v5 call (namespace initialiser chain and data argument), enumeration of all constructions of ProguardMapping, ambient-source scan; feature configuration `uuid`"
EXPLANATION = ("Decided in the `uuid` feature configuration (extracted by the compiler with --features uuid): ProguardMapping::uuid is a "
               "single call Uuid::new_v5(NS, X); X is the field `source` of self, and every construction of ProguardMapping in the crate "
               "stores a byte slice untouched (new: the argument itself; section: a sub-slice of source selected by the caller's range; "
               "Default: empty) - no trimming, decoding or normalisation anywhere; NS is the lazy_static whose initialiser is "
               "Uuid::new_v5(&Uuid::NAMESPACE_DNS, b\"guardsquare.com\"); nothing ambient (time/env/thread/rng) is reachable. "
               "Trusted: crate uuid 1.8.0 (lock-pinned, feature v5) implements RFC 4122 section 4.3 (SHA-1).")
RULE_TEXT = "one instance per fact of the new_v5 call, per construction site of ProguardMapping, per reachable body scanned"
TRUSTED = ["uuid 1.8.0 new_v5 (Cargo.lock pinned)", "lazy_static 1.x Lazy::get runs the initialiser once and returns its value", "rustc front end"]

UUID_PIN = ("1.8.0", "a183cf7feeba97b4dd1c0d46788634f6221d87fa961b305bed08c851829efcc0")


def is_new_v5(n):
    return n.get("k") == "Call" and "fn" in n and n["fn"]["path"].endswith("::new_v5") and n["fn"]["path"].startswith("uuid::")


def run(ctx, rep):
    fx = ctx.facts("uuid")
    rep.configs.append("uuid")
    p = A.one(rep, "C18.1", "ProguardMapping::uuid", A.method(fx, "mapping::ProguardMapping", "uuid"))
    if not p:
        return
    rep.fn(p)
    b = fx.bodies[p]
    body = F.strip(b["body"])
    calls = [n for n in F.walk(b["body"]) if n.get("k") == "Call"]
    v5 = [n for n in calls if is_new_v5(n)]
    rep.check("C18.1", "C18.1/single-call", is_new_v5(body) and len(v5) == 1, loc=F.short_file(b["sp"]), found=F.pp(b["body"])[:300],
              expected="uuid() is exactly one Uuid::new_v5(NS, data) call")
    if len(v5) != 1:
        return
    ns_arg, data_arg = v5[0]["args"]
    d = FL.peel(data_arg)
    ok_data = d.get("k") == "Field" and d["name"] == "source" and F.strip(d["e"]).get("k") == "Var" and F.strip(d["e"])["name"] == "self"
    rep.check("C18.1", "C18.1/data-is-source", ok_data, loc=F.loc(v5[0]), found="data argument = %s" % F.pp(data_arg),
              expected="data = self.source (the raw bytes, no transformation)")
    # namespace: Deref::deref(&NAMESPACE static) whose lazy initialiser is new_v5(NAMESPACE_DNS, b"guardsquare.com")
    ns = FL.peel(ns_arg)
    st = None
    if F.is_call(ns, "std::ops::Deref::deref"):
        inner = FL.peel(ns["args"][0])
        if inner.get("k") == "Static":
            st = inner["path"]
    rep.check("C18.2", "C18.2/namespace-static", st is not None and st.endswith("uuid::NAMESPACE"), loc=F.loc(v5[0]), found="namespace argument = %s" % F.pp(ns_arg)[:200],
              expected="the lazy_static NAMESPACE declared inside uuid()")
    inits = [bb for q, bb in fx.bodies.items() if q.endswith("__static_ref_initialize") and "uuid::NAMESPACE" in q]
    ok_init = False
    desc = "initialiser not found"
    if len(inits) == 1:
        ib = F.strip(inits[0]["body"])
        desc = F.pp(ib)
        if is_new_v5(ib):
            a0, a1 = FL.peel(ib["args"][0]), FL.peel(ib["args"][1])
            ok_init = a0.get("k") == "Const" and a0["path"].endswith("Uuid::NAMESPACE_DNS") or (a0.get("k") == "Const" and a0["path"].endswith("NAMESPACE_DNS"))
            ok_init = ok_init and a1.get("k") == "Lit" and a1["lit"]["t"] == "bytes" and bytes(a1["lit"]["v"]) == b"guardsquare.com"
        rep.fn(inits[0]["path"])
    rep.check("C18.2", "C18.2/namespace-value", ok_init, loc=F.short_file(inits[0]["sp"]) if inits else "", found=desc,
              expected='Uuid::new_v5(&Uuid::NAMESPACE_DNS, b"guardsquare.com")')
    # the lazy plumbing returns the initialiser's value: deref -> __stability -> Lazy::get(LAZY, __static_ref_initialize)
    stab = [bb for q, bb in fx.bodies.items() if q.endswith("deref::__stability") and "uuid::NAMESPACE" in q]
    ok_lazy = False
    if len(stab) == 1:
        sb_ = F.strip(stab[0]["body"])
        ok_lazy = sb_.get("k") == "Call" and sb_["fn"]["path"].startswith("lazy_static::lazy::Lazy") and sb_["fn"]["path"].endswith("::get") and \
            any(F.strip(a).get("k") == "Zst" and F.strip(a).get("fn", {}).get("path", "").endswith("__static_ref_initialize") for a in sb_["args"])
    rep.check("C18.2", "C18.2/lazy-plumbing", ok_lazy, found=F.pp(stab[0]["body"])[:200] if stab else "-", expected="Lazy::get(&LAZY, __static_ref_initialize)", nontrivial=False)
    # every construction of ProguardMapping
    cons = []
    for q, bb in fx.bodies.items():
        if bb["krate"] != "proguard":
            continue
        for n in F.walk(bb["body"]):
            if n.get("k") == "Adt" and n["adt"].endswith("mapping::ProguardMapping"):
                cons.append((q, bb, n))
    rep.floor("C18.1", len(cons), 3, "construction sites of ProguardMapping (new, section, Default)")
    for q, bb, n in cons:
        srcf = [f for f in n["fields"] if f["name"] == "source"]
        v = FL.peel(srcf[0]["e"]) if srcf else None
        how = None
        if v is not None:
            if v.get("k") == "Var" and any(prm.get("pat") and prm["pat"].get("k") == "Bind" and prm["pat"].get("id") == v["id"] for prm in bb["params"]):
                how = "the constructor argument itself"
            elif F.is_call(v, "std::ops::Index::index") and FL.peel(v["args"][0]).get("k") == "Field" and FL.peel(v["args"][0])["name"] == "source" \
                    and FL.peel(v["args"][1]).get("k") == "Var":
                how = "sub-slice of self.source by the caller's range"
            elif F.is_call(v, "std::default::Default::default"):
                how = "Default (empty slice)"
            elif F.is_call(v, "std::clone::Clone::clone") and FL.peel(v["args"][0]).get("k") == "Field" and FL.peel(v["args"][0])["name"] == "source":
                how = "clone of self.source (a shared slice reference)"
        rep.fn(q)
        rep.check("C18.1", "C18.1/construction/%s" % C.short_fn(q), how is not None, loc=F.loc(n), found="source: %s%s" % (F.pp(srcf[0]["e"]) if srcf else "?", (" -- " + how) if how else ""),
                  expected="source bytes stored untouched (argument, sub-slice of source, or Default)")
    # no assignment to .source anywhere
    writes = []
    for q, bb in fx.bodies.items():
        if bb["krate"] != "proguard":
            continue
        for n in F.walk(bb["body"]):
            if n.get("k") in ("Assign", "AssignOp"):
                l = F.strip(n["l"])
                if l.get("k") == "Field" and l["name"] == "source" and "ProguardMapping" in l.get("base_ty", ""):
                    writes.append(F.loc(n))
    rep.check("C18.1", "C18.1/no-source-mutation", not writes, found=writes or "no assignment to ProguardMapping.source", expected="source is write-once", nontrivial=False)
    # ambient scan over everything reachable from uuid()
    seen = fx.reachable([p])
    amb = [(q, n, w) for q, n, w in E.ambient_sources(fx, seen) if not (n.get("k") == "Static" and "uuid::NAMESPACE" in n.get("path", ""))]
    rep.check("C18.3", "C18.3/ambient", not amb, found=[(C.short_fn(q), w) for q, n, w in amb] or "%d reachable local bodies, no ambient source" % len(seen),
              expected="identifier depends on nothing but the bytes")
    pins = CR.lock_pins()
    have = pins.get("uuid", [])
    rep.check("C18.4", "C18.4/uuid-crate-pinned", any(v == UUID_PIN[0] and c == UUID_PIN[1] for v, c in have), loc="Cargo.lock", found="uuid %s" % have,
              expected="uuid %s (v5 = SHA-1 name-based, RFC 4122 4.3)" % UUID_PIN[0])
    try:
        toml = open(F.REPO + "/Cargo.toml").read()
        okf = re.search(r'uuid\s*=\s*\{[^}]*features\s*=\s*\[[^\]]*"v5"', toml) is not None
    except OSError:
        okf = False
    rep.check("C18.4", "C18.4/v5-feature", okf, loc="Cargo.toml", found="uuid dependency declares feature v5: %s" % okf, expected='features = ["v5"]', nontrivial=False)
