"""C18 - the mapping UUID is the v5 UUID of exactly the source bytes in the guardsquare.com namespace (PROV + TAB, cfg uuid)."""
import re
import facts as F
import anchors as A
import flow as FL
import effects as E
import cen_rules as CR
import census as C

LEVEL = "other"
TECHNIQUE = "canonical evaluation of uuid() (helpers, locals and lazy_static plumbing evaluated away) compared with the reference term; canonical evaluation of every function constructing a ProguardMapping; mapping wiring; ambient-source scan; feature configuration `uuid`"
EXPLANATION = ("Decided in the `uuid` feature configuration (extracted by the compiler with --features uuid): ProguardMapping::uuid is a "
               "single call Uuid::new_v5(NS, X); X is the field `source` of self, and every construction of ProguardMapping in the crate "
               "stores a byte slice untouched (new: the argument itself; section: a sub-slice of source selected by the caller's range; "
               "Default: empty) - no trimming, decoding or normalisation anywhere; NS is the lazy_static whose initialiser is "
               "Uuid::new_v5(&Uuid::NAMESPACE_DNS, b\"guardsquare.com\"); nothing ambient (time/env/thread/rng) is reachable. "
               "Trusted: crate uuid 1.8.0 (lock-pinned, feature v5) implements RFC 4122 section 4.3 (SHA-1).")
RULE_TEXT = "one instance per fact of the new_v5 call, per construction site of ProguardMapping, per reachable body scanned"
TRUSTED = ["uuid 1.8.0 new_v5 (Cargo.lock pinned)", "lazy_static 1.x Lazy::get runs the initialiser once and returns its value", "rustc front end"]

UUID_PIN = ("1.8.0", "a183cf7feeba97b4dd1c0d46788634f6221d87fa961b305bed08c851829efcc0")


def _guardsquare_namespace_bytes():
    """uuid5(NAMESPACE_DNS, "guardsquare.com") computed from the RFC definition (SHA-1 of namespace bytes + name, version/variant bits)"""
    import hashlib
    dns = bytes.fromhex("6ba7b8109dad11d180b400c04fd430c8")
    h = bytearray(hashlib.sha1(dns + b"guardsquare.com").digest()[:16])
    h[6] = (h[6] & 0x0F) | 0x50
    h[8] = (h[8] & 0x3F) | 0x80
    return list(h)


def is_new_v5(n):
    return n.get("k") == "Call" and "fn" in n and n["fn"]["path"].endswith("::new_v5") and n["fn"]["path"].startswith("uuid::")


def run(ctx, rep):
    fx = ctx.facts("uuid")
    rep.configs.append("uuid")
    p = A.one(rep, "C18.1", "ProguardMapping::uuid", A.method(fx, "mapping::ProguardMapping", "uuid"))
    if not p:
        return
    rep.fn(p)
    b = fx.bodies[p]
    MF = A.mapping_field(fx)
    import sym as S
    from sym import mk_field
    sy = S.Sym(fx, inline_depth=10)
    try:
        res = sy.eval_body(b)
    except S.Undecidable as e:
        rep.undecidable("C18.1", "C18.1/uuid/shape", loc=F.loc(e.node) if isinstance(e.node, dict) else "", construct=e.msg)
        res = None
    if res is not None:
        # canonical value of uuid(): helpers, locals, the lazy_static plumbing (Deref -> Lazy::get(init)) are evaluated away
        single = len(res) == 1 and not res[0][0].conds and not res[0][0].effects
        v = res[0][1][1] if single else None
        is_v5 = v is not None and v[0] == "call" and v[1].startswith("uuid::") and v[1].endswith("new_v5") and len(v[2]) == 2
        rep.check("C18.1", "C18.1/single-call", bool(is_v5), loc=F.short_file(b["sp"]), found=[S.tstr(o[1])[:300] for st, o in res],
                  expected="uuid() is exactly one Uuid::new_v5(NS, data), unconditionally and without side effects")
        if is_v5:
            ns, data = v[2]
            rep.check("C18.1", "C18.1/data-is-source", data == mk_field(("in", "self"), MF), loc=F.short_file(b["sp"]), found="data argument = %s" % S.tstr(data)[:200],
                      expected="data = self.source (the raw bytes, no transformation)")

            def is_domain(t):
                if t[0] == "lit" and t[1] == "bytes":
                    return bytes(t[2]) == b"guardsquare.com"
                if t[0] == "lit" and t[1] == "str":
                    return False
                if t[0] == "const" and t[2]:
                    return t[2].lstrip("*&") == 'b"guardsquare.com"'
                if t[0] == "call" and t[1].endswith("str::as_bytes") and t[2][0][0] == "lit" and t[2][0][1] == "str":
                    return t[2][0][2] == "guardsquare.com"
                return False
            ns_shown = ns
            if ns[0] == "const" and ns[1] in fx.bodies:
                # a named constant: its initialiser (a const body) is evaluated like any other expression
                try:
                    rc = S.Sym(fx, inline_depth=6).eval_body(fx.bodies[ns[1]])
                    if len(rc) == 1 and not rc[0][0].conds:
                        ns = rc[0][1][1]
                except S.Undecidable:
                    pass
            want_bytes = _guardsquare_namespace_bytes()
            if ns[0] == "call" and ns[1].startswith("uuid::") and ns[1].endswith("from_bytes") and len(ns[2]) == 1 and ns[2][0][0] == "array":
                got = [e_[2] if (e_[0] == "lit" and e_[1] == "int") else None for e_ in ns[2][0][1]]
                rep.check("C18.2", "C18.2/namespace-value", got == want_bytes, loc=F.short_file(b["sp"]), found="namespace = Uuid::from_bytes(%s)" % got,
                          expected="the 16 bytes of uuid5(NAMESPACE_DNS, \"guardsquare.com\") = %s (RFC 4122 4.3, computed by the checker)" % want_bytes)
                ns = None
            ok_ns = ns is not None and ns[0] == "call" and ns[1].startswith("uuid::") and ns[1].endswith("new_v5") and len(ns[2]) == 2 \
                and ns[2][0][0] == "const" and ns[2][0][1].endswith("NAMESPACE_DNS") and ns[2][0][1].startswith("uuid::") and is_domain(ns[2][1])
            if ns is not None:
              rep.check("C18.2", "C18.2/namespace-value", ok_ns, loc=F.short_file(b["sp"]), found="namespace = %s" % S.tstr(ns)[:300],
                      expected='Uuid::new_v5(&Uuid::NAMESPACE_DNS, b"guardsquare.com") (through any helper / lazy_static)')
    # every construction of ProguardMapping: the function that contains it evaluates to a mapping over untouched bytes
    cons = []
    for q, bb in sorted(fx.bodies.items()):
        if bb["krate"] != "proguard":
            continue
        if any(n.get("k") == "Adt" and n["adt"].endswith("mapping::ProguardMapping") for n in F.walk(bb["body"])):
            cons.append((q, bb))
    rep.floor("C18.1", len(cons), 2, "functions constructing a ProguardMapping (new, section, Default/Clone)")
    for q, bb in cons:
        rep.fn(q)
        try:
            r2 = S.Sym(fx, inline_depth=6).eval_body(bb)
        except S.Undecidable as e:
            rep.undecidable("C18.1", "C18.1/construction/%s/shape" % C.short_fn(q), loc=F.loc(e.node) if isinstance(e.node, dict) else "", construct=e.msg)
            continue
        params = [prm["pat"]["name"] for prm in bb["params"] if prm.get("pat") and prm["pat"].get("k") == "Bind"]
        how = []
        for st, (k, v) in r2:
            h = None
            srcs = []

            def g(t):
                if t[0] == "adt" and t[1] == "ProguardMapping":
                    srcs.append(dict(t[3]).get(MF))
                return None
            import fc
            fc.rewrite(v, g)
            for sv in srcs:
                if sv is None:
                    h = None
                elif sv[0] == "in" and sv[1] in params and not st.effects:
                    h = "the constructor argument itself"
                elif sv == mk_field(("in", "self"), MF) or (sv[0] == "call" and sv[1].endswith("Clone::clone") and sv[2] == (mk_field(("in", "self"), MF),)):
                    h = "self.source (a shared slice reference)"
                elif sv[0] == "call" and sv[1] == "std::ops::Index::index" and sv[2][0] == mk_field(("in", "self"), MF) and sv[2][1][0] == "in" and sv[2][1][1] in params:
                    h = "sub-slice of self.source by the caller's range"
                elif sv[0] == "default" or sv == ("array", ()) or (sv[0] == "lit" and sv[1] == "bytes" and len(sv[2]) == 0):
                    h = "the empty slice"
                else:
                    h = None
                how.append((S.tstr(sv)[:120] if sv else "?", h))
        rep.check("C18.1", "C18.1/construction/%s" % C.short_fn(q), bool(how) and all(h for _, h in how), loc=F.short_file(bb["sp"]),
                  found=["source: %s -- %s" % (a_, h or "NOT an untouched byte slice") for a_, h in how] or "no ProguardMapping value found",
                  expected="source bytes stored untouched (argument, sub-slice of source selected by the caller, self.source, or empty)")
    # the bytes the mapping *is* (what every other API iterates) are exactly `source`
    import api_rules as AR
    AR.check_mapping_wiring(fx, rep, "C18.api")
    adt_ = fx.adt("proguard::mapping::ProguardMapping")
    flds = [f_["name"] for f_ in adt_["variants"][0]["fields"]] if adt_ else []
    rep.check("C18.1", "C18.1/single-field", len(flds) == 1, loc=F.short_file(adt_["sp"]) if adt_ else "", found="ProguardMapping fields: %s" % flds,
              expected="the mapping is its byte slice and nothing else (a window/offset/cache field would make `the bytes` ambiguous)", nontrivial=False)
    # no assignment to .source anywhere
    writes = []
    for q, bb in fx.bodies.items():
        if bb["krate"] != "proguard":
            continue
        for n in F.walk(bb["body"]):
            if n.get("k") in ("Assign", "AssignOp"):
                l = F.strip(n["l"])
                if l.get("k") == "Field" and l["name"] == MF and "ProguardMapping" in l.get("base_ty", ""):
                    writes.append(F.loc(n))
    rep.check("C18.1", "C18.1/no-source-mutation", not writes, found=writes or "no assignment to ProguardMapping.source", expected="source is write-once", nontrivial=False)
    # ambient scan over everything reachable from uuid()
    seen = fx.reachable([p])
    # statics generated by lazy_static! (the unit-struct static X with `impl Deref for X` and its inner `LAZY` cell) are not ambient:
    # their value is the initialiser's value, which C18.2 evaluates
    lazy_roots = set()
    for q in fx.bodies:
        m_ = re.match(r"^proguard::<(.+) as std::ops::Deref>::deref::__stability$", q)
        if m_:
            lazy_roots.add("proguard::" + m_.group(1))

    def is_lazy_static(n):
        if n.get("k") != "Static":
            return False
        pth = re.sub(r"(::)?<'[a-z_]+>", "", n.get("path", ""))
        roots = {re.sub(r"(::)?<'[a-z_]+>", "", r_) for r_ in lazy_roots}
        return pth in roots or any(pth == "proguard::<%s as std::ops::Deref>::deref::__stability::LAZY" % r_[len("proguard::"):] for r_ in roots)
    def is_once_cell(n):
        return n.get("k") == "Static" and E.write_once_static(fx, n.get("path"), n.get("ty")) is not None
    amb = [(q, n, w) for q, n, w in E.ambient_sources(fx, seen) if not is_lazy_static(n) and not is_once_cell(n)]
    rep.check("C18.3", "C18.3/ambient", not amb, found=[(C.short_fn(q), w) for q, n, w in amb] or "%d reachable local bodies, no ambient source" % len(seen),
              expected="identifier depends on nothing but the bytes")
    pins = CR.lock_pins()
    have = pins.get("uuid", [])
    rep.check("C18.4", "C18.4/uuid-crate-pinned", any(v == UUID_PIN[0] and c == UUID_PIN[1] for v, c in have), loc="Cargo.lock", found="uuid %s" % have,
              expected="uuid %s (v5 = SHA-1 name-based, RFC 4122 4.3)" % UUID_PIN[0])
    try:
        toml = open(F.REPO + "/Cargo.toml").read()
        okf = re.search(r'uuid\s*=\s*\{[^}]*features\s*=\s*\[[^\]]*"v5"', toml) is not None
    except OSError:
        okf = False
    rep.check("C18.4", "C18.4/v5-feature", okf, loc="Cargo.toml", found="uuid dependency declares feature v5: %s" % okf, expected='features = ["v5"]', nontrivial=False)
