"""C12 - no accepted buffer can make a query panic, overflow or read outside (CEN + EFF + TYP).

Policy: every value read from Header / &[Class] / &[Member] / string bytes is untrusted; no
discharge rule may use a writer invariant (none does: rules are purely local)."""
import facts as F
import anchors as A
import census as C
import cen_rules as CR
import flow as FL

LEVEL = "other"
TECHNIQUE = "panic/overflow site census over compiler-extracted typed trees with sound local discharge rules, call-graph reachability, forbidden-callee sets"
EXPLANATION = ("Sound static analysis for the panic/overflow/out-of-bounds clauses: every builtin arithmetic operation, "
               "index/slice operation and call to a panicking std function in every body reachable (resolved call graph "
               "through proguard, watto, leb128; closures included) from ProguardCache::parse and all cache query methods is "
               "enumerated (cross-checked against MIR Assert terminators per function) and must be discharged by a stated "
               "local rule that never relies on writer invariants. Plus: loops are bounded iterator idioms (termination), "
               "no `unsafe`/leak/transmute in the crate on these paths (returned strings are borrowck-checked slices of the "
               "buffer or the query). Not decided: allocation failure, stack depth of cause recursion, wall-clock time.")
RULE_TEXT = ("one instance per census site (arith/index/panicking call) in reachable bodies, per loop, per forbidden-callee "
             "scan of a reachable body; distinct = distinct (function, canonical expression); non-trivial = all")
TRUSTED = ["rustc front end (THIR/MIR)", "std panicking-callee table sa/census.py", "leb128 0.2.5 read/write summaries (lock-pinned)",
           "watto 0.1.0 unsafe blocks after their own length/alignment checks"]

FORBIDDEN = ("std::mem::transmute", "std::boxed::Box::<T>::leak", "std::boxed::Box::<T, A>::leak", "std::string::String::leak",
             "std::vec::Vec::<T, A>::leak", "std::str::from_utf8_unchecked", "core::str::from_utf8_unchecked",
             "std::slice::from_raw_parts", "std::mem::forget")


def loop_ok(n):
    """recognised bounded-iterator loop idioms: for-desugaring and `while let Some(..) = it.next()`"""
    body = F.strip(n["body"])
    # for: loop { match next(&mut iter) { None => break, Some(x) => .. } }
    stmts = body.get("stmts", []) if body.get("k") == "Block" else []
    cand = None
    if body.get("k") == "Block":
        if len(stmts) == 1 and stmts[0]["k"] == "Expr" and body.get("tail") is None:
            cand = F.strip(stmts[0]["e"])
        elif not stmts and body.get("tail") is not None:
            cand = F.strip(body["tail"])
    else:
        cand = body
    if cand is None:
        return None
    if cand.get("k") == "Match" and "ForLoopDesugar" in cand.get("src", ""):
        s = F.strip(cand["scrut"])
        if F.is_call(s, "std::iter::Iterator::next"):
            return "for-loop over " + (F.strip(s["args"][0]).get("ty") or "?")
    if cand.get("k") == "If" and F.strip(cand["cond"]).get("k") == "LetExpr" and cand.get("else") is not None and FL.diverges(cand["else"]):
        le = F.strip(cand["cond"])
        e = F.strip(le["e"])
        if F.is_call(e, "std::iter::Iterator::next") and le["pat"].get("variant") == "Some":
            return "while-let over " + (F.strip(e["args"][0]).get("ty") or "?")
    # `loop { match it.next() { Some(..) => .., None => return .. / break } }`: every iteration takes one item, the None arm leaves
    if cand.get("k") == "Match" and "ForLoopDesugar" not in cand.get("src", "") and F.is_call(F.strip(cand["scrut"]), "std::iter::Iterator::next"):
        def is_some_pat(pt_):
            return pt_.get("variant") == "Some" or (pt_.get("k") == "Or" and pt_.get("pats") and all(is_some_pat(x_) for x_ in pt_["pats"]))
        none_arms = [a_ for a_ in cand["arms"] if a_["pat"].get("variant") == "None" or (a_["pat"].get("k") == "Wild")]
        some_only = [a_ for a_ in cand["arms"] if a_ not in none_arms]
        if none_arms and all(FL.diverges(a_["body"]) for a_ in none_arms) and all(is_some_pat(a_["pat"]) for a_ in some_only) \
                and all(a_["pat"].get("variant") == "None" for a_ in none_arms):
            return "loop-match over " + (F.strip(F.strip(cand["scrut"])["args"][0]).get("ty") or "?")
    # manual one-item lookahead: `while let Some(x) = la { la = it.next(); .. }` - the carried option is refilled from the iterator
    # as the first, unconditional statement of every iteration and assigned nowhere else: one `next()` per iteration
    if cand.get("k") == "If" and F.strip(cand["cond"]).get("k") == "LetExpr" and cand.get("else") is not None and FL.diverges(cand["else"]):
        le = F.strip(cand["cond"])
        e = F.strip(le["e"])
        then = F.strip(cand["then"])
        tst = then.get("stmts", []) if then.get("k") == "Block" else []
        if e.get("k") in ("Var", "Upvar") and le["pat"].get("variant") == "Some" and tst and tst[0]["k"] == "Expr":
            a0 = F.strip(tst[0]["e"])
            if a0.get("k") == "Assign" and FL.same_place(a0["l"], e) and F.is_call(F.strip(a0["r"]), "std::iter::Iterator::next"):
                writes = [x for x in F.walk(then) if x.get("k") in ("Assign", "AssignOp") and FL.same_place(x["l"], e)]
                if len(writes) == 1:
                    return "while-let (one-item lookahead) over " + (F.strip(F.strip(a0["r"])["args"][0]).get("ty") or "?")
    # `while v > 0 && .. { v -= k; }` / `while v < <len or bound> && .. { v += k; }`: a strictly monotone integer counter with a
    # bound in the loop condition, stepped by a positive literal as an unconditional top-level statement of the body
    if cand.get("k") == "If" and cand.get("else") is not None and FL.diverges(cand["else"]):
        facts = []
        FL.split_cond(cand["cond"], True, facts)
        then = F.strip(cand["then"])
        tst = then.get("stmts", []) if then.get("k") == "Block" else []
        steps = []
        for s_ in tst:
            if s_["k"] == "Expr":
                e_ = F.strip(s_["e"])
                if e_.get("k") == "AssignOp" and C.int_lit(e_["r"]) is not None and C.int_lit(e_["r"]) >= 1 and F.strip(e_["l"]).get("k") in ("Var", "Upvar"):
                    steps.append((F.strip(e_["l"]), e_["op"]))
        for v_, op_ in steps:
            writes = [x for x in F.walk(then) if x.get("k") in ("Assign", "AssignOp") and FL.same_place(x["l"], v_)]
            if len(writes) != 1:
                continue
            for f_, pol in facts:
                f_ = F.strip(f_)
                if not pol or f_.get("k") != "Binary":
                    continue
                if op_.startswith("Sub") and ((f_["op"] == "Gt" and FL.same_place(f_["l"], v_) and C.int_lit(f_["r"]) is not None)
                                              or (f_["op"] == "Lt" and FL.same_place(f_["r"], v_) and C.int_lit(f_["l"]) is not None)):
                    return "while over a strictly decreasing counter bounded below: std::ops::Range"
                if op_.startswith("Add") and f_["op"] == "Lt" and FL.same_place(f_["l"], v_) and not any(
                        x.get("k") in ("Assign", "AssignOp") for x in F.walk(f_["r"])):
                    rb = FL.peel(f_["r"])
                    if F.is_call(rb, *C.LEN_CALLS) or C.int_lit(rb) is not None:
                        return "while over a strictly increasing counter bounded above: std::ops::Range"
    return None


FINITE_ITERS = ("std::slice::Iter", "std::str::Lines", "std::str::Chars", "std::str::CharIndices", "std::iter::Peekable",
                "mapping::ProguardRecordIter", "std::vec::IntoIter", "std::collections::btree_map::IntoValues",
                "std::iter::Take", "std::iter::FilterMap", "std::str::Split", "std::ops::Range", "std::array::IntoIter",
                "std::iter::Enumerate", "std::iter::Flatten", "std::iter::Rev", "std::iter::Chain", "std::option::IntoIter",
                "RemappedFrameIter")


def generic_iter_param_is_finite(fx, path, b):
    """a loop over an `impl Iterator` parameter: finite when every call of this function in the crate passes an argument whose
    type is one of the finite in-memory iterators (e.g. format_frames is only ever handed a RemappedFrameIter)"""
    idxs = [i for i, prm in enumerate(b["params"]) if (prm.get("ty") or "").startswith("impl ") and "Iterator" in (prm.get("ty") or "")]
    if not idxs:
        return False
    n_calls = 0
    for q, bb in fx.bodies.items():
        if bb["krate"] != "proguard":
            continue
        for n in F.walk(bb["body"]):
            if n.get("k") == "Call" and "fn" in n and fx.by_dp.get(n["fn"].get("dp")) == path:
                n_calls += 1
                for i in idxs:
                    if i >= len(n["args"]):
                        return False
                    aty = (F.strip(n["args"][i]).get("ty") or "") + " " + (n["args"][i].get("ty") or "")
                    if not any(t in aty for t in FINITE_ITERS):
                        return False
    return n_calls > 0


def opaque_iter_source(fx, loop_node, parents):
    for q in reversed(parents):
        if q.get("k") == "Match" and "ForLoopDesugar" in q.get("src", "") and any(x is loop_node for x in F.walk(q)):
            sc = F.strip(q["scrut"])
            if not F.is_call(sc, "std::iter::IntoIterator::into_iter") or not sc.get("args"):
                return None
            e = F.strip(sc["args"][0])
            if e.get("k") == "Call" and "fn" in e:
                tgt = fx.by_dp.get(e["fn"].get("dp"))
                hb = fx.bodies.get(tgt) if tgt else None
                if hb is not None and hb["krate"] == "proguard" and hb.get("kind") in ("Fn", "AssocFn"):
                    t_ = F.strip(hb["body"])
                    while t_.get("k") == "Block" and t_.get("tail") is not None:
                        t_ = F.strip(t_["tail"])
                    if any(x.get("k") == "Return" for x in F.walk(hb["body"])):
                        return None
                    return t_.get("ty")
            return None
    return None


def check_loops(fx, rep, rule, seen, sfx=""):
    n_loops = 0
    for p in sorted(seen):
        b = fx.bodies[p]
        if b["krate"] != "proguard":
            continue
        for n, parents in F.walk_with_parents(b["body"]):
            if n.get("k") == "Loop":
                n_loops += 1
                how = loop_ok(n)
                fin = how is not None and any(t in how for t in FINITE_ITERS)
                if how is not None and not fin and " over impl " in how and generic_iter_param_is_finite(fx, p, b):
                    fin = True
                    how += " (every local caller passes a finite iterator)"
                if how is not None and not fin and " over impl " in how:
                    # `for x in self.parsed_records()`: the opaque result of a private function - its hidden type is the type of
                    # the expression that function returns
                    hid = opaque_iter_source(fx, n, parents)
                    if hid and any(t in hid for t in FINITE_ITERS):
                        fin = True
                        how += " (hidden type of the callee's result: %s)" % hid[:120]
                rep.check(rule + sfx, "%s/loop/%s/%s" % (rule, C.short_fn(p), (how or "unrecognised").split(" over ")[-1]),
                          fin, loc=F.loc(n), found=how or "loop that is not a for/while-let over an iterator",
                          expected="loop driven by a finite in-memory iterator (termination)")
    return n_loops


def check_forbidden(fx, rep, rule, seen, sfx=""):
    hits = 0
    for p in sorted(seen):
        b = fx.bodies[p]
        if b["krate"] != "proguard":
            continue
        bad = []
        for n in F.walk(b["body"]):
            if n.get("k") in ("Call", "Zst") and "fn" in n and n["fn"]["path"] in FORBIDDEN:
                bad.append((n["fn"]["path"], F.loc(n)))
            if n.get("k") == "Block" and n.get("unsafe"):
                bad.append(("unsafe block", F.loc(n)))
        hits += len(bad)
        rep.check(rule + sfx, "%s/lifetime-laundering/%s" % (rule, C.short_fn(p)), not bad, loc=F.short_file(b["sp"]),
                  found=bad or "no unsafe / leak / transmute / unchecked-utf8", nontrivial=False,
                  expected="returned strings are safe-Rust borrows of the buffer or the query")
    return hits


def check_output_provenance(fx, rep, rule):
    """"every string they return is a slice of the buffer or of the query": a borrowed `&str` result can be a slice of an argument,
    of `self`'s buffer - or a `'static` literal, which the signature allows just as well. No value returned by the borrowing
    queries (class / method / throwable lookups, the two frame iterators) may contain a string literal or string constant."""
    import sym as S
    import readers as RD
    import anchors as A_
    targets = []
    for nm in ("remap_class", "remap_method", "remap_throwable"):
        targets += A_.method(fx, A_.CACHE, nm)
    wl, wo = RD.iterator_roles(fx, rep, rule, "cache")
    targets += [q for q in (wl, wo) if q]
    n = 0
    for q in targets:
        b = fx.bodies[q]
        rep.fn(q)
        sy = S.Sym(fx, inline_mut=True, inline_depth=6)
        try:
            res = sy.eval_body(b)
        except S.Undecidable as e:
            rep.undecidable(rule, "%s/output-provenance/%s" % (rule, C.short_fn(q)), loc=F.short_file(b["sp"]), construct=e.msg)
            continue
        vals = [v for st, (k, v) in res]
        for key in sy.loop_order:
            vals += [v for st, (k, v) in sy.loops[key]["paths"] if k == S.RET]
        lits = []

        def g(t):
            if (t[0] == "lit" and t[1] == "str" and t[2] != "") or (t[0] == "const" and isinstance(t[2], str) and t[2].strip().startswith('"')):
                lits.append(t)
            return None
        import fc
        for v in vals:
            if v is not None:
                fc.rewrite(v, g)
        n += 1
        rep.check(rule, "%s/output-provenance/%s" % (rule, C.short_fn(q)), not lits, loc=F.short_file(b["sp"]),
                  found=("returned value contains the literal %s" % S.tstr(lits[0])) if lits else "%d result value(s), none contains a string literal" % len(vals),
                  expected="returned strings are slices of the buffer (read_string) or of the query, never a 'static literal")
    return n


def run(ctx, rep):
    fx = ctx.facts("")
    rep.configs.append("default")
    roots = []
    for what, cands in A.cache_query_roots(fx).items():
        p = A.one(rep, "C12.roots", what, cands)
        if p:
            roots.append(p)
    policy = dict(a_size=False, untrusted_fields=True)
    seen, n_sites, _ = CR.run_census(fx, rep, "C12.census", roots, policy)
    rep.floor("C12.census", n_sites, 10, "census sites reachable from the cache reader (18 counted; a refactor may remove some)")
    rep.floor("C12.reach", len(seen), 30, "bodies reachable from the cache reader")
    n_loops = check_loops(fx, rep, "C12.loops", seen)
    rep.floor("C12.loops", n_loops, 4, "loops on the reader paths (7 counted)")
    check_forbidden(fx, rep, "C12.borrow", seen)
    import recursion as RC
    RC.check_recursion(fx, rep, "C12.rec", seen)
    n_out = check_output_provenance(fx, rep, "C12.out")
    rep.floor("C12.out", n_out, 4, "borrowing query functions whose results were inspected")
    # public signatures: query results borrow (no owned String smuggled as &'static)
    for what, cands in A.cache_query_roots(fx).items():
        for p in cands:
            b = fx.bodies[p]
            out = b.get("output", "")
            rep.check("C12.sig", "C12/sig/%s" % what, "'static" not in out, loc=F.short_file(b["sp"]),
                      found="returns %s" % out, expected="no 'static borrow in a query result", nontrivial=False)
    import cachefmt as CF
    CF.check_string_table_model(fx, rep, "C12.strtab")
    CR.run_controls(ctx, rep, "C12.census")
    if ctx.tier == "thorough":
        fu = ctx.facts("uuid")
        rep.configs.append("uuid")
        roots_u = [p for cands in A.cache_query_roots(fu).values() for p in cands]
        CR.run_census(fu, rep, "C12.census", roots_u, policy, sfx="@uuid")
    rep.assumptions += ["allocation failure out of scope; stack depth: only data-driven recursion is excluded (C12.rec), the depth of a nested StackTrace argument is the caller's",
                        "std functions outside sa/census.py's panicking table do not panic on these argument types"]
