"""TWIN - sibling agreement: two bodies are alpha-equivalent modulo a declared substitution of
callee paths / receiver types. Works on the raw typed tree (any construct, loops included)."""
import re
import facts as F


def canon_path(p, subst):
    p = re.sub(r"::<'[a-z_]+(, '[a-z_]+)*>", "", p)
    p = re.sub(r"<'[a-z_]+(, '[a-z_]+)*>", "", p)
    for a, b in subst:
        p = re.sub(a, b, p)
    return p


# the declared substitution for the mapper <-> cache twins
MAPPER_CACHE = [
    (r"proguard::cache::<impl cache::raw::ProguardCache>", "proguard::RECV"),
    (r"proguard::cache::raw::ProguardCache", "proguard::RECV"),
    (r"proguard::mapper::ProguardMapper", "proguard::RECV"),
    (r"_cache\b", ""),
    (r"proguard::(cache|mapper)::(extract_class_name|iterate_with_lines|iterate_without_lines|RemappedFrameIter)", r"proguard::IMPL::\2"),
]


def ser(n, subst, env, out, fx, depth=0):
    """serialise node n into list `out` of (token, loc)"""
    if n is None:
        out.append(("none", ""))
        return
    k = n.get("k")
    loc = F.loc(n) if "sp" in n else ""
    if k in ("Borrow", "Deref", "Coerce"):
        return ser(n["e"], subst, env, out, fx, depth)
    if k == "Block" and not n["stmts"] and n.get("tail") is not None:
        return ser(n["tail"], subst, env, out, fx, depth)
    if k in ("Var", "Upvar"):
        out.append(("var%s" % env.get(n["id"], "?" + n["name"]), loc))
        return
    if k == "Lit":
        out.append(("lit:%s:%r" % (n["lit"]["t"], n["lit"].get("v")), loc))
        return
    if k == "Const":
        out.append(("const:%s" % canon_path(n["path"], subst), loc))
        return
    if k == "Zst":
        out.append(("fn:%s" % canon_path(n["fn"]["path"], subst) if "fn" in n else "zst", loc))
        return
    if k == "Call":
        out.append(("call:%s/%d" % (canon_path(n["fn"]["path"], subst) if "fn" in n else "<indirect>", len(n["args"])), loc))
        if "fn" not in n:
            ser(n["fun"], subst, env, out, fx, depth)
        for a in n["args"]:
            ser(a, subst, env, out, fx, depth)
        return
    if k == "Closure":
        out.append(("closure", loc))
        cb = fx.bodies.get(n["def"])
        if cb is not None and depth < 6:
            env2 = dict(env)
            for p in cb["params"]:
                if p.get("pat"):
                    ser_pat(p["pat"], subst, env2, out)
            ser(cb["body"], subst, env2, out, fx, depth + 1)
        return
    if k in ("Binary", "Logical", "Assign", "AssignOp"):
        out.append(("%s:%s" % (k, n.get("op", "")), loc))
        ser(n["l"], subst, env, out, fx, depth)
        ser(n["r"], subst, env, out, fx, depth)
        return
    if k == "Unary":
        out.append(("unary:%s" % n["op"], loc))
        return ser(n["e"], subst, env, out, fx, depth)
    if k == "Cast":
        out.append(("cast:%s" % n["ty"], loc))
        return ser(n["e"], subst, env, out, fx, depth)
    if k == "Field":
        out.append(("field:%s" % n["name"], loc))
        return ser(n["e"], subst, env, out, fx, depth)
    if k == "Index":
        out.append(("index", loc))
        ser(n["e"], subst, env, out, fx, depth)
        return ser(n["index"], subst, env, out, fx, depth)
    if k == "If":
        out.append(("if", loc))
        ser(n["cond"], subst, env, out, fx, depth)
        ser(n["then"], subst, env, out, fx, depth)
        ser(n.get("else"), subst, env, out, fx, depth)
        return
    if k == "LetExpr":
        out.append(("iflet", loc))
        ser(n["e"], subst, env, out, fx, depth)
        ser_pat(n["pat"], subst, env, out)
        return
    if k == "Match":
        out.append(("match/%d" % len(n["arms"]), loc))
        ser(n["scrut"], subst, env, out, fx, depth)
        for a in n["arms"]:
            env2 = env  # bindings are unique ids: sharing env is fine
            ser_pat(a["pat"], subst, env2, out)
            ser(a.get("guard"), subst, env2, out, fx, depth)
            ser(a["body"], subst, env2, out, fx, depth)
        return
    if k == "Block":
        out.append(("block/%d" % len(n["stmts"]), loc))
        for s in n["stmts"]:
            if s["k"] == "Expr":
                out.append(("stmt", ""))
                ser(s["e"], subst, env, out, fx, depth)
            else:
                out.append(("let", ""))
                ser(s.get("init"), subst, env, out, fx, depth)
                ser_pat(s["pat"], subst, env, out)
                ser(s.get("else"), subst, env, out, fx, depth)
        ser(n.get("tail"), subst, env, out, fx, depth)
        return
    if k == "Loop":
        out.append(("loop", loc))
        return ser(n["body"], subst, env, out, fx, depth)
    if k in ("Return", "Break"):
        out.append((k.lower(), loc))
        return ser(n.get("e"), subst, env, out, fx, depth)
    if k == "Continue":
        out.append(("continue", loc))
        return
    if k == "Adt":
        out.append(("adt:%s::%s" % (canon_path(n["adt"], subst), n["variant"]), loc))
        for f in sorted(n["fields"], key=lambda f: f["name"]):
            out.append(("f:" + f["name"], ""))
            ser(f["e"], subst, env, out, fx, depth)
        if isinstance(n.get("base"), dict):
            out.append(("base", ""))
            ser(n["base"], subst, env, out, fx, depth)
        return
    if k in ("Tuple", "Array"):
        out.append(("%s/%d" % (k.lower(), len(n["fields"])), loc))
        for f in n["fields"]:
            ser(f, subst, env, out, fx, depth)
        return
    out.append((k or "?", loc))
    for c in F.children(n):
        ser(c, subst, env, out, fx, depth)


def ser_pat(p, subst, env, out):
    k = p["k"]
    if k == "Bind":
        if p["id"] not in env:
            env[p["id"]] = len(env)
        out.append(("bind%s%s" % (env[p["id"]], "ref" if p.get("byref") else ""), ""))
        if p.get("sub"):
            ser_pat(p["sub"], subst, env, out)
    elif k == "Variant":
        out.append(("pv:%s::%s" % (canon_path(p["adt"], subst), p["variant"]), ""))
        for f in p["fields"]:
            out.append(("pf:" + f["name"], ""))
            ser_pat(f["pat"], subst, env, out)
    elif k == "Leaf":
        out.append(("pleaf", ""))
        for f in p["fields"]:
            out.append(("pf:" + f["name"], ""))
            ser_pat(f["pat"], subst, env, out)
    elif k == "Deref":
        ser_pat(p["pat"], subst, env, out)
    elif k in ("Const", "Range"):
        out.append(("pc:" + p["v"], ""))
    elif k == "Or":
        out.append(("por/%d" % len(p["pats"]), ""))
        for q in p["pats"]:
            ser_pat(q, subst, env, out)
    elif k == "Guard":
        out.append(("pguard", ""))
        ser_pat(p["pat"], subst, env, out)
    else:
        out.append(("p" + k, ""))


def serialise(fx, body, subst):
    env = {}
    out = []
    for p in body["params"]:
        if p.get("pat"):
            ser_pat(p["pat"], subst, env, out)
        else:
            out.append(("param", ""))
    ser(body["body"], subst, env, out, fx)
    return out


def compare(fx, a_path, b_path, subst):
    """(equal?, description of first difference, n_tokens)"""
    a = serialise(fx, fx.bodies[a_path], subst)
    b = serialise(fx, fx.bodies[b_path], subst)
    for i, (x, y) in enumerate(zip(a, b)):
        if x[0] != y[0]:
            la = next((t[1] for t in reversed(a[:i + 1]) if t[1]), "")
            lb = next((t[1] for t in reversed(b[:i + 1]) if t[1]), "")
            return False, "first difference at token %d: `%s` (%s) vs `%s` (%s)" % (i, x[0], la, y[0], lb), len(a)
    if len(a) != len(b):
        return False, "one body is a prefix of the other (%d vs %d tokens)" % (len(a), len(b)), len(a)
    return True, "", len(a)
