#!/usr/bin/env python3
"""Writes sa/param_names.json sa/adt_names.json (the crate-private types and their shapes), sa/field_names.json (name, type, publicness of every field) and sa/field_order.json (declaration order of the fields of every type without a layout repr): for every function of the crate, its parameter names by position, as they are in the tree this is
run on. The file is a frozen reference (see facts.canonical_param_names); regenerate it only deliberately, on a tree whose names
the rules' references were written against. Usage: PG_REPO=<tree> python3 sa/gen_param_names.py"""
import json
import os
import sys
sys.path.insert(0, os.path.dirname(os.path.abspath(__file__)))
import facts as F

if os.path.exists(F.PARAM_NAMES_FILE):
    os.rename(F.PARAM_NAMES_FILE, F.PARAM_NAMES_FILE + ".old")
for f_ in (F.FIELD_ORDER_FILE, F.FIELD_NAMES_FILE, F.ADT_NAMES_FILE):
    if os.path.exists(f_):
        os.remove(f_)
out = {}
sigs_ = {}
dup = set()
for feature in ("", "uuid"):
    fx = F.Facts(F.extract(feature=feature)[0])
    for p, b in sorted(fx.bodies.items()):
        if b["krate"] != "proguard" or b["kind"] not in ("Fn", "AssocFn") or b.get("exp"):
            continue
        k = F.fn_key(p)
        names = [(prm["pat"]["name"] if prm.get("pat") and prm["pat"].get("k") == "Bind" else None) for prm in b["params"]]
        if not [n for n in names if n not in (None, "self")]:
            continue
        if k in out and out[k] != names:
            dup.add(k)
        out[k] = names
        if not b.get("reachable_pub"):
            sigs_[k] = [[F._erase_lt(x_) for x_ in (b.get("inputs") or [])], F._erase_lt(b.get("output") or ""), F.line_of(b.get("sp") or "") or 0]
for k in dup:
    del out[k]
json.dump(out, open(F.PARAM_NAMES_FILE, "w"), indent=0, sort_keys=True)
json.dump({k_: v_ for k_, v_ in sigs_.items() if k_ in out}, open(F.PARAM_TYPES_FILE, "w"), indent=0, sort_keys=True)
print("%d functions, %d ambiguous keys dropped" % (len(out), len(dup)))
fo = {}
for feature in ("", "uuid"):
    fx = F.Facts(F.extract(feature=feature)[0])
    for a in fx.all_adts("proguard"):
        if a.get("repr_c") or a.get("repr_packed") or a.get("repr_transparent"):
            continue
        vs = {v["name"]: [f_["name"] for f_ in v["fields"]] for v in a["variants"] if len(v["fields"]) > 1}
        if vs:
            fo[a["path"]] = vs
json.dump(fo, open(F.FIELD_ORDER_FILE, "w"), indent=0, sort_keys=True)
fn = {}
for feature in ("", "uuid"):
    fx = F.Facts(F.extract(feature=feature)[0])
    for a in fx.all_adts("proguard"):
        vs = {v["name"]: [[f_["name"], f_.get("ty"), f_.get("vis") == "Public"] for f_ in v["fields"]] for v in a["variants"] if v["fields"]}
        if vs:
            fn[a["path"]] = vs
json.dump(fn, open(F.FIELD_NAMES_FILE, "w"), indent=0, sort_keys=True)
an = {}
for feature in ("", "uuid"):
    fx = F.Facts(F.extract(feature=feature)[0])
    for a in fx.all_adts("proguard"):
        an[a["path"]] = {"shape": F._adt_shape(a), "private": not a.get("reachable_pub"), "types": F._adt_type_shape(a)}
json.dump(an, open(F.ADT_NAMES_FILE, "w"), indent=0, sort_keys=True)
print("%d types" % len(an))
print("%d types with named fields" % len(fn))
print("%d types with an ordered field list" % len(fo))
if os.path.exists(F.PARAM_NAMES_FILE + ".old"):
    os.remove(F.PARAM_NAMES_FILE + ".old")
