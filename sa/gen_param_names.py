#!/usr/bin/env python3
"""Writes sa/param_names.json: for every function of the crate, its parameter names by position, as they are in the tree this is
run on. The file is a frozen reference (see facts.canonical_param_names); regenerate it only deliberately, on a tree whose names
the rules' references were written against. Usage: PG_REPO=<tree> python3 sa/gen_param_names.py"""
import json
import os
import sys
sys.path.insert(0, os.path.dirname(os.path.abspath(__file__)))
import facts as F

if os.path.exists(F.PARAM_NAMES_FILE):
    os.rename(F.PARAM_NAMES_FILE, F.PARAM_NAMES_FILE + ".old")
out = {}
dup = set()
for feature in ("", "uuid"):
    fx = F.Facts(F.extract(feature=feature)[0])
    for p, b in sorted(fx.bodies.items()):
        if b["krate"] != "proguard" or b["kind"] not in ("Fn", "AssocFn") or b.get("exp"):
            continue
        k = F.fn_key(p)
        names = [(prm["pat"]["name"] if prm.get("pat") and prm["pat"].get("k") == "Bind" else None) for prm in b["params"]]
        if not [n for n in names if n not in (None, "self")]:
            continue
        if k in out and out[k] != names:
            dup.add(k)
        out[k] = names
for k in dup:
    del out[k]
json.dump(out, open(F.PARAM_NAMES_FILE, "w"), indent=0, sort_keys=True)
print("%d functions, %d ambiguous keys dropped" % (len(out), len(dup)))
if os.path.exists(F.PARAM_NAMES_FILE + ".old"):
    os.remove(F.PARAM_NAMES_FILE + ".old")
