"""C11 - torn, foreign or wrong-version cache files are rejected, never half-read (FC + EFF)."""
import facts as F
import anchors as A
import cachefmt as CF
import effects as E
import census as C
import sym as S
import fc

LEVEL = "other"
TECHNIQUE = "fragment canonicalisation of ProguardCache::parse into a guarded early-return chain compared with the documented check sequence; buffer-access discipline"
EXPLANATION = ("ProguardCache::parse as a decision structure equals the reference chain: header readable -> InvalidHeader; magic flipped -> "
               "WrongEndianness; magic differs -> WrongFormat; version differs -> WrongVersion; align8 + Class[num_classes] -> InvalidClasses; "
               "align8 + Member[num_members], align8 + Member[num_members_by_params] -> InvalidMembers; align8 or fewer than string_bytes "
               "bytes left -> UnexpectedStringBytes; the single Ok is built from exactly these five pieces. Order and error kind per check "
               "are part of the reference. The buffer is only touched through watto's length/alignment-checked helpers (their own checks "
               "are census sites in C12). Prefix clause (paper step): the writer emits exactly string_bytes string bytes and nothing after, "
               "every earlier section is length-checked, so every strict prefix fails one check; 'or else answers identically' is vacuous.")
EXPLANATION = EXPLANATION + ' The error payload (expected/found) is part of the compared outcome, and `==` on CacheErrorKind is the derived field-by-field comparison.'
RULE_TEXT = "one instance for the canonical path set of parse (each path compared under all completions), plus access-discipline instances"
TRUSTED = ["sa/models.py", "watto 0.1.0 Pod::ref_from_prefix / slice_from_prefix / align_to semantics (bodies are in the C12 census)"]


def run(ctx, rep):
    fx = ctx.facts("")
    rep.configs.append("default")
    CF.check_parse(fx, rep, "C11.1")
    # the header words the gate compares are the whole 32-bit magic / version fields of the documented layout
    CF.check_layouts(fx, rep, "C11.lay")
    # error kinds exist with the documented names (TAB)
    a = fx.adt("proguard::cache::CacheErrorKind")
    names = [v["name"] for v in a["variants"]] if a else []
    want = ["WrongEndianness", "WrongFormat", "WrongVersion", "InvalidHeader", "InvalidClasses", "InvalidMembers", "UnexpectedStringBytes"]
    rep.check("C11.2", "C11.2/error-kinds", all(w in names for w in want), loc=F.short_file(a["sp"]) if a else "",
              found="CacheErrorKind variants: %s" % names, expected="documented kinds present: %s" % want, nontrivial=False)
    # "rejected with the corresponding error kind": what a caller compares (`err.kind() == CacheErrorKind::X { .. }`) is the
    # derived, field-by-field equality - a kind that compared equal to a different payload would make that test say nothing
    import api_rules as AR
    AR.check_structural_eq(fx, rep, "C11.2", ["cache::CacheErrorKind"])
    # CacheError::kind() returns the stored kind; From<CacheErrorKind> stores it
    for nm, cands in (("kind", A.method(fx, "cache::CacheError", "kind")),):
        p = A.one(rep, "C11.2", "CacheError::kind", cands)
        if p:
            sy = S.Sym(fx)
            res = sy.eval_body(fx.bodies[p])
            good = len(res) == 1 and res[0][1][1] == S.mk_field(("in", "self"), "kind")
            rep.check("C11.2", "C11.2/kind-accessor", good, loc=F.short_file(fx.bodies[p]["sp"]), found=[S.tstr(o[1]) for s, o in res], expected="self.kind")
    fr = [p for p in A.method(fx, "cache::CacheError", "from", trait="From")]
    p = A.one(rep, "C11.2", "From<CacheErrorKind> for CacheError", fr)
    if p:
        sy = S.Sym(fx)
        res = sy.eval_body(fx.bodies[p])
        good = len(res) == 1 and res[0][1][1][0] == "adt" and dict(res[0][1][1][3]).get("kind") == ("in", "kind")
        rep.check("C11.2", "C11.2/from-kind", good, loc=F.short_file(fx.bodies[p]["sp"]), found=[S.tstr(o[1]) for s, o in res], expected="CacheError{kind, source: None}")
    # machine-checked premises of the prefix argument: the writer emits exactly `string_bytes` string bytes last, and every
    # earlier section with the count the header declares (shared with C09.2/C09.3)
    wv = CF.WriterView(fx, rep, "C11.3")
    if wv.ok:
        seqs = CF.check_emission(fx, rep, "C11.3", wv)
        if seqs:
            CF.check_sections(fx, rep, "C11.3", wv, seqs)
    # control: a parse with the version check removed is a different structure (comparator not blind)
    ref = CF.ref_parse(fx)
    pp = A.method(fx, A.CACHE, "parse")
    if pp:
        sy = S.Sym(fx)
        res = sy.eval_body(fx.bodies[pp[0]])
        ver = S.lit_int(fx.const(CF.RAW + "PRGCACHE_VERSION").get("int", -1))
        # drop the version atom from all paths = "version check removed"
        mutated = []
        for st, o in res:
            s2 = st.copy()
            s2.conds = tuple((a_, p_) for a_, p_ in st.conds if not (a_[0] == "eq" and a_[2] == ver and a_[1][0] == "field" and a_[1][2] == "version"))
            if CF.parse_outcome(st, o) == ("Err", "WrongVersion"):
                continue
            mutated.append((s2, o))
        bufname = [prm["pat"]["name"] for prm in fx.bodies[pp[0]]["params"] if prm.get("pat") and "[u8]" in prm["ty"]]
        rw = (lambda t: ("in", "buf") if (t[0] == "in" and bufname and t[1] == bufname[0]) else None)
        bad, n = fc.compare_paths(mutated, ref, CF.parse_outcome, rw=rw)
        rep.control("C11.1", bool(bad), "comparator rejects parse with the version check removed (synthetic variant of today's canonical paths)")
