"""Builder-side FC: canonical per-record effect structure of the two record loops
(ProguardMapper::create_proguard_mapper and ProguardCache::write)."""
import facts as F
import sym as S
import fc
import refs as R
import anchors as A
from sym import some, NONE, lit_int, mk_field, mk_payload

REC = ("in", "REC")
NEXT = R.NEXT
PEEK = ("in", "PEEK")
INSERT = "watto::string_table::StringTable::insert"


def is_next(name):
    return name.endswith(("Iterator::next", "Iterator>::next"))


def strref(x):
    return ("strref", x)


def norm_term(t):
    """rewriter: record-iterator renaming, string-table model, narrowing-cast erasure"""
    if t[0] == "payload" and t[2] == "Some" and (t[1] == NEXT or (t[1][0] == "mcall" and is_next(t[1][1]))):
        return REC
    if t[0] == "mcall" and is_next(t[1]):
        return NEXT
    if t[0] == "peek":
        return PEEK
    if t[0] == "mcall" and t[1] == INSERT:
        return strref(t[2][1])
    if t[0] == "cast" and t[1] == "u32":
        return t[2]           # narrowing casts erased (C13 lists them; C12 makes the reader value-agnostic)
    if t[0] == "mcall" and t[1].endswith("HashSet::insert"):
        return ("fresh", t[2][0], key_tuple(t[2][1]))
    if t[0] == "call" and t[1].endswith(("Entry::or_default", "Entry::or_insert_with", "Entry::or_insert")) \
            and t[2][0][0] == "mcall" and t[2][0][1].endswith("::entry"):
        e = t[2][0]
        return ("slot", e[2][0], ord_key_tuple(e[2][1]))
    if t[0] == "pl" and t[1][0] == "slot":
        return ("slot",) + t[1][1:] + (t[2],) if t[2] else t[1]
    if t[0] == "bool" and t[1][0] == "fresh":
        return t[1]
    return None


_DERIVED_KEYS = {"fx": None}


def key_tuple(k):
    """a set key that is a private struct with derived PartialEq + Eq + Hash is the tuple of its fields in the order
    (obfuscated, arguments, original) expects: equality and hashing of a derived struct are field-wise"""
    fx = _DERIVED_KEYS["fx"]
    if k[0] == "adt" and fx is not None and len(k[3]) == 3:
        derived = {i_.get("trait") for i_ in fx.items["proguard"]["impls"]
                   if i_.get("exp") and i_.get("self", "").split("<")[0].split("::")[-1] == k[1]}
        if {"std::cmp::PartialEq", "std::cmp::Eq", "std::hash::Hash"} <= derived:
            vals = [v for _, v in k[3]]
            order = {"obfuscated": 0, "arguments": 1, "original": 2}

            def rank(v):
                # the record component the value stands for (payload field name), declaration order otherwise
                t = v
                while t[0] in ("payload", "field") and t[-1] not in order:
                    t = t[1]
                return order.get(t[-1], 9) if t[0] in ("payload", "field") else 9
            return ("tuple", tuple(sorted(vals, key=rank)))
    return k


def ord_key_tuple(k):
    """a BTreeMap key that is a private struct with derived PartialEq + Eq + PartialOrd + Ord compares like the tuple of its
    fields in DECLARATION order (derive(Ord) is lexicographic over the fields as declared)"""
    fx = _DERIVED_KEYS["fx"]
    if k[0] == "adt" and fx is not None:
        derived = {i_.get("trait") for i_ in fx.items["proguard"]["impls"]
                   if i_.get("exp") and i_.get("self", "").split("<")[0].split("::")[-1] == k[1]}
        if {"std::cmp::PartialEq", "std::cmp::Eq", "std::cmp::PartialOrd", "std::cmp::Ord"} <= derived:
            decl = None
            for a_ in fx.all_adts("proguard"):
                if a_["path"].split("::")[-1] == k[1]:
                    decl = [f_["name"] for f_ in a_["variants"][0]["fields"]]
            d = dict(k[3])
            if decl and set(decl) == set(d):
                return ("tuple", tuple(d[n_] for n_ in decl))
    return k


def norm_effect(e):
    """effect -> normalised effect or None (dropped)"""
    k = e[0]
    if k == "call":
        name, args = e[1], e[2]
        if is_next(name) or name == INSERT or name.endswith("::entry"):
            return None
        if name.endswith("Vec::push"):
            return ("push", args[0], args[1])
        if name.endswith("HashSet::insert"):
            return ("set_insert", args[0], key_tuple(args[1]))
        if name.endswith(("BTreeMap::insert", "HashMap::insert")):
            return ("map_insert", args[0], ord_key_tuple(args[1]), args[2])
        if name.endswith(("HashSet::clear", "HashMap::clear", "BTreeMap::clear", "Vec::clear")):
            return ("clear", args[0])
        return ("other", name, args)
    if k == "opassign" and e[1] == "Add" and e[3] == lit_int(1):
        return ("inc", e[2])
    if k == "assign":
        # `x = x + 1` is the same effect as `x += 1`
        t = e[2]
        if t[0] == "lin" and t[2] == 1 and len(t[1]) == 1 and t[1][0][1] == 1 and e[1][0] == "place" and is_old_value(t[1][0][0], e[1]):
            return ("inc", e[1])
        return ("assign", e[1], e[2])
    if k in ("loopsum", "inloop"):
        return None
    return ("other",) + tuple(e)


def is_old_value(t, place):
    """t is the loop-entry value of `place` (("loop", root, _) followed by the place's field path)"""
    path = []
    while t[0] == "field":
        path.append(t[2])
        t = t[1]
    return t[0] == "loop" and t[1] == place[1] and tuple(reversed(path)) == tuple(place[2])


class RecordLoop:
    """canonical view of a `while let Some(record) = records.next()` builder loop"""

    def __init__(self, fx, path, opaque=lambda p: False):
        self.fx = fx
        _DERIVED_KEYS["fx"] = fx
        self.path = path
        self.body = fx.bodies[path]
        self.sy = S.Sym(fx, opaque=opaque, inline_mut=True, thread_places=True)
        self.res = self.sy.eval_body(self.body)
        self.loop = None
        for key in self.sy.loop_order:
            L = self.sy.loops[key]
            # the record loop is the one whose paths test `REC is <ProguardRecord variant>`
            for st, out in L["paths"]:
                if any(a[0] == "is" and a[2] in ("Method", "Class", "Header") for a, p in st.conds):
                    self.loop = L
                    break
            if self.loop:
                break
        self.paths = []
        if self.loop:
            base = len(self.loop["entry"].conds)
            # a hand-written one-record lookahead instead of `peekable()`: `let mut la = it.next(); while let Some(r) = la { la = it.next(); .. }`
            # - the carried `la` is this iteration's record, the `next()` taken at the top of the body is what `peek()` would show
            self.lookahead_iter = None
            la = self._manual_lookahead()
            self.lookahead = la
            nt = norm_term
            if la is not None:
                la_term = la

                def nt(t, la_term=la_term):
                    if t == la_term:
                        return NEXT
                    if t[0] == "mcall" and is_next(t[1]):
                        return PEEK
                    return norm_term(t)
            self._nt = nt
            for st, (k, v) in self.loop["paths"]:
                conds = tuple((fc.rewrite(a, nt), p) for a, p in st.conds[base:])
                effs = []
                for e in st.effects:
                    if la is not None and e[0] == "assign" and e[1] == ("place", la[1], ()) and fc.rewrite(e[2], nt) == PEEK:
                        continue        # the advance of the manual lookahead
                    ne = norm_effect(fc.rewrite(e, nt))
                    if ne is not None:
                        effs.append(ne)
                a = fc.assignment(conds)
                self.paths.append(dict(conds=conds, assign=a, effects=effs, exit=k, state=st))
        self.sroa = None
        self._sroa_detect()
        self._unwrap_member_maps()

    # ---- a per-class member map wrapped in a private struct together with its de-dup set (`members_by_params.groups` / `.seen`) ------
    def _unwrap_member_maps(self):
        """`current.members_by_params.groups.entry(..)`: the map is one field of a private two-field wrapper. The wrapper field
        that holds the map is dropped from every place and term, so the map is `current.members_by_params` again; the other
        field (the set) keeps its longer path."""
        wrap = {}
        for p_ in self.paths:
            for e in p_["effects"]:
                if e[0] == "push" and e[1][0] == "slot":
                    pl = e[1][1]
                    while pl[0] == "slot":
                        pl = pl[1]
                    if pl[0] == "place" and len(pl[2]) >= 2 and pl[2][-2] in ("members", "members_by_params"):
                        wrap.setdefault(pl[2][-2], set()).add(pl[2][-1])
        self.unwrapped = {m: list(g)[0] for m, g in wrap.items() if len(g) == 1}
        if not self.unwrapped:
            return

        def rw(t):
            if t[0] == "place" and len(t[2]) >= 2:
                path = list(t[2])
                for i in range(len(path) - 1):
                    if path[i] in self.unwrapped and path[i + 1] == self.unwrapped[path[i]]:
                        return ("place", t[1], tuple(path[:i + 1] + path[i + 2:]))
            if t[0] == "field" and t[1][0] == "field" and t[1][2] in self.unwrapped and t[2] == self.unwrapped[t[1][2]]:
                return t[1]
            return None
        self._unwrap_rw = rw
        for p_ in self.paths:
            p_["conds"] = tuple((fc.rewrite(a, rw), pol) for a, pol in p_["conds"])
            p_["assign"] = fc.assignment(p_["conds"])
            p_["effects"] = [fc.rewrite(e, rw) for e in p_["effects"]]

    def _manual_lookahead(self):
        """the loop-carried variable of a manual lookahead, as a ("loop", name, idx) term - or None. Conditions: before the loop it
        holds `it.next()`; every iteration that continues ends with it holding an `it.next()` taken in that iteration (exactly one
        `next()` per iteration, on the same iterator); the loop runs while it is `Some`."""
        L = self.loop
        cands = []
        for vid, t in L["entry"].env.items():
            if not (isinstance(t, tuple) and t[:1] == ("loop",) and t[2] == L["index"]):
                continue
            pre = L["pre"].env.get(vid)
            if not (isinstance(pre, tuple) and pre[0] == "mcall" and is_next(pre[1])):
                continue
            it_place = pre[2][0]
            conts = [st for st, (k, v) in L["paths"] if k == S.CONT]
            ok_ = bool(conts)
            for st in conts:
                fin = st.env.get(vid)
                nexts = [e for e in st.effects[len(L["entry"].effects):] if e[0] == "call" and is_next(e[1])]
                if not (isinstance(fin, tuple) and fin[0] == "mcall" and is_next(fin[1]) and fin[2][0] == it_place and len(nexts) == 1
                        and ("mcall",) + tuple(nexts[0][1:]) == fin):
                    ok_ = False
            # the loop condition tests the carried value
            tested = all(any(a == ("is", t, "Some") for a, p_ in st.conds[len(L["entry"].conds):]) for st, o in L["paths"])
            # exactly one `next()` on that iterator before the loop (the one the carried variable starts with)
            pre_nexts = [e for e in L["pre"].effects if e[0] == "call" and is_next(e[1]) and e[2] and e[2][0] == it_place]
            if ok_ and tested and len(pre_nexts) == 1 and ("mcall",) + tuple(pre_nexts[0][1:]) == pre:
                cands.append(t)
                self.lookahead_iter = it_place
        return cands[0] if len(cands) == 1 else None

    # ---- loop state kept in one private struct (`current.mapping`, `current.unique_methods`): scalar replacement -------------
    def _sroa_detect(self):
        """If the per-method vectors are reached through `V.F.members..` (one more field than the class in progress has), the
        loop state is a struct V whose field F is the class in progress: every field of V is treated as a variable of its own
        (`V.F`), a whole-struct assignment `V = S { F: a, G: b }` as the assignments `V.F = a; V.G = b`."""
        cand = set()
        for p_ in self.paths:
            for e in p_["effects"]:
                if e[0] == "push" and e[1][0] == "slot":
                    pl = e[1][1]
                    while pl[0] == "slot":
                        pl = pl[1]
                    if pl[0] == "place" and len(pl[2]) == 2 and pl[2][1] in ("members", "members_by_params") and pl[2][0] != "class":
                        cand.add((pl[1], pl[2][0]))
        if len(cand) != 1:
            return
        (V, F_), = cand
        self.sroa = (V, F_)
        for p_ in self.paths:
            p_["conds"] = tuple((fc.rewrite(a, self._sroa_term), pol) for a, pol in p_["conds"])
            p_["assign"] = fc.assignment(p_["conds"])
            p_["effects"] = self._sroa_effects(p_["effects"])

    def _sroa_term(self, t):
        V = self.sroa[0]
        if t[0] == "place" and t[1] == V and t[2]:
            return ("place", V + "." + t[2][0], tuple(t[2][1:]))
        if t[0] == "field" and t[1][0] == "loop" and t[1][1] == V:
            return ("loop", V + "." + t[2], t[1][2])
        return None

    def _sroa_effects(self, effs):
        V = self.sroa[0]
        out = []
        for e in effs:
            if e[0] == "assign" and e[1] == ("place", V, ()) and e[2][0] == "adt":
                for fn, fv in e[2][3]:
                    out.append(("assign", ("place", V + "." + fn, ()), fc.rewrite(fv, self._sroa_term)))
                continue
            out.append(fc.rewrite(e, self._sroa_term))
        return out

    def arm(self, variant):
        """paths on which the record is `variant` (None: iterator exhausted)"""
        out = []
        for p in self.paths:
            a = p["assign"]
            if variant is None:
                if a.get(("is", NEXT, "Some")) is False:
                    out.append(p)
            elif a.get(("is", REC, variant)) is True:
                out.append(p)
        return out

    def other_arm(self):
        out = []
        for p in self.paths:
            a = p["assign"]
            if a.get(("is", NEXT, "Some")) is True and not any(k[0] == "is" and k[1] == REC and v for k, v in a.items()):
                out.append(p)
        return out

    def after_loop(self):
        """function-level paths after the loop: list of (conds, normalised effects, value)"""
        out = []
        for st, (k, v) in self.res:
            effs = []
            seen_loop = False
            for e in st.effects:
                if e[0] == "loopsum" and e[1] == self.loop["index"]:
                    seen_loop = True
                    continue
                if not seen_loop:
                    continue
                ne = norm_effect(fc.rewrite(e, getattr(self, "_nt", norm_term)))
                if ne is not None:
                    effs.append(ne)
            if seen_loop:
                d = dict(conds=tuple((fc.rewrite(a, getattr(self, "_nt", norm_term)), p) for a, p in st.conds), effects=effs,
                         value=fc.rewrite(v, getattr(self, "_nt", norm_term)), raw_effects=st.effects)
                if self.sroa:
                    d["conds"] = tuple((fc.rewrite(a, self._sroa_term), pol) for a, pol in d["conds"])
                    d["effects"] = self._sroa_effects(d["effects"])
                    d["value"] = fc.rewrite(d["value"], self._sroa_term)
                out.append(d)
        return out


def rec_field(variant, name):
    return mk_payload(REC, variant, name)


LM = rec_field("Method", "line_mapping")
LMV = mk_payload(LM, "Some", "0")


def lmf(n):
    return mk_field(LMV, n)


def ref_entry_fields(o, cache):
    """C01.B1 / C01.B2: the interpretation of a Method record as stored entry fields.
    Returns dict field -> term (mapper encoding, or cache encoding with None <-> u32::MAX)."""
    absent_num = R.MAX32 if cache else NONE
    if o(("is", LM, "Some")):
        start, end = lmf("startline"), lmf("endline")
        if o(("is", lmf("original_startline"), "Some")):
            ostart = mk_payload(lmf("original_startline"), "Some", "0")
            if cache:
                oend = mk_payload(lmf("original_endline"), "Some", "0") if o(("is", lmf("original_endline"), "Some")) else R.MAX32
            else:
                oend = lmf("original_endline")
        else:
            # missing original range means identity
            ostart = start
            oend = end if cache else some(end)
    else:
        start = end = ostart = lit_int(0)
        oend = absent_num
    oc = rec_field("Method", "original_class")
    if cache:
        oc_v = strref(mk_payload(oc, "Some", "0")) if o(("is", oc, "Some")) else R.MAX32
        return dict(obfuscated_name_offset=strref(rec_field("Method", "obfuscated")), startline=start, endline=end,
                    original_class_offset=oc_v, original_name_offset=strref(rec_field("Method", "original")),
                    original_startline=ostart, original_endline=oend, params_offset=strref(rec_field("Method", "arguments")))
    return dict(startline=start, endline=end, original_class=oc, original=rec_field("Method", "original"),
                original_startline=ostart, original_endline=oend)


def ref_inlined(o):
    """C03.1: the entry is an inlined callee iff the next record is a method with the identical
    obfuscated range"""
    if not o(("is", LM, "Some")):
        return False
    if not o(("is", PEEK, "Some")):
        return False
    nxt = mk_payload(PEEK, "Some", "0")
    if not o(("is", nxt, "Method")):
        return False
    nlm = mk_payload(nxt, "Method", "line_mapping")
    if not o(("is", nlm, "Some")):
        return False
    n = mk_payload(nlm, "Some", "0")
    return o(("eq", lmf("startline"), mk_field(n, "startline"))) and o(("eq", lmf("endline"), mk_field(n, "endline")))
