"""Fact loader: bodies (typed trees), MIR summaries, items; call graph; tree walking helpers."""
import json, os, hashlib, subprocess, sys, time, shutil, glob, re

VERIF = os.path.dirname(os.path.dirname(os.path.abspath(__file__)))
REPO = os.environ.get("PG_REPO", "/repo")
WORK = os.path.join(VERIF, ".work")
DRIVER = os.path.join(VERIF, "pgfacts", "target", "release", "pgfacts")
CRATES = ("proguard", "watto", "leb128")


class ExtractError(Exception):
    pass


def _tree_hash(src_dir, feature, crates_env=None):
    h = hashlib.sha256()
    files = [os.path.join(src_dir, "Cargo.toml"), os.path.join(src_dir, "Cargo.lock")]
    for root, _, fs in os.walk(os.path.join(src_dir, "src")):
        for f in fs:
            files.append(os.path.join(root, f))
    for f in sorted(files):
        h.update(f.encode())
        try:
            with open(f, "rb") as fh:
                h.update(fh.read())
        except OSError:
            h.update(b"<missing>")
    h.update(feature.encode())
    try:
        with open(DRIVER, "rb") as fh:
            h.update(hashlib.sha256(fh.read()).digest())
    except OSError:
        raise ExtractError("pgfacts driver missing: run MANIFEST.setup_cmd")
    h.update((crates_env if crates_env is not None else os.environ.get("PGFACTS_CRATES", "")).encode())
    return h.hexdigest()[:20]


def extract(src_dir=None, feature="", crates=None):
    """Run the driver on src_dir (cached by content hash). Returns dir with <crate>.json."""
    src_dir = src_dir or REPO
    os.makedirs(WORK, exist_ok=True)
    env = dict(os.environ)
    if crates:
        # (only in the child's environment: a value left behind in this process would make every later extraction emit facts for
        # the wrong crates - seen as a spurious "configuration does not build" when a concurrent first-time extraction of the shared
        # controls crate failed half-way)
        env["PGFACTS_CRATES"] = ",".join(crates)
    key = _tree_hash(src_dir, feature, env.get("PGFACTS_CRATES", ""))
    tag = os.path.basename(os.path.abspath(src_dir))
    out = os.path.join(WORK, "facts-%s-%s-%s" % (tag, feature or "default", key))
    stamp = os.path.join(out, "OK")
    if os.path.exists(stamp):
        return out, True
    tmp = out + ".tmp%d" % os.getpid()
    shutil.rmtree(tmp, ignore_errors=True)
    for attempt in (1, 2):
        # a second attempt only after a failure: under a cold, heavily loaded start (many checks launched at once) the first compile
        # has been seen to fail for reasons that have nothing to do with the tree; a tree that does not build fails twice
        r = subprocess.run(
            [os.path.join(VERIF, "sa", "extract.sh"), src_dir, tmp, feature],
            env=env, capture_output=True, text=True)
        if r.returncode == 0:
            break
        if attempt == 1:
            shutil.rmtree(tmp, ignore_errors=True)
            time.sleep(2)
    if r.returncode != 0:
        try:
            with open(os.path.join(WORK, "last-extract-failure.log"), "w") as fh:
                fh.write("src=%s feature=%s\n%s\n%s" % (src_dir, feature, r.stdout[-3000:], r.stderr[-6000:]))
        except OSError:
            pass
        shutil.rmtree(tmp, ignore_errors=True)
        raise ExtractError("extraction failed (tree does not build?):\n" + r.stderr[-4000:])
    want = (crates or CRATES)[0]
    if not os.path.exists(os.path.join(tmp, want + ".json")):
        shutil.rmtree(tmp, ignore_errors=True)
        raise ExtractError("driver produced no fact file for crate %s" % want)
    open(os.path.join(tmp, "OK"), "w").write("ok")
    # publish; another process may have published the same content (same key) in the meantime - then that copy serves
    if os.path.exists(stamp):
        shutil.rmtree(tmp, ignore_errors=True)
    else:
        try:
            shutil.rmtree(out, ignore_errors=True)
            os.rename(tmp, out)
        except OSError:
            if not os.path.exists(stamp):
                raise
            shutil.rmtree(tmp, ignore_errors=True)
    # garbage-collect old fact dirs for the same tag/feature (keep 6 most recent)
    olds = sorted(glob.glob(os.path.join(WORK, "facts-%s-%s-*" % (tag, feature or "default"))),
                  key=os.path.getmtime)
    for o in olds[:-6]:
        shutil.rmtree(o, ignore_errors=True)
    return out, False


def fn_key(path):
    """A function's name without what a refactoring changes freely: generic/lifetime arguments, the module an inherent impl block
    sits in. `cache::debug::<impl cache::raw::ProguardCache<'data>>::display` -> `cache::raw::ProguardCache::display`."""
    out, i = [], 0
    while i < len(path):
        c = path[i]
        if c == "<":
            d, j = 0, i
            while True:
                if path[j] == "<":
                    d += 1
                elif path[j] == ">" and path[j - 1] != "-":
                    d -= 1
                    if d == 0:
                        break
                j += 1
            inner = path[i + 1:j]
            if inner.startswith("impl ") or " as " in inner:
                out.append("<" + fn_key(inner) + ">")
            elif out and out[-1] == ":" and len(out) > 1 and out[-2] == ":":
                out = out[:-2]
            i = j + 1
            continue
        out.append(c)
        i += 1
    k = "".join(out)
    m = k.find("<impl ")
    if m >= 0:
        e = k.index(">", m)
        k = k[m + 6:e] + k[e + 1:]
    return k[10:] if k.startswith("proguard::") else k


PARAM_NAMES_FILE = os.path.join(os.path.dirname(os.path.abspath(__file__)), "param_names.json")
PARAM_TYPES_FILE = os.path.join(os.path.dirname(os.path.abspath(__file__)), "param_types.json")


def canonical_param_names(fx):
    """Parameter names are not behaviour: callers pass by position. The rules name a function's inputs (`in(bytes)`, `in(frame)`)
    the way the reference tree does; `param_names.json` freezes those names per function and position, and a function of the same
    arity in the analysed tree has its parameters renamed to them (binding, every use, every capture by its closures; variables are
    resolved by id, so a local that happens to carry the reference name is unaffected). A function the table does not know, or whose
    arity changed, is left as it is. Returns {path: {old: new}} for the evidence."""
    try:
        table = json.load(open(PARAM_NAMES_FILE))
    except OSError:
        return {}
    by_key = {}
    for p, b in fx.bodies.items():
        if b["krate"] == "proguard" and b["kind"] in ("Fn", "AssocFn"):
            by_key.setdefault(fn_key(p), []).append(p)
    done = {}
    # a free function that moved to another module is still that function when its name is unique on both sides
    last = lambda k_: k_.rsplit("::", 1)[-1]
    t_last, b_last = {}, {}
    for k_ in table:
        t_last.setdefault(last(k_), []).append(k_)
    for k_ in by_key:
        b_last.setdefault(last(k_), []).append(k_)
    # a private function *renamed* (and perhaps its parameters with it): within the same impl / module, the only function of the
    # tree the table does not know whose signature (parameter and return types, lifetimes erased) equals that of the only table
    # function the tree no longer has
    try:
        sigs = json.load(open(PARAM_TYPES_FILE))
    except OSError:
        sigs = {}
    scope = lambda k_: k_.rsplit("::", 1)[0] if "::" in k_ else ""

    def sig_of(b_):
        return [[_erase_lt(x_) for x_ in (b_.get("inputs") or [])], _erase_lt(b_.get("output") or "")]
    renamed_fn = {}
    unknown = [k_ for k_, ps_ in by_key.items() if k_ not in table and len(ps_) == 1 and not fx.bodies[ps_[0]].get("reachable_pub")]
    gone = [k_ for k_ in table if k_ not in by_key and k_ in sigs]
    for k_ in unknown:
        sg_ = sig_of(fx.bodies[by_key[k_][0]])
        cands_ = [g_ for g_ in gone if scope(g_) == scope(k_) and sigs[g_][:2] == sg_]
        rivals_ = [u_ for u_ in unknown if u_ != k_ and scope(u_) == scope(k_) and sig_of(fx.bodies[by_key[u_][0]]) == sg_]
        if len(cands_) == 1 and not rivals_:
            renamed_fn[k_] = cands_[0]
        elif cands_ and len(cands_) == len(rivals_) + 1:
            # several functions of one signature renamed at once (`parse_until` / `parse_until_no_newline`): paired in declaration order
            mine_ = sorted(rivals_ + [k_], key=lambda u_: line_of(fx.bodies[by_key[u_][0]].get("sp") or "") or 0)
            theirs_ = sorted(cands_, key=lambda g_: (sigs[g_][2] if len(sigs[g_]) > 2 else 0))
            renamed_fn[k_] = theirs_[mine_.index(k_)]
    for k, ps in by_key.items():
        want = table.get(k)
        if want is None and k in renamed_fn:
            want = table[renamed_fn[k]]
        if want is None and "<" not in k and len(t_last.get(last(k), [])) == 1 and len(b_last[last(k)]) == 1 \
                and fx.bodies[ps[0]]["kind"] == "Fn" and t_last[last(k)][0].count("::") <= k.count("::"):
            want = table[t_last[last(k)][0]]
        if want is None or len(ps) != 1:
            continue
        b = fx.bodies[ps[0]]
        pats = [prm.get("pat") for prm in b["params"]]
        if len(pats) != len(want):
            continue
        ren = {}
        for pat, w in zip(pats, want):
            if w is None or pat is None or pat.get("k") != "Bind" or pat.get("sub") is not None:
                continue
            if pat["name"] != w and pat["name"] != "self" and w != "self":
                ren[pat["id"]] = (pat["name"], w)
                pat["name"] = w
        if not ren:
            continue
        todo, seen = [ps[0]], set()
        while todo:
            q = todo.pop()
            if q in seen:
                continue
            seen.add(q)
            for n in walk(fx.bodies[q]["body"]):
                if n.get("k") in ("Var", "Upvar") and n.get("id") in ren and n.get("name") == ren[n["id"]][0]:
                    n["name"] = ren[n["id"]][1]
            todo += [c["path"] for c in fx.closures_of(q)]
        done[ps[0]] = {o: w for o, w in ren.values()}
    return done


ADT_NAMES_FILE = os.path.join(os.path.dirname(os.path.abspath(__file__)), "adt_names.json")


def _adt_shape(a):
    return (a["kind"], tuple(sorted((v["name"] if len(a["variants"]) > 1 else "", tuple(sorted(f_["name"] for f_ in v["fields"]))) for v in a["variants"])))


def _adt_type_shape(a):
    """kind + per variant the sorted field *types* (lifetimes erased): what is left of a private type when its name and its field names
    are both free"""
    return [a["kind"], sorted([v["name"] if len(a["variants"]) > 1 else "", sorted(_erase_lt(f_.get("ty")) for f_ in v["fields"])] for v in a["variants"])]


def canonical_adt_names(d):
    """Fixpoint of `_adt_names_once`: private types that mention each other (`ClassMapping { members: HashMap<&str, ClassMembers> }`) are
    recognised one after the other - a name found in one pass is put back into the field types the next pass compares."""
    import copy
    total = {}
    work = copy.deepcopy(d["items"]["adts"])
    for _ in range(4):
        found = _adt_names_once({"items": {"adts": work}})
        new = {k_: v_ for k_, v_ in found.items() if k_ not in total}
        if not new:
            break
        total.update(new)
        for a_ in work:
            for new_q, old_q in new.items():
                if a_["path"] == "proguard::" + new_q:
                    a_["path"] = "proguard::" + old_q
                for v_ in a_["variants"]:
                    for f_ in v_["fields"]:
                        if f_.get("ty"):
                            f_["ty"] = re.sub(r"(?<![\w])%s(?![\w])" % re.escape(new_q), old_q, f_["ty"])
    return total


def _adt_names_once(d):
    """The name of a type that cannot be named outside the crate is not behaviour. `adt_names.json` freezes the reference tree's
    crate-private types (module, name, kind, field names per variant). A private type of the analysed tree that the table does not
    know, in a module where exactly one table type is missing, of the same kind and with the same variants and field names, is that
    type under a new name: its qualified name is replaced by the reference's throughout the fact file (types are spelled
    `module::Name` there). Anything less than a unique structural match is left alone. Returns {"module::New": "module::Old"}."""
    try:
        table = json.load(open(ADT_NAMES_FILE))
    except OSError:
        return {}
    have = {a["path"]: a for a in d["items"]["adts"] if a["path"].startswith("proguard::")}
    missing = [p_ for p_ in table if p_ not in have]
    out = {}
    strip = lambda q: q[len("proguard::"):]
    # a type *moved* to another module (its definition in a new file, re-exported where it was): same name, same shape, the only one
    moved = set()
    for e, a in have.items():
        if e in table:
            continue
        nm_ = e.rsplit("::", 1)[1]
        cands = [m for m in missing if m.rsplit("::", 1)[1] == nm_ and table[m]["shape"] == json.loads(json.dumps(_adt_shape(a)))]
        rivals = [x for x in have if x != e and x not in table and x.rsplit("::", 1)[1] == nm_]
        if len(cands) == 1 and not rivals:
            out[strip(e)] = strip(cands[0])
            moved.add(e)
            missing = [m for m in missing if m != cands[0]]
    extra = [p_ for p_, a in have.items() if p_ not in table and not a.get("reachable_pub") and p_ not in moved]
    names_in_use = {p_.rsplit("::", 1)[1] for p_ in have}
    for e in extra:
        mod = e.rsplit("::", 1)[0]
        cands = [m for m in missing if m.rsplit("::", 1)[0] == mod and table[m].get("private", True)
                 and table[m]["shape"] == json.loads(json.dumps(_adt_shape(have[e])))]
        rivals = [x for x in extra if x != e and x.rsplit("::", 1)[0] == mod and _adt_shape(have[x]) == _adt_shape(have[e])]
        if not cands:
            # renamed together with (some of) its private fields: the field types still tell which type it is
            ts_ = json.loads(json.dumps(_adt_type_shape(have[e])))
            cands = [m for m in missing if m.rsplit("::", 1)[0] == mod and table[m].get("private", True) and table[m].get("types") == ts_
                     and any(v_[1] for v_ in ts_[1])]
            rivals = [x for x in extra if x != e and x.rsplit("::", 1)[0] == mod and _adt_type_shape(have[x]) == _adt_type_shape(have[e])]
        if len(cands) == 1 and not rivals and cands[0].rsplit("::", 1)[1] not in names_in_use:
            out[strip(e)] = strip(cands[0])
    # moved *and* renamed (a private state struct put into a file of its own under a new name): the field types still identify it when
    # exactly one unknown private type of the crate and exactly one missing private table type share them
    taken_new = {"proguard::" + k_ for k_ in out}
    taken_old = {"proguard::" + v_ for v_ in out.values()}
    rest_extra = [e for e in extra if e not in taken_new]
    rest_missing = [m for m in missing if m not in taken_old and table[m].get("private", True)]
    for e in rest_extra:
        ts_ = json.loads(json.dumps(_adt_type_shape(have[e])))
        if not any(v_[1] for v_ in ts_[1]):
            continue
        cands = [m for m in rest_missing if table[m].get("types") == ts_]
        rivals = [x for x in rest_extra if x != e and _adt_type_shape(have[x]) == _adt_type_shape(have[e])]
        if len(cands) == 1 and not rivals and cands[0].rsplit("::", 1)[1] not in names_in_use:
            out[strip(e)] = strip(cands[0])
    return out


FIELD_NAMES_FILE = os.path.join(os.path.dirname(os.path.abspath(__file__)), "field_names.json")


def _erase_lt(ty):
    return re.sub(r"'\w+ ?", "", ty or "")


def _adt_of_ty(ty):
    """`&mapper::ClassMembers<'_>` -> `proguard::mapper::ClassMembers`"""
    t = (ty or "").lstrip("&").strip()
    if t.startswith("mut "):
        t = t[4:]
    t = re.sub(r"<.*", "", t)
    return t if t.startswith(("proguard::", "std::", "core::", "alloc::")) else "proguard::" + t


def canonical_field_names(fx):
    """The name of a field that is not `pub` is not behaviour either: nobody outside the crate can say it. `field_names.json`
    freezes, per type and variant, the reference tree's (name, type, is-public) per field. A type of the analysed tree with the same
    number of fields, whose public fields are all still there by name, has each private field that the reference does not know
    renamed to the reference name of the same type (lifetimes erased; several of one type pair up in declaration order). If a
    field's type has no partner the type is left alone (the rules will then say what they cannot find). Declaration, aggregate
    expressions, field accesses and patterns are renamed together. Returns {adt: {old: new}}."""
    try:
        table = json.load(open(FIELD_NAMES_FILE))
    except OSError:
        return {}
    done = {}
    for a in fx.all_adts("proguard"):
        ref = table.get(a["path"])
        if ref is None:
            continue
        ren = {}
        ok = True
        for v in a["variants"]:
            want = ref.get(v["name"])
            if want is None or len(want) != len(v["fields"]):
                continue
            have_names = [f_["name"] for f_ in v["fields"]]
            want_names = [w[0] for w in want]
            missing = [w for w in want if w[0] not in have_names]
            extra = [f_ for f_ in v["fields"] if f_["name"] not in want_names]
            if not missing:
                continue
            if any(w[2] for w in missing) or any(f_.get("vis") == "Public" for f_ in extra):
                ok = False
                break
            used = set()
            for w in missing:
                cands = [f_ for f_ in extra if f_["name"] not in used and _erase_lt(f_.get("ty")) == _erase_lt(w[1])]
                if not cands:
                    ok = False
                    break
                used.add(cands[0]["name"])
                ren[(v["name"], cands[0]["name"])] = w[0]
            if not ok:
                break
        if not ok or not ren:
            continue
        for v in a["variants"]:
            for f_ in v["fields"]:
                if (v["name"], f_["name"]) in ren:
                    f_["name"] = ren[(v["name"], f_["name"])]
        done[a["path"]] = ren
    if not done:
        return {}
    single = {p: (len(fx.adt(p)["variants"]) == 1) for p in done}

    def new_name(adt, variant, name):
        r = done.get(adt)
        if not r:
            return name
        if variant is None:
            hits = [w for (v_, o), w in r.items() if o == name]
            return hits[0] if len(hits) == 1 else name
        return r.get((variant, name), name)

    def fix(n):
        if isinstance(n, list):
            for x in n:
                fix(x)
            return
        if not isinstance(n, dict):
            return
        k = n.get("k")
        if k == "Field" and "name" in n:
            n["name"] = new_name(_adt_of_ty(n.get("base_ty")), n.get("variant_name"), n["name"])
        elif k == "Adt" and n.get("adt") in done:
            var = n.get("variant")
            for f_ in n.get("fields", []):
                f_["name"] = new_name(n["adt"], var, f_["name"])
            if n.get("all_fields"):
                n["all_fields"] = [new_name(n["adt"], var, x) for x in n["all_fields"]]
        elif k in ("Leaf", "Variant") and n.get("adt") in done:
            var = n.get("variant") if k == "Variant" else None
            if var is None and single.get(n["adt"]):
                var = fx.adt(n["adt"])["variants"][0]["name"]
            for f_ in n.get("fields", []):
                f_["name"] = new_name(n["adt"], var, f_["name"])
        for x in n.values():
            if isinstance(x, (dict, list)):
                fix(x)
    for b in fx.bodies.values():
        if b["krate"] == "proguard":
            fix(b.get("params"))
            fix(b["body"])
    return {a_: {"%s.%s" % k_: w for k_, w in r.items()} for a_, r in done.items()}


FIELD_ORDER_FILE = os.path.join(os.path.dirname(os.path.abspath(__file__)), "field_order.json")


def canonical_field_order(fx):
    """The declaration order of the fields of a struct or enum variant without `repr(C)`/`packed`/`transparent` is not behaviour
    (field access is by name; the compiler lays such a type out as it likes). Terms list an aggregate's fields in declaration
    order, and the rules' references were written against the reference tree's order, frozen in `field_order.json`: a type of the
    analysed tree with the same field names has its declaration (and every aggregate expression of it) listed in that order.
    Types with a `repr` that fixes the layout are never touched - there the order is the on-disk format. Returns the renamed
    {adt: {variant: order}} for the evidence."""
    try:
        table = json.load(open(FIELD_ORDER_FILE))
    except OSError:
        return {}
    done = {}
    # a derived ordering compares fields in declaration order: for such a type the order is behaviour
    ordered = set()
    for im in fx.items.get("proguard", {}).get("impls", []):
        if (im.get("trait") or "").endswith(("cmp::PartialOrd", "cmp::Ord")):
            ordered.add(re.sub(r"<.*", "", im.get("self") or "").split("::")[-1])
    for a in fx.all_adts("proguard"):
        if a.get("repr_c") or a.get("repr_packed") or a.get("repr_transparent") or a["path"] not in table \
                or a["path"].split("::")[-1] in ordered:
            continue
        for v in a["variants"]:
            want = table[a["path"]].get(v["name"])
            have = [f_["name"] for f_ in v["fields"]]
            if want is None or want == have or sorted(want) != sorted(have):
                continue
            perm = [have.index(w) for w in want]
            v["fields"] = [v["fields"][i] for i in perm]
            if len(a["variants"]) == 1 and isinstance(a.get("offsets"), list) and len(a["offsets"]) == len(have):
                a["offsets"] = [a["offsets"][i] for i in perm]
            done.setdefault(a["path"], {})[v["name"]] = want
    if done:
        for b in fx.bodies.values():
            if b["krate"] != "proguard":
                continue
            for n in walk(b["body"]):
                if n.get("k") == "Adt" and n.get("adt") in done and n.get("variant") in done[n["adt"]] \
                        and sorted(n.get("all_fields") or []) == sorted(done[n["adt"]][n["variant"]]):
                    n["all_fields"] = list(done[n["adt"]][n["variant"]])
    return done


class Facts:
    def __init__(self, fact_dir, crates=CRATES):
        self.dir = fact_dir
        self.bodies = {}      # path -> body
        self.by_dp = {}       # viewpoint-independent def path -> body path
        self.mir = {}         # path -> mir summary
        self.items = {}       # crate -> items
        self.errors = []
        self.crates = []
        self.renamed_adts = {}
        for c in crates:
            p = os.path.join(fact_dir, c + ".json")
            if not os.path.exists(p):
                continue
            d = json.load(open(p))
            if c == "proguard":
                ren = canonical_adt_names(d)
                if ren:
                    txt = open(p).read()
                    for new_q, old_q in ren.items():
                        txt = re.sub(r"(?<![\w])%s(?![\w])" % re.escape(new_q), old_q, txt)
                    d = json.loads(txt)
                    self.renamed_adts = ren
                    # a struct's only variant carries the struct's name
                    vren = {"proguard::" + old_q: (new_q.rsplit("::", 1)[-1], old_q.rsplit("::", 1)[-1]) for new_q, old_q in ren.items()
                            if new_q.rsplit("::", 1)[-1] != old_q.rsplit("::", 1)[-1]}
                    for a_ in d["items"]["adts"]:
                        if a_["path"] in vren and len(a_["variants"]) == 1 and a_["variants"][0]["name"] == vren[a_["path"]][0]:
                            a_["variants"][0]["name"] = vren[a_["path"]][1]

                    def fixv(n_):
                        if isinstance(n_, list):
                            for x_ in n_:
                                fixv(x_)
                        elif isinstance(n_, dict):
                            if n_.get("adt") in vren and n_.get("variant") == vren[n_["adt"]][0]:
                                n_["variant"] = vren[n_["adt"]][1]
                            for x_ in n_.values():
                                if isinstance(x_, (dict, list)):
                                    fixv(x_)
                    if vren:
                        for b_ in d["bodies"]:
                            fixv(b_.get("params"))
                            fixv(b_.get("body"))
            self.crates.append(c)
            for b in d["bodies"]:
                self.bodies[b["path"]] = b
                self.by_dp[b["dp"]] = b["path"]
            for m in d["mir"]:
                self.mir[m["path"]] = m
            self.items[c] = d["items"]
            self.errors += d["errors"]
        self._cg = None
        self._ti = None
        self.renamed_params = canonical_param_names(self)
        self.renamed_fields = canonical_field_names(self)
        self.reordered_fields = canonical_field_order(self)

    # ---- lookup -----------------------------------------------------------
    def body(self, path):
        b = self.bodies.get(path)
        if b is None:
            raise KeyError(path)
        return b

    def find_bodies(self, pred):
        return [b for b in self.bodies.values() if pred(b)]

    def fn_by_suffix(self, suffix, krate="proguard"):
        r = [b for p, b in self.bodies.items() if p.endswith(suffix) and b["krate"] == krate
             and b["kind"] in ("Fn", "AssocFn")]
        return r

    def closures_of(self, path):
        return [b for b in self.bodies.values() if b.get("parent") == path and b["kind"] == "Closure"]

    def adt(self, path):
        for c, it in self.items.items():
            for a in it["adts"]:
                if a["path"] == path:
                    return a
        return None

    def all_adts(self, krate=None):
        for c, it in self.items.items():
            if krate and c != krate:
                continue
            for a in it["adts"]:
                yield a

    def const(self, path):
        for c, it in self.items.items():
            for a in it["consts"]:
                if a["path"] == path:
                    return a
        return None

    # ---- call graph ---------------------------------------------------------
    def callgraph(self):
        """path -> list of (callee_path, resolved_or_None, node). Closures folded into parents
        separately via closure edges (parent -> closure)."""
        if self._cg is not None:
            return self._cg
        cg = {}
        for p, b in self.bodies.items():
            edges = []
            for n in walk(b["body"]):
                k = n.get("k")
                if k in ("Call", "Zst") and "fn" in n:
                    f = n["fn"]
                    # link through the viewpoint-independent def path (re-exports change `path`)
                    tgt = self.by_dp.get(f.get("dp"), f["path"])
                    res = self.by_dp.get(f.get("resolved_dp"), f.get("resolved"))
                    edges.append((tgt, res, n))
                    # foreign generic code may call trait impls of local types it is instantiated with
                    if tgt not in self.bodies and res not in self.bodies:
                        for m in f.get("mentions", ()):
                            for ip in self.trait_impls_of().get(m, ()):
                                edges.append((ip, None, n))
                elif k == "Closure":
                    edges.append((n["def"], None, n))
            cg[p] = edges
        self._cg = cg
        return cg

    def trait_impls_of(self):
        """ADT dp -> [paths of trait-impl method bodies for that self type]"""
        if self._ti is None:
            self._ti = {}
            for p2, b2 in self.bodies.items():
                if b2.get("impl_trait") and b2.get("impl_self_dp"):
                    self._ti.setdefault(b2["impl_self_dp"], []).append(p2)
        return self._ti

    def reachable(self, roots, enter=lambda path: True):
        """Set of local body paths reachable from roots through resolved callees (impl if
        resolved, else the named callee), including closures."""
        cg = self.callgraph()
        seen = {}
        todo = [(r, None) for r in roots]
        while todo:
            p, parent = todo.pop()
            if p in seen or p not in self.bodies:
                continue
            seen[p] = parent
            for callee, resolved, _ in cg[p]:
                for t in (resolved, callee):
                    if t and t in self.bodies and t not in seen and enter(t):
                        todo.append((t, p))
        return seen

    def path_to(self, seen, target):
        out = []
        while target is not None:
            out.append(target)
            target = seen.get(target)
        return list(reversed(out))


CHILD_KEYS = ("e", "l", "r", "cond", "then", "else", "body", "scrut", "index", "init", "fun", "base", "tail")
LIST_KEYS = ("args", "fields", "stmts", "arms", "upvars")


def children(n):
    """Direct child expression nodes of an expression/stmt/arm node, in evaluation order."""
    if not isinstance(n, dict):
        return
    k = n.get("k")
    if k == "Match":
        yield n["scrut"]
        for a in n["arms"]:
            # patterns may hold guard conditions
            for g in pat_exprs(a["pat"]):
                yield g
            if a.get("guard"):
                yield a["guard"]
            yield a["body"]
        return
    if k == "Block":
        for s in n["stmts"]:
            if s["k"] == "Expr":
                yield s["e"]
            else:
                if s.get("init"):
                    yield s["init"]
                if s.get("else"):
                    yield s["else"]
        if n.get("tail"):
            yield n["tail"]
        return
    if k == "Adt":
        for f in n["fields"]:
            yield f["e"]
        if isinstance(n.get("base"), dict):
            yield n["base"]
        return
    if k == "LetExpr":
        yield n["e"]
        return
    for key in ("fun", "scrut", "cond", "e", "l", "r", "index", "then", "else", "body"):
        v = n.get(key)
        if isinstance(v, dict) and "k" in v:
            yield v
    for key in ("args", "fields", "upvars"):
        v = n.get(key)
        if isinstance(v, list):
            for x in v:
                if isinstance(x, dict) and "k" in x:
                    yield x


def pat_exprs(p):
    if not isinstance(p, dict):
        return
    if p.get("k") == "Guard":
        yield p["cond"]
        yield from pat_exprs(p["pat"])
    for key in ("pat", "sub", "slice"):
        v = p.get(key)
        if isinstance(v, dict):
            yield from pat_exprs(v)
    for key in ("fields",):
        for f in p.get(key, []) or []:
            yield from pat_exprs(f.get("pat"))
    for key in ("pats", "prefix", "suffix"):
        for f in p.get(key, []) or []:
            yield from pat_exprs(f)


def walk(n):
    """Pre-order walk over all expression nodes."""
    stack = [n]
    while stack:
        x = stack.pop()
        if not isinstance(x, dict):
            continue
        yield x
        cs = list(children(x))
        stack.extend(reversed(cs))


def walk_with_parents(n, parents=()):
    yield n, parents
    for c in children(n):
        yield from walk_with_parents(c, parents + (n,))


def strip(n):
    """Erase transparent wrappers: borrows, derefs, coercions, non-unsafe single-tail blocks."""
    while isinstance(n, dict):
        k = n.get("k")
        if k in ("Borrow", "Deref", "Coerce", "RawBorrow"):
            n = n["e"]
        elif k == "Block" and not n["stmts"] and n.get("tail") is not None:
            n = n["tail"]
        else:
            break
    return n


def callee(n):
    """(path, resolved) of a Call node or (None, None)."""
    if isinstance(n, dict) and n.get("k") == "Call" and "fn" in n:
        return n["fn"]["path"], n["fn"].get("resolved")
    return None, None


def is_call(n, *names):
    """Call whose callee path (or resolved impl path) ends with one of names."""
    p, r = callee(n)
    if p is None:
        return False
    for nm in names:
        if p == nm or p.endswith("::" + nm) or (r and (r == nm or r.endswith("::" + nm))):
            return True
    return False


def line_of(sp):
    # "file:line:col-line:col"
    try:
        parts = sp.rsplit(":", 4)
        return int(parts[1])
    except Exception:
        return 0


def file_of(sp):
    return sp.rsplit(":", 4)[0]


def loc(n):
    sp = n.get("sp", "?")
    f = file_of(sp)
    return "%s:%d" % (short_file(f), line_of(sp))


def short_file(f):
    if "/registry/src/" in f:
        return f.split("/registry/src/")[1].split("/", 1)[1]
    return f


# ---- pretty printer (debug + evidence samples) --------------------------------
def pp_pat(p):
    k = p["k"]
    if k == "Wild":
        return "_"
    if k == "Bind":
        s = ("ref " if p["byref"] else "") + p["name"]
        if p.get("sub"):
            s += " @ " + pp_pat(p["sub"])
        return s
    if k == "Variant":
        return "%s::%s{%s}" % (p["adt"].split("::")[-1], p["variant"],
                               ", ".join("%s: %s" % (f["name"], pp_pat(f["pat"])) for f in p["fields"]))
    if k == "Leaf":
        return "{%s}" % ", ".join("%s: %s" % (f["name"], pp_pat(f["pat"])) for f in p["fields"])
    if k == "Deref":
        return "&" + pp_pat(p["pat"])
    if k in ("Const", "Range"):
        return p["v"]
    if k == "Or":
        return " | ".join(pp_pat(x) for x in p["pats"])
    if k == "Guard":
        return pp_pat(p["pat"]) + " if " + pp(p["cond"])
    if k == "Slice":
        return "[..]"
    return k


def pp(n, depth=0):
    if n is None:
        return "()"
    k = n.get("k")
    ind = "  " * depth
    if k == "Lit":
        l = n["lit"]
        if l["t"] == "bytes":
            return "b" + json.dumps(bytes(l["v"]).decode("latin1"))
        if l["t"] in ("str", "char"):
            return json.dumps(l["v"])
        return str(l.get("v"))
    if k in ("Var", "Upvar"):
        return n["name"]
    if k == "Const":
        return n["path"].split("::")[-1]
    if k == "Zst":
        return n["fn"]["path"] if "fn" in n else "<zst>"
    if k == "Call":
        f = n["fn"]["path"] if "fn" in n else "(" + pp(n["fun"]) + ")"
        return "%s(%s)" % (f, ", ".join(pp(a, depth) for a in n["args"]))
    if k == "Borrow":
        return ("&mut " if n["mut"] else "&") + pp(n["e"], depth)
    if k == "Deref":
        return "*" + pp(n["e"], depth)
    if k == "Coerce":
        return pp(n["e"], depth)
    if k == "Cast":
        return "(%s as %s)" % (pp(n["e"], depth), n["ty"])
    if k == "Binary":
        return "(%s %s %s)" % (pp(n["l"], depth), n["op"], pp(n["r"], depth))
    if k == "Logical":
        return "(%s %s %s)" % (pp(n["l"], depth), "&&" if n["op"] == "And" else "||", pp(n["r"], depth))
    if k == "Unary":
        return "%s(%s)" % (n["op"], pp(n["e"], depth))
    if k == "Field":
        return "%s.%s" % (pp(n["e"], depth), n["name"])
    if k == "Index":
        return "%s[%s]" % (pp(n["e"], depth), pp(n["index"], depth))
    if k == "If":
        s = "if %s %s" % (pp(n["cond"], depth), pp(n["then"], depth))
        if n.get("else"):
            s += " else " + pp(n["else"], depth)
        return s
    if k == "LetExpr":
        return "let %s = %s" % (pp_pat(n["pat"]), pp(n["e"], depth))
    if k == "Match":
        s = "match %s {\n" % pp(n["scrut"], depth)
        for a in n["arms"]:
            g = (" if " + pp(a["guard"], depth)) if a.get("guard") else ""
            s += "%s  %s%s => %s,\n" % (ind, pp_pat(a["pat"]), g, pp(a["body"], depth + 1))
        return s + ind + "}"
    if k == "Block":
        if not n["stmts"]:
            return "{ %s }" % (pp(n["tail"], depth) if n.get("tail") else "")
        s = "{\n"
        for st in n["stmts"]:
            if st["k"] == "Expr":
                s += "%s  %s;\n" % (ind, pp(st["e"], depth + 1))
            else:
                s += "%s  let %s%s%s;\n" % (ind, pp_pat(st["pat"]),
                                            (" = " + pp(st["init"], depth + 1)) if st.get("init") else "",
                                            (" else " + pp(st["else"], depth + 1)) if st.get("else") else "")
        if n.get("tail"):
            s += "%s  %s\n" % (ind, pp(n["tail"], depth + 1))
        return s + ind + "}"
    if k == "Loop":
        return "loop " + pp(n["body"], depth)
    if k == "Assign":
        return "%s = %s" % (pp(n["l"], depth), pp(n["r"], depth))
    if k == "AssignOp":
        return "%s %s= %s" % (pp(n["l"], depth), n["op"], pp(n["r"], depth))
    if k == "Adt":
        s = "%s::%s{%s" % (n["adt"].split("::")[-1], n["variant"],
                           ", ".join("%s: %s" % (f["name"], pp(f["e"], depth)) for f in n["fields"]))
        if isinstance(n.get("base"), dict):
            s += ", .." + pp(n["base"], depth)
        return s + "}"
    if k == "Tuple":
        return "(%s)" % ", ".join(pp(f, depth) for f in n["fields"])
    if k == "Array":
        return "[%s]" % ", ".join(pp(f, depth) for f in n["fields"])
    if k == "Closure":
        return "|closure %s|" % n["def"].split("::")[-1]
    if k == "Return":
        return "return " + (pp(n["e"], depth) if n.get("e") else "")
    if k == "Break":
        return "break " + (pp(n["e"], depth) if n.get("e") else "")
    if k == "Continue":
        return "continue"
    if k == "Repeat":
        return "[%s; %s]" % (pp(n["e"], depth), n["count"])
    return "<%s>" % k


if __name__ == "__main__":
    d, hit = extract()
    f = Facts(d)
    if len(sys.argv) > 1:
        for p, b in f.bodies.items():
            if sys.argv[1] in p:
                print("=====", p, b["kind"], b["sp"])
                print(pp(b["body"]))
    else:
        for p, b in sorted(f.bodies.items()):
            print(b["kind"], p)
