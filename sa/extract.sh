#!/bin/bash
# usage: extract.sh <src_dir> <out_dir> [features]   -- runs pgfacts over <src_dir> (a cargo package)
set -u
SRC="$1"; OUT="$2"; FEAT="${3:-}"
BASE="$(cd "$(dirname "$0")/.." && pwd)"
DRV="$BASE/pgfacts/target/release/pgfacts"
[ -x "$DRV" ] || { echo "pgfacts driver not built (run setup_cmd)" >&2; exit 2; }
mkdir -p "$OUT"
TGT=$(mktemp -d "$BASE/.work/tgt.XXXXXX")
trap 'rm -rf "$TGT"' EXIT
SYSROOT=$(rustc +nightly --print sysroot)
FARGS=()
[ -n "$FEAT" ] && FARGS=(--features "$FEAT")
cd "$SRC" || exit 2
LD_LIBRARY_PATH="$SYSROOT/lib" \
RUSTFLAGS="-Zmir-opt-level=0 -Awarnings" \
RUSTC_WRAPPER="$DRV" \
PGFACTS_OUT="$OUT" \
PGFACTS_CRATES="${PGFACTS_CRATES:-proguard,watto,leb128}" \
CARGO_NET_OFFLINE=true \
CARGO_TARGET_DIR="$TGT" \
cargo +nightly check --offline --lib "${FARGS[@]}" > "$OUT/cargo.log" 2>&1
rc=$?
if [ $rc -ne 0 ] && grep -q "panicked at" "$OUT/cargo.log"; then
  # the extractor itself crashed (compiler-internal panic in an optional fact): retry without the optional facts
  rm -rf "$TGT"; TGT=$(mktemp -d "$BASE/.work/tgt.XXXXXX")
  cp "$OUT/cargo.log" "$OUT/cargo.first.log"
  LD_LIBRARY_PATH="$SYSROOT/lib" RUSTFLAGS="-Zmir-opt-level=0 -Awarnings" RUSTC_WRAPPER="$DRV" PGFACTS_OUT="$OUT" PGFACTS_SAFE=1 \
  PGFACTS_CRATES="${PGFACTS_CRATES:-proguard,watto,leb128}" CARGO_NET_OFFLINE=true CARGO_TARGET_DIR="$TGT" \
  cargo +nightly check --offline --lib "${FARGS[@]}" > "$OUT/cargo.log" 2>&1
  rc=$?
fi
if [ $rc -ne 0 ]; then tail -40 "$OUT/cargo.log" >&2; exit 2; fi
exit 0
