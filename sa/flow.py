"""Binding origins, the `?` idiom, and dominating facts over typed trees (no execution)."""
import facts as F


def try_operand(n):
    """If n is the desugaring of `X?` return X, else None.
    match Try::branch(X) { Break(r) => return from_residual(r), Continue(v) => v }"""
    if not isinstance(n, dict) or n.get("k") != "Match":
        return None
    if "TryDesugar" not in n.get("src", ""):
        return None
    s = F.strip(n["scrut"])
    if F.is_call(s, "std::ops::Try::branch"):
        return s["args"][0]
    return None


def peel(n):
    """strip refs/derefs/coercions/trivial blocks, `?`, and value-preserving wrappers
    (`.ok()`, `.as_ref()`, `.copied()`, `.cloned()`, `Option::Some` is NOT peeled)."""
    while True:
        n = F.strip(n)
        t = try_operand(n)
        if t is not None:
            n = t
            continue
        return n


class Origins:
    """For every local variable of a body (closure bodies included when given): the list of its
    value sources. A source is (path, expr): `path` = tuple of pattern steps from the matched /
    bound expression down to the binding, e.g. (("Some", "0"),) or (("tuple", "1"),)."""

    def __init__(self, body, fx=None):
        self.body = body
        self.src = {}       # var id -> list of (path, expr_node or None, how)
        self.mut = {}
        self.names = {}
        self.assigned = {}  # var id -> count of Assign/AssignOp/&mut borrows
        self._collect_params(body)
        self._walk(body["body"])

    def _bind(self, pat, expr, path, how):
        if not isinstance(pat, dict):
            return
        k = pat["k"]
        if k == "Bind":
            self.src.setdefault(pat["id"], []).append((tuple(path), expr, how))
            self.mut[pat["id"]] = pat.get("mut", False)
            self.names[pat["id"]] = pat["name"]
            if pat.get("sub"):
                self._bind(pat["sub"], expr, path, how)
        elif k == "Variant":
            for f in pat["fields"]:
                self._bind(f["pat"], expr, path + [(pat["variant"], f["name"])], how)
        elif k == "Leaf":
            for f in pat["fields"]:
                self._bind(f["pat"], expr, path + [("leaf", f["name"])], how)
        elif k == "Deref":
            self._bind(pat["pat"], expr, path, how)
        elif k == "Or":
            for p in pat["pats"]:
                self._bind(p, expr, path, how)
        elif k == "Guard":
            self._bind(pat["pat"], expr, path, how)
        elif k == "Slice":
            for p in pat.get("prefix", []) + pat.get("suffix", []):
                self._bind(p, expr, path + [("slice", "?")], how)
            if pat.get("slice"):
                self._bind(pat["slice"], expr, path + [("slice", "..")], how)

    def _collect_params(self, body):
        for i, p in enumerate(body["params"]):
            if p.get("pat"):
                self._bind(p["pat"], None, [("param", str(i))], "param")

    def _walk(self, root):
        for n in F.walk(root):
            k = n.get("k")
            if k == "Block":
                for s in n["stmts"]:
                    if s["k"] == "Let":
                        self._bind(s["pat"], s.get("init"), [], "let")
            elif k == "Match":
                for a in n["arms"]:
                    self._bind(a["pat"], n["scrut"], [], "match")
            elif k == "LetExpr":
                self._bind(n["pat"], n["e"], [], "iflet")
            elif k in ("Assign", "AssignOp"):
                l = F.strip(n["l"])
                if l.get("k") in ("Var", "Upvar"):
                    self.assigned[l["id"]] = self.assigned.get(l["id"], 0) + 1
                    if k == "Assign":
                        self.src.setdefault(l["id"], []).append(((), n["r"], "assign"))
                    else:
                        self.src.setdefault(l["id"], []).append(((), n, "assignop"))
            elif k == "Borrow" and n.get("mut"):
                l = F.strip(n["e"])
                if l.get("k") in ("Var", "Upvar"):
                    self.assigned[l["id"]] = self.assigned.get(l["id"], 0) + 0  # &mut tracked separately
                    self.mut_borrowed = getattr(self, "mut_borrowed", set())
                    self.mut_borrowed.add(l["id"])

    def sources(self, var_id):
        return self.src.get(var_id, [])

    def single(self, var_id):
        s = self.sources(var_id)
        return s[0] if len(s) == 1 else None

    def is_reassigned(self, var_id):
        return self.assigned.get(var_id, 0) > 0


def same_place(a, b):
    """syntactic equality of two place/value expressions modulo refs/derefs/coercions"""
    a, b = F.strip(a), F.strip(b)
    if {a.get("k"), b.get("k")} == {"Var", "Upvar"}:
        # a closure's capture of the enclosing function's variable (closures share the variable ids of their function)
        return a["id"] == b["id"] and a.get("name") == b.get("name")
    if a.get("k") != b.get("k"):
        return False
    k = a["k"]
    if k in ("Var", "Upvar"):
        return a["id"] == b["id"]
    if k == "Field":
        return a["name"] == b["name"] and same_place(a["e"], b["e"])
    if k == "Lit":
        return a["lit"] == b["lit"]
    if k == "Const":
        return a["path"] == b["path"]
    if k == "Call":
        if a.get("fn", {}).get("path") != b.get("fn", {}).get("path") or len(a["args"]) != len(b["args"]):
            return False
        if a.get("fn", {}).get("targs") != b.get("fn", {}).get("targs"):
            return False
        return all(same_place(x, y) for x, y in zip(a["args"], b["args"]))
    if k == "Cast":
        return a["ty"] == b["ty"] and same_place(a["e"], b["e"])
    if k == "Binary":
        return a["op"] == b["op"] and same_place(a["l"], b["l"]) and same_place(a["r"], b["r"])
    if k == "Index":
        return same_place(a["e"], b["e"]) and same_place(a["index"], b["index"])
    return False


def diverges(n):
    """expression never completes normally (return/continue/break/panic) - syntactic"""
    n = F.strip(n)
    k = n.get("k")
    if k in ("Return", "Continue", "Break"):
        return True
    if k == "Block":
        for s in n["stmts"]:
            if s["k"] == "Expr" and diverges(s["e"]):
                return True
        return n.get("tail") is not None and diverges(n["tail"])
    if k == "Call" and "fn" in n and n["fn"]["path"].startswith("core::panicking::"):
        return True
    if k == "If":
        return n.get("else") is not None and diverges(n["then"]) and diverges(n["else"])
    if n.get("ty") == "!":
        return True
    return False


def split_cond(c, pol, out):
    """flatten a boolean condition known to have polarity `pol` into atomic facts"""
    c = F.strip(c)
    k = c.get("k")
    if k == "Logical":
        if c["op"] == "And" and pol:
            split_cond(c["l"], True, out); split_cond(c["r"], True, out); return
        if c["op"] == "Or" and not pol:
            split_cond(c["l"], False, out); split_cond(c["r"], False, out); return
    if k == "Unary" and c["op"] == "Not":
        split_cond(c["e"], not pol, out); return
    out.append((c, pol))


def dominating_facts(site_node, parents):
    """Facts (expr, polarity) that hold whenever control reaches site_node, derived from:
    enclosing if/else branches, `a && b` / `a || b` operand position, and earlier statements of
    enclosing blocks of the form `if C { <diverges> }` (=> not C) or let-else."""
    facts = []
    chain = list(parents) + [site_node]
    for i, p in enumerate(chain[:-1]):
        child = chain[i + 1]
        k = p.get("k")
        if k == "If":
            if child is p["then"]:
                split_cond(p["cond"], True, facts)
            elif p.get("else") is not None and child is p["else"]:
                split_cond(p["cond"], False, facts)
        elif k == "Logical":
            if child is p["r"]:
                split_cond(p["l"], p["op"] == "And", facts)
        elif k == "Block":
            for s in p["stmts"]:
                holder = s.get("e") if s["k"] == "Expr" else None
                inits = [s.get("init"), s.get("else")] if s["k"] == "Let" else []
                if holder is child or child in inits:
                    break
                if s["k"] == "Expr":
                    e = F.strip(s["e"])
                    if e.get("k") == "If" and e.get("else") is None and diverges(e["then"]):
                        split_cond(e["cond"], False, facts)
                    elif e.get("k") == "If" and e.get("else") is not None:
                        if diverges(e["then"]) and not diverges(e["else"]):
                            split_cond(e["cond"], False, facts)
                        elif diverges(e["else"]) and not diverges(e["then"]):
                            split_cond(e["cond"], True, facts)
        elif k == "Match":
            # guard facts for the arm body
            for a in p["arms"]:
                if child is a["body"] and a.get("guard"):
                    split_cond(a["guard"], True, facts)
    return facts


def prev_stmt(site_node, parents):
    """the statement immediately before the statement containing site_node in the innermost block"""
    chain = list(parents) + [site_node]
    for i in range(len(chain) - 2, -1, -1):
        p = chain[i]
        if p.get("k") == "Block":
            child = chain[i + 1]
            prev = None
            for s in p["stmts"]:
                holder = s.get("e") if s["k"] == "Expr" else s.get("init")
                if holder is child:
                    return prev
                prev = s
            if p.get("tail") is child:
                return prev
            return None
    return None
