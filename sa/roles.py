"""Role resolution for private helpers: find a function by what it is (signature + one structural trait) when
its name changed. Used as a fallback by anchors.func / parser_rules.rp so that renaming or moving a private
helper does not lose the anchor."""
import re
import facts as F


def norm(t):
    t = re.sub(r"'[a-z_]+ ", "", t)
    t = re.sub(r"<'[a-z_]+(, '[a-z_]+)*>", "", t)
    t = re.sub(r"'[a-z_]+, ", "", t)
    return t


def sig(b):
    return [norm(x) for x in b.get("inputs", [])], norm(b.get("output", ""))


def constructs(b, adt_suffix, variant=None):
    for n in F.walk(b["body"]):
        if n.get("k") == "Adt" and n["adt"].endswith(adt_suffix) and (variant is None or n["variant"] == variant):
            return True
    return False


def calls_local(fx, b, pred):
    for n in F.walk(b["body"]):
        if n.get("k") in ("Call", "Zst") and "fn" in n:
            t = fx.by_dp.get(n["fn"].get("dp"))
            if t and t in fx.bodies and pred(fx.bodies[t]):
                return True
    return False


def templates(b):
    out = []
    for n in F.walk(b["body"]):
        if n.get("k") == "Lit" and n["lit"]["t"] == "bytes":
            out.append(bytes(n["lit"]["v"]))
    return out


REC = "std::result::Result<(mapping::ProguardRecord, &[u8]), mapping::ParseError>"
SCAN = "std::result::Result<(&str, &[u8]), mapping::ParseError>"


def _is_scan(b):
    return sig(b) == (["&[u8]", "P"], SCAN)


ROLES = {
    ("mapping", "is_newline"): lambda b, fx: sig(b) == (["&u8"], "bool"),
    ("mapping", "parse_prefix"): lambda b, fx: sig(b) == (["&[u8]", "&[u8]"], "std::result::Result<&[u8], mapping::ParseError>"),
    ("mapping", "parse_usize"): lambda b, fx: sig(b) == (["&[u8]"], "std::result::Result<(usize, &[u8]), mapping::ParseError>"),
    ("mapping", "parse_until"): lambda b, fx: _is_scan(b) and not calls_local(fx, b, _is_scan),
    ("mapping", "parse_until_no_newline"): lambda b, fx: _is_scan(b) and calls_local(fx, b, _is_scan),
    ("mapping", "consume_leading_newlines"): lambda b, fx: sig(b) == (["&[u8]"], "&[u8]"),
    ("mapping", "split_line"): lambda b, fx: sig(b) == (["&[u8]"], "(&[u8], &[u8])"),
    ("mapping", "parse_proguard_record"): lambda b, fx: sig(b) == (["&[u8]"], "(std::result::Result<mapping::ProguardRecord, mapping::ParseError>, &[u8])"),
    ("mapping", "parse_proguard_header"): lambda b, fx: sig(b) == (["&[u8]"], REC) and constructs(b, "mapping::ProguardRecord", "Header"),
    ("mapping", "parse_proguard_class"): lambda b, fx: sig(b) == (["&[u8]"], REC) and constructs(b, "mapping::ProguardRecord", "Class"),
    ("mapping", "parse_proguard_field_or_method"): lambda b, fx: sig(b) == (["&[u8]"], REC) and constructs(b, "mapping::ProguardRecord", "Method"),
    ("stacktrace", "parse_frame"): lambda b, fx: sig(b) == (["&str"], "std::option::Option<stacktrace::StackFrame>"),
    ("stacktrace", "parse_throwable"): lambda b, fx: sig(b) == (["&str"], "std::option::Option<stacktrace::Throwable>"),
    ("mapper", "format_frames"): lambda b, fx: sig(b)[1] == "std::result::Result<(), std::fmt::Error>" and len(sig(b)[0]) == 3 and "Iterator" in sig(b)[0][2],
    ("mapper", "format_cause"): lambda b, fx: sig(b)[1] == "std::result::Result<(), std::fmt::Error>" and len(sig(b)[0]) == 3 and "Throwable" in sig(b)[0][2]
    and any(b"Caused by" in t for t in templates(b)),
    ("mapper", "format_throwable"): lambda b, fx: sig(b)[1] == "std::result::Result<(), std::fmt::Error>" and len(sig(b)[0]) == 3 and "Throwable" in sig(b)[0][2]
    and not any(b"Caused by" in t for t in templates(b)),
    ("java", "java_base_types"): lambda b, fx: sig(b) == (["char"], "std::option::Option<&'static str>") or sig(b) == (["char"], "std::option::Option<&str>"),
    ("java", "parse_obfuscated_bytecode_signature"): lambda b, fx: sig(b) == (["&str"], "std::option::Option<(std::vec::Vec<&str>, &str)>"),
    ("java", "byte_code_type_to_java_type"): lambda b, fx: sig(b) == (["&str", "&mapper::ProguardMapper"], "std::option::Option<std::string::String>"),
    ("java", "byte_code_type_to_java_type_cache"): lambda b, fx: sig(b) == (["&str", "&cache::raw::ProguardCache"], "std::option::Option<std::string::String>"),
    ("java", "deobfuscate_bytecode_signature"): lambda b, fx: sig(b) == (["&str", "&mapper::ProguardMapper"], "std::option::Option<(std::vec::Vec<std::string::String>, std::string::String)>"),
    ("java", "deobfuscate_bytecode_signature_cache"): lambda b, fx: sig(b) == (["&str", "&cache::raw::ProguardCache"], "std::option::Option<(std::vec::Vec<std::string::String>, std::string::String)>"),
}

_cache = {}


def resolve(fx, module, name):
    """[path] of the unique local free function in the role (module, name), or []"""
    key = (id(fx), module, name)
    if key in _cache:
        return _cache[key]
    pred = ROLES.get((module, name))
    out = []
    if pred is not None:
        for p, b in fx.bodies.items():
            if b["krate"] == "proguard" and b["kind"] == "Fn":
                try:
                    if pred(b, fx):
                        out.append(p)
                except Exception:
                    pass
    if len(out) != 1:
        out = []
    _cache[key] = out
    return out


# private methods of ProguardCache used as helpers by the query methods
def cache_helper(fx, name):
    key = (id(fx), "cache-helper", name)
    if key in _cache:
        return _cache[key]
    out = []
    for p, b in fx.bodies.items():
        if name == "find_range_by_binary_search" and b["krate"] == "proguard" and b["kind"] == "Fn" and "cache::" in p:
            # (the equal-range search has no `self`: it may live as a free function of the cache module or of a private submodule)
            i, o = sig(b)
            if len(i) == 2 and i[0] == "&[cache::raw::Member]" and o == "std::option::Option<&[cache::raw::Member]>":
                out.append(p)
            continue
        if b["krate"] != "proguard" or b["kind"] != "AssocFn" or b.get("impl_trait") or "cache::raw::ProguardCache" not in (b.get("impl_self") or ""):
            continue
        i, o = sig(b)
        if name == "get_class" and len(i) == 2 and i[1] == "&str" and o == "std::option::Option<&cache::raw::Class>":
            out.append(p)
        elif name in ("get_class_members", "get_class_members_by_params") and len(i) == 2 and i[1] == "&cache::raw::Class" \
                and o == "std::option::Option<&[cache::raw::Member]>":
            uses_bp = any(n.get("k") == "Field" and n["name"] == "members_by_params" for n in F.walk(b["body"]))
            if uses_bp == (name == "get_class_members_by_params"):
                out.append(p)
        elif name == "find_range_by_binary_search" and len(i) == 2 and i[0] == "&[cache::raw::Member]" and o == "std::option::Option<&[cache::raw::Member]>":
            out.append(p)
    if len(out) != 1:
        out = []
    _cache[key] = out
    return out
