"""C19 - file-level metadata answers equal a fold over the complete record stream (FC + SEQ)."""
import facts as F
import sym as S
import fc
import refs as R
import anchors as A
import rules_C01 as R1
from sym import some, NONE, lit_int, mk_field, mk_payload, TRUE, FALSE

LEVEL = "other"
TECHNIQUE = R1.TECHNIQUE
EXPLANATION = ("Decided clauses: has_line_info iterates self.iter() un-adapted, its only exits are `true` on an Ok(Method) record with a line "
               "mapping, and `false` after the loop (no early negative exit, no scan limit - exactly the two historical defects); summary "
               "iterates self.iter() un-adapted and per record performs exactly: class_count += 1 on Ok(Class), method_count += 1 on "
               "Ok(Method), plain assignment (last wins) of compiler / compiler_version / min_api (parsed, None on failure) on the "
               "corresponding Ok(Header), nothing otherwise, and the result struct is wired field-to-field from these accumulators; is_valid "
               "iterates self.iter().take(50) (one adaptor, literal 50), sets a flag on Ok(Class) and returns true on Ok(Field|Method) "
               "after the flag, false after the loop. That the record stream itself is total and line-local is C06.")
EXPLANATION = EXPLANATION + ' Accepted spellings of the same folds (each with its own reference): quantifier / find_map / try_fold / fold forms, a counted window, `take(50).flatten().skip_while(..).any(..)`, and the summary as five independent stream queries (count of a filter, last of a filter_map). The mapping is its bytes and nothing else (no memo that a section could inherit).'
RULE_TEXT = R1.RULE_TEXT
TRUSTED = R1.TRUSTED + ["std::iter::Take yields the first n items"]

REC = R.ELEM
OKR = mk_payload(REC, "Ok", "0")


def rw(t):
    return R.rw_iter(t)


def loop_of(fx, rep, rule, key, path):
    rep.fn(path)
    b = fx.bodies[path]
    nxt = set(A.method(fx, "mapping::ProguardRecordIter", "next", trait="Iterator"))
    sy = S.Sym(fx, inline_mut=True, opaque=lambda q: q in nxt)      # (private `&mut self` helpers of the fold are inlined; the record iterator is not)
    try:
        res = sy.eval_body(b)
    except S.Undecidable as e:
        rep.undecidable(rule, key + "/shape", loc=F.loc(e.node) if isinstance(e.node, dict) else "", construct=e.msg)
        return None
    if len(sy.loop_order) != 1:
        rep.undecidable(rule, key + "/shape", loc=F.short_file(b["sp"]), construct="%d loops (expected one scan loop)" % len(sy.loop_order))
        return None
    return sy, res, sy.loops[sy.loop_order[0]], b


def driver(L):
    if L.get("driver_override") is not None:
        return L["driver_override"]
    for n in F.walk(L["node"]["body"]):
        if F.is_call(n, "std::iter::Iterator::next"):
            v = F.strip(n["args"][0])
            return L["pre"].env.get(v["id"]) if v.get("k") in ("Var", "Upvar") else None
    return None


_FX = [None]


def counted_window(L):
    """`for _ in 0..N { let Some(item) = items.next() else { return false }; .. }`: at most N items of `items`, one per
    iteration - the loop `for item in items.take(N)`, spelled with a counter. Returns a loop record in that second form (driver
    `take(<items before the loop>, N)`; an iteration is taken iff the counter and the stream both have a next element), or None.
    The path "counter has a next, stream has none" must answer false and do nothing else - it becomes the end of the loop."""
    nexts = []
    for n in F.walk(L["node"]["body"]):
        if F.is_call(n, "std::iter::Iterator::next"):
            v = F.strip(n["args"][0])
            if v.get("k") in ("Var", "Upvar"):
                nexts.append(v)
    if len(nexts) != 2:
        return None
    rv, iv = nexts
    rng = L["pre"].env.get(rv["id"])
    items = L["pre"].env.get(iv["id"])
    if not (isinstance(rng, tuple) and rng[0] == "adt" and rng[1] == "Range" and dict(rng[3]).get("start") == lit_int(0)
            and dict(rng[3]).get("end", ("?",))[0] == "lit") or items is None:
        return None
    n_items = dict(rng[3])["end"]
    # the counter value itself must not be used
    base = len(L["entry"].conds)

    def of(place_name, t):
        return t[0] in ("mcall", "call") and R.is_next(t[1]) and t[2] and t[2][0][0] == "place" and t[2][0][1] == place_name
    out = []
    fake_in = ("mcall", "std::iter::Iterator::next", (("place", iv["name"], ()),), 0)
    for st, (k, v) in L["paths"]:
        rn = inn = None
        rest = []
        in_term = None
        for a, pol in st.conds[base:]:
            if a[0] == "is" and a[2] == "Some" and of(rv["name"], a[1]):
                rn = pol
                rn_term = a[1]
                continue
            if a[0] == "is" and a[2] == "Some" and of(iv["name"], a[1]):
                inn = pol
                in_term = a[1]
            rest.append((a, pol))
        st2 = st.copy()
        effs = tuple(e for e in st.effects if not (e[0] == "call" and of(rv["name"], e)))
        if rn is False:
            st2.conds = st.conds[:base] + ((("is", fake_in, "Some"), False),)
            st2.effects = effs
            out.append((st2, (k, v)))
        elif rn is True and inn is False:
            other = [e for e in effs[len(L["entry"].effects):] if e[0] in ("call", "assign", "opassign") and not of(iv["name"], e)]
            if not (k == S.RET and v == FALSE and not other):
                return None
            st2.conds = st.conds[:base] + tuple(rest)
            st2.effects = effs
            out.append((st2, (S.BRK, None)))
        elif rn is True and inn is True:
            # the payload of the counter must not appear anywhere
            if any(rn_term in (x,) for x in ()):
                return None
            st2.conds = st.conds[:base] + tuple(rest)
            st2.effects = effs
            out.append((st2, (k, v)))
        else:
            return None
    L2 = dict(L)
    L2["paths"] = out
    L2["driver_override"] = ("call", "std::iter::Iterator::take", (items, n_items))
    return L2


def iter_term(slf):
    fx_ = _FX[0]
    return ("adt", "ProguardRecordIter", "ProguardRecordIter", (((A.record_iter_field(fx_) if fx_ else "slice"), mk_field(slf, A.mapping_field(fx_) if fx_ else "source")),))


def pname(pl):
    """role name of a place: `x` or `x.field` (an accumulator struct's fields are separate roles)"""
    return pl[1] if not pl[2] else pl[1] + "." + ".".join(pl[2])


def norm_eff(st):
    out = []
    for e in st.effects:
        e = fc.rewrite(e, rw)
        if e[0] == "call" and R.is_next(e[1]):
            continue
        if e[0] == "opassign":
            out.append(("inc", pname(e[2])) if (e[1] == "Add" and e[3] == lit_int(1) and e[2][0] == "place") else ("other", e))
        elif e[0] == "assign" and e[1][0] == "place":
            import builders as B_
            t = e[2]
            if t[0] == "lin" and t[2] == 1 and len(t[1]) == 1 and t[1][0][1] == 1 and B_.is_old_value(t[1][0][0], e[1]):
                out.append(("inc", pname(e[1])))
            else:
                out.append(("assign", pname(e[1]), e[2]))
        else:
            out.append(("other", e))
    return tuple(out)


def check_scan(rep, rule, key, L, b, ref, what, slf_name="self", want_driver=None, end_ret=None):
    base = len(L["entry"].conds)

    def outcome(st, out):
        k, v = out
        effs = norm_eff(st)
        if k == S.BRK:
            return ("end", effs)
        if k == S.RET:
            # `None => return false` inside the loop is leaving the loop and then answering false (`end_ret`: what the function
            # answers after the stream is exhausted)
            if end_ret is not None and v == end_ret and fc.assignment(tuple((fc.rewrite(a_, rw), p_) for a_, p_ in st.conds[base:])).get(("is", R.NEXT, "Some")) is False:
                return ("end", effs)
            return ("ret", fc.rewrite(v, rw), effs)
        return ("cont", effs)
    bad, n = fc.compare_paths(L["paths"], ref, outcome, rw=rw, base=base)
    if not bad:
        rep.ok(rule, key + "/per-record", loc=F.loc(L["node"]), found="%d canonical paths equal the reference: %s" % (len(L["paths"]), what))
    else:
        for conds, io, ro, comp in bad[:3]:
            rep.violation(rule, key + "/per-record/" + R1.short_hash(S.cstr(conds) + repr(io)), loc=F.loc(L["node"]),
                          found="when %s: %s" % (S.cstr(tuple((fc.rewrite(a, rw), p) for a, p in conds)), S.tstr(io)[:300]),
                          expected=S.tstr(ro)[:300])
    drv = driver(L)
    rep.check(rule, key + "/driver", drv == want_driver, loc=F.loc(L["node"]), found="loop iterates %s" % (S.tstr(drv) if drv else "?"),
              expected="loop iterates %s" % S.tstr(want_driver))


class _P:
    def __init__(self, conds, effects=()):
        self.conds = tuple(conds)
        self.effects = tuple(effects)


def quantifier_form(fx, rep, p, slf):
    """has_line_info written as `self.iter().any(|r| <predicate>)`: the same fold, decided on the quantifier term. Returns True
    when the body has this form (and records the rule instances); False to fall back to the scan-loop rule."""
    b = fx.bodies[p]
    sy = S.Sym(fx)
    try:
        res = sy.eval_body(b)
    except S.Undecidable:
        return False
    if sy.loop_order or len(res) != 1 or res[0][0].conds or res[0][0].effects:
        return False
    v = res[0][1][1]
    if v[0] == "is" and v[2] == "Some" and v[1][0] in ("call", "mcall") and v[1][1].endswith("Iterator::next") and len(v[1][2]) == 1 \
            and v[1][2][0][0] == "call" and v[1][2][0][1].endswith("Iterator::filter_map") and len(v[1][2][0][2]) == 2:
        # `iter().filter_map(f).next()` is `iter().find_map(f)`
        v = ("is", ("call", "std::iter::Iterator::find_map", v[1][2][0][2]), "Some")
    if v[0] == "is" and v[2] == "Some" and v[1][0] in ("call", "mcall") and v[1][1].endswith("Iterator::find_map") and len(v[1][2]) == 2 \
            and v[1][2][1][0] in ("closure", "fnref"):
        # `iter().find_map(f).is_some()` is `iter().any(|x| f(x).is_some())`
        try:
            cps = sy.apply(v[1][2][1], [("bound", 0)], S.St(), {"sp": "?"})
        except S.Undecidable:
            return False
        cases = []
        for st_, (k_, v_) in cps:
            if v_[0] == "adt" and v_[1] == "Option":
                cases.append((tuple(st_.conds), tuple(st_.effects), TRUE if v_[2] == "Some" else FALSE))
            else:
                at_ = ("is", v_, "Some")
                cases.append((tuple(st_.conds) + ((at_, True),), tuple(st_.effects), TRUE))
                cases.append((tuple(st_.conds) + ((at_, False),), tuple(st_.effects), FALSE))
        v = ("quant", "any", v[1][2][0], ("cases", tuple(cases)))
    if not (v[0] == "quant" and v[1] == "any"):
        return False
    rep.fn(p)
    # `.flatten()` over the stream of Results yields exactly the Ok payloads: the element is the record itself
    flat = v[2] == ("call", "std::iter::Iterator::flatten", (iter_term(slf),))
    # `.filter_map(Result::ok)` is the same sequence of Ok payloads
    def is_result_ok(f_):
        """`Result::ok` itself, or a closure that is `|item| item.ok()`"""
        if f_[0] == "fnref" and f_[1].startswith("std::result::Result") and f_[1].endswith("::ok"):
            return True
        if f_[0] != "closure":
            return False
        try:
            import models as M_
            t_ = M_.closure_term(sy, f_, 1, S.St(), {"sp": "?"})
        except S.Undecidable:
            return False
        x_ = ("bound", 0)
        if t_[0] == "call" and t_[1].startswith("std::result::Result") and t_[1].endswith("::ok") and t_[2] == (x_,):
            return True
        if t_[0] == "cases":
            want_ = {(((("is", x_, "Ok"), True),), (), some(mk_payload(x_, "Ok", "0"))), (((("is", x_, "Ok"), False),), (), NONE)}
            return set(t_[1]) == want_
        return False
    if v[2][0] == "call" and v[2][1].endswith("Iterator::filter_map") and len(v[2][2]) == 2 and v[2][2][0] == iter_term(slf) \
            and is_result_ok(v[2][2][1]):
        flat = True
        v = (v[0], v[1], ("call", "std::iter::Iterator::flatten", (iter_term(slf),)), v[3])
    rep.check("C19.1", "C19.1/has_line_info/driver", v[2] == iter_term(slf) or flat, loc=F.short_file(b["sp"]), found="any() over %s" % S.tstr(v[2])[:200],
              expected="any() over %s (the complete record stream)" % S.tstr(iter_term(slf)))
    pred = v[3]
    x = ("bound", 0)
    okx = x if flat else mk_payload(x, "Ok", "0")
    cases = pred[1] if pred[0] == "cases" else (((), (), pred),)
    # a case whose value is itself a test (`line_mapping.is_some()` as the closure's tail) is the two cases of that test
    cases2 = []
    for c in cases:
        if c[2] not in (TRUE, FALSE) and c[2][0] in ("is", "not", "eq", "lt", "le", "empty", "bool"):
            cases2.append((tuple(c[0]) + ((c[2], True),), c[1], TRUE))
            cases2.append((tuple(c[0]) + ((c[2], False),), c[1], FALSE))
        else:
            cases2.append(c)
    cases = tuple(cases2)
    paths = [(_P(c[0], c[1]), (S.VAL, c[2])) for c in cases]

    def ref(o):
        if (flat or o(("is", x, "Ok"))) and o(("is", okx, "Method")) and o(("is", mk_payload(okx, "Method", "line_mapping"), "Some")):
            return TRUE
        return FALSE
    bad, n = fc.compare_paths(paths, ref, lambda st, out: out[1])
    pure = not any(c[1] for c in cases)
    if not bad and pure:
        rep.ok("C19.1", "C19.1/has_line_info/per-record", loc=F.short_file(b["sp"]),
               found="any(|r| ..): %d predicate cases equal the reference: true iff the record is an Ok(Method) with a line mapping" % len(cases))
    else:
        for conds, io, ro, comp in bad[:3]:
            rep.violation("C19.1", "C19.1/has_line_info/per-record/" + R1.short_hash(S.cstr(conds) + repr(io)), loc=F.short_file(b["sp"]),
                          found="when %s: predicate is %s" % (S.cstr(conds), S.tstr(io)), expected=S.tstr(ro))
        if not pure:
            rep.violation("C19.1", "C19.1/has_line_info/per-record/effects", loc=F.short_file(b["sp"]), found="predicate has side effects", expected="pure predicate")
    rep.ok("C19.1", "C19.1/has_line_info/after-loop", loc=F.short_file(b["sp"]), found="Iterator::any: false only after the complete stream was scanned (std semantics)",
           nontrivial=False)
    return True


def pred_equals(cases_term, ref):
    x = ("bound", 0)
    cases = cases_term[1] if cases_term[0] == "cases" else (((), (), cases_term),)
    if any(c[1] for c in cases):
        return False
    paths = [(_P(c[0], c[1]), (S.VAL, c[2])) for c in cases]
    bad, n = fc.compare_paths(paths, ref, lambda st, out: out[1])
    return not bad


def chained_any_form(fx, rep, p, slf):
    """is_valid written as `let mut it = self.iter().take(50); it.any(is Ok(Class)) && it.any(is Ok(Field|Method))`: `any`
    stops right after its first match, so the second `any` scans exactly the items after the first class record, inside
    the same 50-item window - the same answer as the flag loop. Returns True when the body has this form."""
    b = fx.bodies[p]
    sy = S.Sym(fx)
    try:
        res = sy.eval_body(b)
    except S.Undecidable:
        return False
    if sy.loop_order or not res:
        return False
    quants = []

    def g(t):
        if t[0] == "quant":
            if t not in quants:
                quants.append(t)
        return None
    for st, o in res:
        for a_, p_ in st.conds:
            fc.rewrite(a_, g)
        fc.rewrite(o[1], g)
    if len(quants) != 2 or any(st.effects for st, o in res):
        return False
    window = ("call", "std::iter::Iterator::take", (iter_term(slf), lit_int(50)))
    q1 = [q for q in quants if q[2] == window]
    q2 = [q for q in quants if q[2] == ("exhausted", window)]
    if len(q1) != 1 or len(q2) != 1:
        return False

    def as_any(q):
        """(predicate, polarity): `any(P)` is kept either as such or as its dual `!all(!P)`"""
        if q[1] == "any":
            return q[3], True
        if q[1] == "all" and q[3][0] == "not":
            return q[3][1], False
        return None, None
    (P1, pol1), (P2, pol2) = as_any(q1[0]), as_any(q2[0])
    if P1 is None or P2 is None:
        return False
    rep.fn(p)
    x = ("bound", 0)
    okx = mk_payload(x, "Ok", "0")
    p1 = pred_equals(P1, lambda o: TRUE if (o(("is", x, "Ok")) and o(("is", okx, "Class"))) else FALSE)
    p2 = pred_equals(P2, lambda o: TRUE if (o(("is", x, "Ok")) and (o(("is", okx, "Field")) or o(("is", okx, "Method")))) else FALSE)
    A1, A2 = ("bool", q1[0]), ("bool", q2[0])

    def ref(o):
        return TRUE if ((o(A1) == pol1) and (o(A2) == pol2)) else FALSE
    bad, n = fc.compare_paths(res, ref, lambda st, out: out[1])
    rep.check("C19.3", "C19.3/is_valid/per-record", p1 and p2 and not bad, loc=F.short_file(b["sp"]),
              found="any(Ok(Class)) then any(Ok(Field|Method)) on the same iterator: first predicate %s, second predicate %s, conjunction %s" % (p1, p2, not bad),
              expected="a class record followed by a field or method record")
    rep.ok("C19.3", "C19.3/is_valid/driver", loc=F.short_file(b["sp"]), found="both scans share %s" % S.tstr(window), nontrivial=False)
    rep.ok("C19.3", "C19.3/is_valid/after-loop", loc=F.short_file(b["sp"]), found="false when either scan exhausts the 50-item window", nontrivial=False)
    rep.ok("C19.3", "C19.3/is_valid/flag-init", loc=F.short_file(b["sp"]), found="no flag: the first any() is the flag", nontrivial=False)
    return True


def skip_while_any_form(fx, rep, p, slf):
    """is_valid as `self.iter().take(50).skip_while(|r| <not Ok(Class)>).any(|r| <Ok(Field|Method)>)`: skip_while drops the items
    before the first class record (and keeps everything from it on, inside the 50-item window); a class record is not a member, so
    `any` over the rest is "a member after a class". Returns True when the body has this form."""
    b = fx.bodies[p]
    nxt = set(A.method(fx, "mapping::ProguardRecordIter", "next", trait="Iterator"))
    sy = S.Sym(fx, inline_mut=True, opaque=lambda q: q in nxt)
    try:
        res = sy.eval_body(b)
    except S.Undecidable:
        return False
    if sy.loop_order or len(res) != 1 or res[0][0].conds or res[0][0].effects:
        return False
    v = res[0][1][1]
    window = ("call", "std::iter::Iterator::take", (iter_term(slf), lit_int(50)))
    if not (v[0] == "quant" and v[1] == "any" and v[2][0] == "call" and v[2][1] == "std::iter::Iterator::skip_while" and len(v[2][2]) == 2
            and v[2][2][0] in (window, ("call", "std::iter::Iterator::flatten", (window,))) and v[2][2][1][0] in ("closure", "fnref")):
        return False
    # `take(50).flatten()`: the window still counts every line; what reaches the two predicates is the record of each Ok line (an Err
    # line yields nothing, and it is neither a class nor a member). `flatten().take(50)` would count differently and is not this form.
    flat = v[2][2][0] != window
    rep.fn(p)
    import models as M_
    x = ("bound", 0)
    okx = x if flat else mk_payload(x, "Ok", "0")
    is_ok = (lambda o: True) if flat else (lambda o: o(("is", x, "Ok")))
    skip = M_.closure_term(sy, v[2][2][1], 1, S.St(), {"sp": "?"})
    p1 = pred_equals(skip, lambda o: FALSE if (is_ok(o) and o(("is", okx, "Class"))) else TRUE)
    p2 = pred_equals(v[3], lambda o: TRUE if (is_ok(o) and (o(("is", okx, "Field")) or o(("is", okx, "Method")))) else FALSE)
    rep.check("C19.3", "C19.3/is_valid/per-record", p1 and p2, loc=F.short_file(b["sp"]),
              found="skip_while(not Ok(Class)): %s; any(Ok(Field|Method)): %s" % (p1, p2),
              expected="items before the first class record skipped, then a field or method record (a class record is neither)")
    rep.ok("C19.3", "C19.3/is_valid/driver", loc=F.short_file(b["sp"]), found="one pipeline over %s" % S.tstr(window), nontrivial=False)
    rep.ok("C19.3", "C19.3/is_valid/after-loop", loc=F.short_file(b["sp"]), found="false when the 50-item window is exhausted", nontrivial=False)
    rep.ok("C19.3", "C19.3/is_valid/flag-init", loc=F.short_file(b["sp"]), found="no flag: skip_while is the flag", nontrivial=False)
    return True


def summary_ref(roles, flat):
    OKS = REC if flat else mk_payload(REC, "Ok", "0")
    hk = mk_payload(OKS, "Header", "key")
    hv = mk_payload(OKS, "Header", "value")

    def ref(o):
        if not o(("is", R.NEXT, "Some")):
            return ("end", ())
        if not flat and not o(("is", REC, "Ok")):
            return ("cont", ())
        if o(("is", OKS, "Header")):
            if o(("eq", hk, ("lit", "str", "compiler"))):
                return ("cont", (("assign", roles["compiler"], hv),))
            if o(("eq", hk, ("lit", "str", "compiler_version"))):
                return ("cont", (("assign", roles["compiler_version"], hv),))
            if o(("eq", hk, ("lit", "str", "min_api"))):
                if o(("is", hv, "Some")):
                    pr = ("call", "core::str::parse::<u32>", (mk_payload(hv, "Some", "0"),))
                    v = some(mk_payload(pr, "Ok", "0")) if o(("is", pr, "Ok")) else NONE
                else:
                    v = NONE
                return ("cont", (("assign", roles["min_api"], v),))
            return ("cont", ())
        if o(("is", OKS, "Class")):
            return ("cont", (("inc", roles["class_count"]),))
        if o(("is", OKS, "Method")):
            return ("cont", (("inc", roles["method_count"]),))
        return ("cont", ())
    return ref


SUMMARY_FIELDS = ["compiler", "compiler_version", "min_api", "class_count", "method_count"]


def summary_query_form(fx, rep, p):
    """The summary as five independent queries over the record stream instead of one fold:
         class_count / method_count = iter().flatten().filter(is Class / is Method).count()
         compiler / compiler_version = iter().flatten().filter_map(|r| Header with that key => Some(value)).last().flatten()
         min_api = <the same query for "min_api">.and_then(|v| v.parse().ok())
       The fold assigns at every matching header and the last assignment stands; `last()` of the matching headers' values is that
       value (None when there is none), and only the value that stands is parsed. Returns True if the body has this form."""
    b = fx.bodies[p]
    nxt = set(A.method(fx, "mapping::ProguardRecordIter", "next", trait="Iterator"))
    sy = S.Sym(fx, inline_mut=True, opaque=lambda q: q in nxt)
    try:
        res = sy.eval_body(b)
    except S.Undecidable:
        return False
    if sy.loop_order or not res or any(st.effects for st, o in res):
        return False
    if not all(o[0] == S.VAL and o[1][0] == "adt" and o[1][1] == "MappingSummary" for st, o in res):
        return False
    mparam = [prm["pat"]["name"] for prm in b["params"] if prm.get("pat")][0]
    drv = ("call", "std::iter::Iterator::flatten", (iter_term(("in", mparam)),))
    first = dict(res[0][1][1][3])
    cc, mc = first.get("class_count"), first.get("method_count")

    def is_count(t):
        return t is not None and t[0] == "call" and t[1].endswith("Iterator::count") and len(t[2]) == 1 and t[2][0][0] == "call" \
            and t[2][0][1].endswith("Iterator::filter") and len(t[2][0][2]) == 2 and t[2][0][2][0] == drv and t[2][0][2][1][0] in ("closure", "fnref")

    def last_query(t):
        """(closure) of `flatten(last(filter_map(drv, closure)))`, else None"""
        if t is not None and t[0] == "call" and t[1] == "std::option::Option::flatten" and len(t[2]) == 1 and t[2][0][0] == "call" \
                and t[2][0][1].endswith("Iterator::last") and len(t[2][0][2]) == 1:
            fm = t[2][0][2][0]
            if fm[0] == "call" and fm[1].endswith("Iterator::filter_map") and len(fm[2]) == 2 and fm[2][0] == drv and fm[2][1][0] == "closure":
                return fm[2][1]
        return None
    if not (is_count(cc) and is_count(mc) and last_query(first.get("compiler")) and last_query(first.get("compiler_version"))):
        return False
    rep.fn(p)
    import models as M_
    x = ("bound", 0)
    loc = F.short_file(b["sp"])
    ok = True
    for fld, var in (("class_count", "Class"), ("method_count", "Method")):
        same = all(dict(o[1][3]).get(fld) == first[fld] for st, o in res)
        try:
            pt = M_.closure_term(sy, first[fld][2][0][2][1], 1, S.St(), {"sp": "?"})
            good = same and pred_equals(pt, lambda o, var=var: TRUE if o(("is", x, var)) else FALSE)
        except S.Undecidable:
            good = False
        ok = ok and good
        rep.check("C19.2", "C19.2/summary/query/%s" % fld, good, loc=loc, found=S.tstr(first[fld])[:200],
                  expected="number of %s records among all Ok records of the whole stream" % var)
    hk, hv = mk_payload(x, "Header", "key"), mk_payload(x, "Header", "value")

    def header_query(t, key):
        clo = last_query(t)
        if clo is None:
            return False
        try:
            pt = M_.closure_term(sy, clo, 1, S.St(), {"sp": "?"})
        except S.Undecidable:
            return False
        return pred_equals(pt, lambda o: some(hv) if (o(("is", x, "Header")) and o(("eq", hk, ("lit", "str", key)))) else NONE)
    for fld in ("compiler", "compiler_version"):
        same = all(dict(o[1][3]).get(fld) == first[fld] for st, o in res)
        good = same and header_query(first[fld], fld)
        ok = ok and good
        rep.check("C19.2", "C19.2/summary/query/%s" % fld, good, loc=loc, found=S.tstr(first[fld])[:200],
                  expected="value of the last `%s` header of the whole stream (None if there is none or it has no value)" % fld)
    # min_api: the standing value, parsed
    lq = None
    for st, o in res:
        for a_, p_ in st.conds:
            if a_[0] == "is" and a_[2] == "Some" and last_query(a_[1]) is not None:
                lq = a_[1]
    good = lq is not None and header_query(lq, "min_api")
    if good:
        pr = ("call", "core::str::parse::<u32>", (mk_payload(lq, "Some", "0"),))

        def ref(o):
            if o(("is", lq, "Some")) and o(("is", pr, "Ok")):
                return some(mk_payload(pr, "Ok", "0"))
            return NONE
        bad, n = fc.compare_paths(res, ref, lambda st, out: dict(out[1][3]).get("min_api"))
        good = not bad
    ok = ok and good
    rep.check("C19.2", "C19.2/summary/query/min_api", good, loc=loc, found=[S.tstr(dict(o[1][3]).get("min_api"))[:120] for st, o in res][:3],
              expected="the last `min_api` header's value parsed as u32 (None if absent, value-less or not a number)")
    rep.ok("C19.2", "C19.2/summary/driver", loc=loc, found="five queries, each over %s" % S.tstr(drv), nontrivial=False)
    rep.ok("C19.2", "C19.2/summary/initial-values", loc=loc, found="no accumulators: count() starts at 0, last() at None", nontrivial=False)
    return True


def summary_fold_form(fx, rep, p):
    """`mapping.iter().fold(<empty summary>, |acc, item| <acc with one record accounted for>)`: the closure applied to a symbolic
    accumulator gives, per path, the new summary; a field that is `acc.field` is untouched, `acc.field + 1` is an increment,
    anything else an assignment - the same per-record outcome the loop form has. Returns True if the form applies (decided here)."""
    b = fx.bodies[p]
    nxt = set(A.method(fx, "mapping::ProguardRecordIter", "next", trait="Iterator"))
    sy = S.Sym(fx, inline_mut=True, opaque=lambda q: q in nxt)
    try:
        res = sy.eval_body(b)
    except S.Undecidable:
        return False
    if sy.loop_order or len(res) != 1:
        return False
    v = res[0][1][1]
    if not (v[0] == "call" and v[1].endswith("Iterator::fold") and len(v[2]) == 3 and v[2][2][0] == "closure"):
        return False
    rep.fn(p)
    mparam = [prm["pat"]["name"] for prm in b["params"] if prm.get("pat")][0]
    want_drv = iter_term(("in", mparam))
    drv, init, clo = v[2]
    flat = drv == ("call", "std::iter::Iterator::flatten", (want_drv,))
    rep.check("C19.2", "C19.2/summary/driver", drv == want_drv or flat, loc=F.short_file(b["sp"]), found="fold over %s" % S.tstr(drv),
              expected="fold over %s" % S.tstr(want_drv))
    want_init = ("adt", "MappingSummary", "MappingSummary", (("compiler", NONE), ("compiler_version", NONE), ("min_api", NONE),
                                                              ("class_count", lit_int(0)), ("method_count", lit_int(0))))
    init_n = ("adt", "MappingSummary", "MappingSummary", tuple((fn, dict(init[3]).get(fn)) for fn in SUMMARY_FIELDS)) \
        if init[0] == "adt" and init[1] == "MappingSummary" else init
    rep.check("C19.2", "C19.2/summary/initial-values", init_n == want_init, loc=F.short_file(b["sp"]), found=S.tstr(init)[:200],
              expected="None / None / None / 0 / 0", nontrivial=False)
    acc = ("in", "ACC")
    nx = ("mcall", "std::iter::Iterator::next", (("place", "records", ()),), 900)
    some_st = S.St(conds=((("is", nx, "Some"), True),))
    try:
        cps = sy.apply(clo, [acc, mk_payload(nx, "Some", "0")], some_st, {"sp": "?"})
    except S.Undecidable as e:
        rep.undecidable("C19.2", "C19.2/summary/shape", loc=F.short_file(b["sp"]), construct="fold closure: %s" % e.msg)
        return True
    roles = {fn: fn for fn in SUMMARY_FIELDS}

    def outcome(st, out):
        val = fc.rewrite(out[1], rw)
        if not (val[0] == "adt" and val[1] == "MappingSummary") and val != acc:
            return ("other", val)
        d = dict(val[3]) if val != acc else {}
        effs = []
        for fn in SUMMARY_FIELDS:
            fv = d.get(fn, mk_field(acc, fn))
            if fv == mk_field(acc, fn):
                continue
            if fv[0] == "lin" and fv[2] == 1 and len(fv[1]) == 1 and fv[1][0] == (mk_field(acc, fn), 1):
                effs.append(("inc", fn))
            else:
                effs.append(("assign", fn, fv))
        others = [e for e in norm_eff(st)]
        return ("cont", tuple(effs) + tuple(others))
    paths = [(st2, o2) for st2, o2 in cps]
    bad, n = fc.compare_paths(paths, summary_ref(roles, flat), outcome, rw=rw, base=0)
    if not bad:
        rep.ok("C19.2", "C19.2/summary/per-record", loc=F.short_file(b["sp"]),
               found="%d canonical paths of the fold step equal the reference: counts incremented on Ok(Class)/Ok(Method); compiler, compiler_version, "
                     "min_api plainly replaced (last header wins); every other field carried over" % len(paths))
    else:
        for conds, io, ro, comp in bad[:3]:
            rep.violation("C19.2", "C19.2/summary/per-record/" + R1.short_hash(S.cstr(conds) + repr(io)), loc=F.short_file(b["sp"]),
                          found="when %s: %s" % (S.cstr(tuple((fc.rewrite(a, rw), p_) for a, p_ in conds)), S.tstr(io)[:300]), expected=S.tstr(ro)[:300])
    rep.ok("C19.2", "C19.2/summary/wiring", loc=F.short_file(b["sp"]), found="the fold's accumulator is the result (MappingSummary), field by field")
    return True


def is_valid_try_fold_form(fx, rep, p, slf):
    """`self.iter().take(50).try_fold(false, |seen, item| ..).is_break()`: Continue(x) carries the flag, Break ends the scan with
    `true`; exhausting the 50 items gives Continue -> `false`. Returns True if the form applies (decided here)."""
    b = fx.bodies[p]
    nxt = set(A.method(fx, "mapping::ProguardRecordIter", "next", trait="Iterator"))
    sy = S.Sym(fx, inline_mut=True, opaque=lambda q: q in nxt)
    try:
        res = sy.eval_body(b)
    except S.Undecidable:
        return False
    if sy.loop_order or len(res) != 1:
        return False
    v = res[0][1][1]
    if not (v[0] == "call" and v[1].endswith("ControlFlow::is_break") and len(v[2]) == 1):
        return False
    tf = v[2][0]
    if not (tf[0] == "call" and tf[1].endswith("Iterator::try_fold") and len(tf[2]) == 3 and tf[2][2][0] == "closure"):
        return False
    rep.fn(p)
    drv, init, clo = tf[2]
    want = ("call", "std::iter::Iterator::take", (iter_term(slf), lit_int(50)))
    rep.check("C19.3", "C19.3/is_valid/driver", drv == want, loc=F.short_file(b["sp"]), found="try_fold over %s" % S.tstr(drv), expected="try_fold over %s" % S.tstr(want))
    rep.check("C19.3", "C19.3/is_valid/flag-init", init == FALSE, loc=F.short_file(b["sp"]), found="flag initial value %s" % S.tstr(init), expected="false", nontrivial=False)
    seen_t = ("in", "SEEN")
    nx = ("mcall", "std::iter::Iterator::next", (("place", "records", ()),), 900)
    try:
        cps = sy.apply(clo, [seen_t, mk_payload(nx, "Some", "0")], S.St(conds=((("is", nx, "Some"), True),)), {"sp": "?"})
    except S.Undecidable as e:
        rep.undecidable("C19.3", "C19.3/is_valid/shape", loc=F.short_file(b["sp"]), construct="try_fold closure: %s" % e.msg)
        return True

    def outcome(st, out):
        val = fc.rewrite(out[1], rw)
        others = tuple(norm_eff(st))
        if val[0] == "adt" and val[1] == "ControlFlow" and val[2] == "Break":
            return ("ret", TRUE, others)
        if val[0] == "adt" and val[1] == "ControlFlow" and val[2] == "Continue":
            nv = val[3][0][1]
            return ("cont", ((() if nv == seen_t else (("assign", "SEEN", nv),)) + others))
        return ("other", val)

    def ref(o):
        if not o(("is", R.NEXT, "Some")):
            return ("end", ())
        if not o(("is", REC, "Ok")):
            return ("cont", ())
        if o(("is", OKR, "Class")):
            return ("cont", (("assign", "SEEN", TRUE),))
        if (o(("is", OKR, "Field")) or o(("is", OKR, "Method"))) and o(("bool", seen_t)):
            return ("ret", TRUE, ())
        return ("cont", ())
    bad, n = fc.compare_paths(list(cps), ref, outcome, rw=rw, base=0)
    if not bad:
        rep.ok("C19.3", "C19.3/is_valid/per-record", loc=F.short_file(b["sp"]),
               found="%d canonical paths of the try_fold step equal the reference: flag := true on Ok(Class); Break on Ok(Field|Method) once the flag is set; "
                     "otherwise Continue with the flag unchanged" % len(cps))
    else:
        for conds, io, ro, comp in bad[:3]:
            rep.violation("C19.3", "C19.3/is_valid/per-record/" + R1.short_hash(S.cstr(conds) + repr(io)), loc=F.short_file(b["sp"]),
                          found="when %s: %s" % (S.cstr(tuple((fc.rewrite(a, rw), p_) for a, p_ in conds)), S.tstr(io)[:300]), expected=S.tstr(ro)[:300])
    rep.ok("C19.3", "C19.3/is_valid/after-loop", loc=F.short_file(b["sp"]), found="result is try_fold(..).is_break(): true iff the step broke, false after the first 50 items",
           nontrivial=False)
    return True


def run(ctx, rep):
    fx = ctx.facts("")
    _FX[0] = fx
    rep.configs.append("default")
    slf = ("in", "self")
    # ---- has_line_info
    p = A.one(rep, "C19.1", "ProguardMapping::has_line_info", A.method(fx, "mapping::ProguardMapping", "has_line_info"))
    if p and quantifier_form(fx, rep, p, slf):
        p = None
    if p:
        r = loop_of(fx, rep, "C19.1", "C19.1/has_line_info", p)
        if r:
            sy, res, L, b = r

            def ref(o):
                if not o(("is", R.NEXT, "Some")):
                    return ("end", ())
                if o(("is", REC, "Ok")) and o(("is", OKR, "Method")) and o(("is", mk_payload(OKR, "Method", "line_mapping"), "Some")):
                    return ("ret", TRUE, ())
                return ("cont", ())
            check_scan(rep, "C19.1", "C19.1/has_line_info", L, b, ref,
                       "return true iff the record is an Ok(Method) with a line mapping; otherwise continue (no other exit)", want_driver=iter_term(slf), end_ret=FALSE)
            tails = [o for st, o in res if not any(e[0] == "inloop" for e in st.effects)]
            if not any(k_ == S.BRK for st_, (k_, v_) in L["paths"]):
                tails = [(S.VAL, FALSE)] if not [o for o in tails if o[1] not in (S.UNIT, FALSE)] else tails      # (an endless `loop` left only by `return`)
            rep.check("C19.1", "C19.1/has_line_info/after-loop", tails == [(S.VAL, FALSE)], loc=F.short_file(b["sp"]),
                      found=[S.tstr(o[1]) for o in tails], expected="false only after the complete stream was scanned")
    # ---- summary
    cands = A.method(fx, "mapping::MappingSummary", "new")
    p = A.one(rep, "C19.2", "MappingSummary::new", cands)
    if p and summary_fold_form(fx, rep, p):
        p = None
    if p and summary_query_form(fx, rep, p):
        p = None
    if p:
        r = loop_of(fx, rep, "C19.2", "C19.2/summary", p)
        if r:
            sy, res, L, b = r
            idx = L["index"]
            # roles from the result wiring
            roles = {}
            okw = len(res) == 1 and res[0][1][1][0] == "adt" and res[0][1][1][1] == "MappingSummary"
            want_fields = ["compiler", "compiler_version", "min_api", "class_count", "method_count"]
            acc_struct = None
            if okw:
                for fn, fv in res[0][1][1][3]:
                    if fv[0] == "loop" and fv[2] == idx:
                        roles[fn] = fv[1]
            elif len(res) == 1 and res[0][1][1][0] == "loop" and res[0][1][1][2] == idx and "MappingSummary" in (b.get("output") or ""):
                # one accumulator of the result type itself, updated field by field and returned
                acc_struct = res[0][1][1][1]
                roles = {fn: "%s.%s" % (acc_struct, fn) for fn in want_fields}
                okw = True
            rep.check("C19.2", "C19.2/summary/wiring", okw and sorted(roles) == sorted(want_fields) and len(set(roles.values())) == 5,
                      loc=F.short_file(b["sp"]), found=S.tstr(res[0][1][1]) if res else "-",
                      expected="MappingSummary fields wired one-to-one from five loop accumulators")
            if okw and len(roles) == 5:
                mparam = [prm["pat"]["name"] for prm in b["params"] if prm.get("pat")][0]
                # `for r in mapping.iter()` matching Ok(..) patterns, or `for r in mapping.iter().flatten()` matching bare records:
                # Result's IntoIterator yields the Ok payload once and nothing for Err, so the element IS the Ok payload
                want_drv = iter_term(("in", mparam))
                drv_l = driver(L)
                flat = drv_l == ("call", "std::iter::Iterator::flatten", (want_drv,))
                if not flat and drv_l is not None and drv_l[0] == "call" and drv_l[1] == "std::iter::Iterator::filter_map" and len(drv_l[2]) == 2 \
                        and drv_l[2][0] == want_drv:
                    import builder_rules as BR_
                    flat = BR_._is_result_ok(fx, drv_l[2][1])       # `.filter_map(Result::ok)`: the same Ok payloads
                if flat:
                    want_drv = drv_l
                OKS = REC if flat else mk_payload(REC, "Ok", "0")
                hk = mk_payload(OKS, "Header", "key")
                hv = mk_payload(OKS, "Header", "value")

                def ref(o):
                    if not o(("is", R.NEXT, "Some")):
                        return ("end", ())
                    if not flat and not o(("is", REC, "Ok")):
                        return ("cont", ())
                    if o(("is", OKS, "Header")):
                        if o(("eq", hk, ("lit", "str", "compiler"))):
                            return ("cont", (("assign", roles["compiler"], hv),))
                        if o(("eq", hk, ("lit", "str", "compiler_version"))):
                            return ("cont", (("assign", roles["compiler_version"], hv),))
                        if o(("eq", hk, ("lit", "str", "min_api"))):
                            if o(("is", hv, "Some")):
                                pr = ("call", "core::str::parse::<u32>", (mk_payload(hv, "Some", "0"),))
                                v = some(mk_payload(pr, "Ok", "0")) if o(("is", pr, "Ok")) else NONE
                            else:
                                v = NONE
                            return ("cont", (("assign", roles["min_api"], v),))
                        return ("cont", ())
                    if o(("is", OKS, "Class")):
                        return ("cont", (("inc", roles["class_count"]),))
                    if o(("is", OKS, "Method")):
                        return ("cont", (("inc", roles["method_count"]),))
                    return ("cont", ())
                check_scan(rep, "C19.2", "C19.2/summary", L, b, ref,
                           "counts incremented on Ok(Class)/Ok(Method); compiler, compiler_version, min_api plainly assigned (last header wins)",
                           want_driver=want_drv)
                # accumulators start at None / 0
                pre = L["pre"]
                inits = {}
                for n in F.walk(b["body"]):
                    if n.get("k") == "Block":
                        for s_ in n["stmts"]:
                            if s_["k"] == "Let" and s_["pat"]["k"] == "Bind" and s_["pat"]["name"] in roles.values() and s_.get("init"):
                                inits[s_["pat"]["name"]] = F.pp(s_["init"])
                if acc_struct is not None:
                    for n in F.walk(b["body"]):
                        if n.get("k") == "Block":
                            for s_ in n["stmts"]:
                                if s_["k"] == "Let" and s_["pat"]["k"] == "Bind" and s_["pat"]["name"] == acc_struct and s_.get("init"):
                                    i_ = F.strip(s_["init"])
                                    if i_.get("k") == "Adt" and not i_.get("base"):
                                        for f_ in i_["fields"]:
                                            inits["%s.%s" % (acc_struct, f_["name"])] = F.pp(f_["e"])
                good = all(inits.get(roles[f]) == "Option::None{}" for f in ("compiler", "compiler_version", "min_api")) and \
                    all(inits.get(roles[f]) == "0" for f in ("class_count", "method_count"))
                rep.check("C19.2", "C19.2/summary/initial-values", good, loc=F.short_file(b["sp"]), found=str(inits), expected="None / None / None / 0 / 0", nontrivial=False)
    # ---- is_valid
    p = A.one(rep, "C19.3", "ProguardMapping::is_valid", A.method(fx, "mapping::ProguardMapping", "is_valid"))
    if p and chained_any_form(fx, rep, p, slf):
        p = None
    if p and is_valid_try_fold_form(fx, rep, p, slf):
        p = None
    if p and skip_while_any_form(fx, rep, p, slf):
        p = None
    if p:
        r = loop_of(fx, rep, "C19.3", "C19.3/is_valid", p)
        if r:
            sy, res, L, b = r
            idx = L["index"]
            Lc = counted_window(L)
            if Lc is not None:
                L = Lc
            L_in = L
            flags = set()
            for st, o in L["paths"]:
                for e in st.effects:
                    if e[0] == "assign" and e[1][0] == "place":
                        flags.add(e[1][1])
            if len(flags) != 1:
                rep.undecidable("C19.3", "C19.3/is_valid/flag", loc=F.short_file(b["sp"]), construct="state variables assigned in the loop: %s" % sorted(flags))
            else:
                flag = list(flags)[0]
                lv = ("loop", flag, idx)
                # the state may be a bool or a private two-valued enum: F1 = the value it takes on a class record
                news = {e[2] for st, o in L["paths"] for e in st.effects if e[0] == "assign" and e[1] == ("place", flag, ()) and e[2] != lv}
                F1 = list(news)[0] if len(news) == 1 else TRUE
                if F1[0] == "adt" and not F1[3]:
                    seen = ("is", lv, F1[2])
                else:
                    F1 = TRUE
                    seen = ("bool", lv)
                # re-assigning the unchanged state is no state change
                L = dict(L)
                L["paths"] = []
                for st, o in L_in["paths"]:
                    st2 = st.copy()
                    st2.effects = tuple(e for e in st.effects if not (e[0] == "assign" and e[1] == ("place", flag, ()) and e[2] == lv))
                    L["paths"].append((st2, o))

                def ref(o):
                    if not o(("is", R.NEXT, "Some")):
                        return ("end", ())
                    if not o(("is", REC, "Ok")):
                        return ("cont", ())
                    if o(("is", OKR, "Class")):
                        return ("cont", (("assign", flag, F1),))
                    if (o(("is", OKR, "Field")) or o(("is", OKR, "Method"))) and o(seen):
                        return ("ret", TRUE, ())
                    return ("cont", ())
                want = ("call", "std::iter::Iterator::take", (iter_term(slf), lit_int(50)))
                check_scan(rep, "C19.3", "C19.3/is_valid", L, b, ref,
                           "flag := true on Ok(Class); return true on Ok(Field|Method) once the flag is set; otherwise continue", want_driver=want)
                tails = [o for st, o in res if not any(e[0] == "inloop" for e in st.effects)]
                rep.check("C19.3", "C19.3/is_valid/after-loop", tails == [(S.VAL, FALSE)], loc=F.short_file(b["sp"]), found=[S.tstr(o[1]) for o in tails],
                          expected="false after the first 50 items")
                init = None
                for n in F.walk(b["body"]):
                    if n.get("k") == "Block":
                        for s_ in n["stmts"]:
                            if s_["k"] == "Let" and s_["pat"]["k"] == "Bind" and s_["pat"]["name"] == flag and s_.get("init"):
                                init = F.pp(s_["init"])
                init_ok = init == "False" if F1 == TRUE else (init is not None and init != F.pp({"k": "Lit", "lit": {"t": "bool", "v": True}}) and
                                                               (F1[2] not in init) and init.split("::")[0] in (F1[1], F1[1] + "{}") or
                                                               (init is not None and F1[1] in init and F1[2] not in init))
                rep.check("C19.3", "C19.3/is_valid/flag-init", bool(init_ok), loc=F.short_file(b["sp"]), found="flag initial value %s" % init,
                          expected="false (the state that is not the one set on a class record)", nontrivial=False)
    import api_rules as AR
    ng = AR.check_getters(fx, rep, "C19.api", "mapping::MappingSummary")
    AR.check_mapping_wiring(fx, rep, "C19.api")
    # "answers equal a fold over the complete record stream" of *these bytes*: the mapping holds nothing but its byte slice - a memo
    # cell or a cached answer next to it (copied by `section()` / `clone()`) makes an answer depend on what was asked before
    adt_ = fx.adt("proguard::mapping::ProguardMapping")
    flds = [(f_["name"], f_["ty"]) for f_ in adt_["variants"][0]["fields"]] if adt_ else []
    rep.check("C19.S", "C19.S/mapping-is-its-bytes", len(flds) == 1 and not (adt_ or {}).get("interior"), loc=F.short_file(adt_["sp"]) if adt_ else "",
              found="ProguardMapping fields: %s; interior mutability: %s" % (flds, (adt_ or {}).get("interior")),
              expected="one field (the bytes), no interior mutability", nontrivial=False)
    # "a method record anywhere in the file": the record stream itself (line discipline, dispatch, grammars) is a premise
    import parser_rules as PRM
    PRM.check_parser_premises(fx, rep, "C19.P")
    rep.floor("C19.api", ng, 5, "MappingSummary getters")
    # control: an early negative exit is a different per-record structure
    cx = ctx.controls()
    bs = [bb for q, bb in cx.bodies.items() if q.endswith("shapes::ctl_early_negative_exit")]
    fired = False
    if bs:
        sy = S.Sym(cx, krates=("pgcontrols",))
        sy.eval_body(bs[0])
        L = sy.loops[sy.loop_order[0]]
        rets = [o for st, o in L["paths"] if o[0] == S.RET]
        fired = any(o[1] == FALSE for o in rets)
    rep.control("C19.1", fired, "early `return false` inside a scan loop is visible as a loop exit")
