#!/usr/bin/env python3
"""Regenerates /verif/MANIFEST.json from the rule modules present (rules_Cxx.py) and NOT_APPLICABLE."""
import json, os, sys, importlib
sys.path.insert(0, os.path.dirname(os.path.abspath(__file__)))
VERIF = os.path.dirname(os.path.dirname(os.path.abspath(__file__)))

NOT_APPLICABLE = {
    "C17": "print/parse round-trip equality quantifies over runtime string contents against the parser's delimiter "
           "searches; no loop-free code shape is a necessary condition, so static analysis has nothing sound to decide "
           "(DESIGN.md section 4, C17)",
}
PENDING_REASON = "check for this property is not built yet in this revision (DESIGN.md section 9 build order); not claimed"

ALL = ["C%02d" % i for i in range(1, 21)]


def main():
    checks = []
    na = []
    served = []
    for pid in ALL:
        if pid in NOT_APPLICABLE:
            na.append(dict(property_id=pid, reason=NOT_APPLICABLE[pid]))
            continue
        try:
            m = importlib.import_module("rules_" + pid)
        except ImportError:
            na.append(dict(property_id=pid, reason=PENDING_REASON))
            continue
        served.append(pid)
        checks.append(dict(
            property_id=pid,
            quick_cmd="./check %s --tier quick" % pid,
            thorough_cmd="./check %s --tier thorough" % pid,
            evidence_file="/verif/evidence/%s.json" % pid,
            replay_cmd_template="./check %s --replay {path}" % pid,
            engine="pgfacts+sa",
            level_claimed=dict(category=m.LEVEL, text=m.LEVEL_TEXT if hasattr(m, "LEVEL_TEXT") else m.EXPLANATION,
                               design_ref="DESIGN.md section 4, %s" % pid),
            level_note=getattr(m, "LEVEL_NOTE", "trusted base: " + "; ".join(m.TRUSTED)),
            technique=getattr(m, "TECHNIQUE", "static analysis over compiler-extracted typed syntax trees (THIR) and MIR facts"),
        ))
    man = dict(
        version=1,
        setup_cmd="./setup.sh",
        hooks=dict(guard="proguard_verif",
                   enable="none needed: static analysis instruments nothing; checks read /repo's source through a rustc driver",
                   baseline_off_cmd="cd /repo && cargo test --workspace --no-fail-fast --offline",
                   source_commits=[], add_only=True),
        engines=[dict(name="pgfacts+sa", path="/verif/pgfacts, /verif/sa", serves_properties=served,
                      kind_free_text="rustc_private driver dumping THIR/MIR/layout/type facts of proguard, watto, leb128 as JSON + "
                                     "Python rule engine (census, effect/call-graph, fragment canonicaliser, provenance, "
                                     "sequence/grammar extraction, table/twin/layout rules) + generated type-checker witnesses")],
        checks=checks,
        not_applicable=na,
        notes="Static analysis only. Every check re-extracts facts from /repo's working tree (content-hash cache only skips "
              "identical extractions). Exit 0 held / 1 VIOLATION / 2 no verdict (tree does not build). Known findings: "
              "/verif/known_findings.json (all six defects found so far are repaired by fix: commits in /repo).",
    )
    json.dump(man, open(os.path.join(VERIF, "MANIFEST.json"), "w"), indent=1)
    print("MANIFEST.json: %d checks, %d not_applicable" % (len(checks), len(na)))


if __name__ == "__main__":
    main()
