"""Recursion rule (C06 / C12 / C13): on the analysed paths, recursion depth must be bounded by the *nesting depth of a value the
caller handed in*, never by a count read from the data. A function in a call-graph cycle is accepted only if every recursive
call passes, in some argument position, a strict sub-structure (field / variant payload) of one of the function's own inputs -
structural descent over a finite owned tree (`StackTrace.cause: Option<Box<StackTrace>>`). `fn next() { .. None => self.next() }`
(depth = number of skipped entries) or `f(rest)` over a byte slice (depth = number of bytes) have no such argument.
Derive-generated impls recurse structurally by construction and are skipped."""
import sys
import facts as F
import sym as S
import census as C


def sccs(adj):
    sys.setrecursionlimit(20000)
    idx, low, st, on, out, cnt = {}, {}, [], set(), [], [0]

    def sc(v):
        idx[v] = low[v] = cnt[0]
        cnt[0] += 1
        st.append(v)
        on.add(v)
        for w in adj.get(v, ()):
            if w not in idx:
                sc(w)
                low[v] = min(low[v], low[w])
            elif w in on:
                low[v] = min(low[v], idx[w])
        if low[v] == idx[v]:
            comp = []
            while True:
                w = st.pop()
                on.discard(w)
                comp.append(w)
                if w == v:
                    break
            if len(comp) > 1 or v in adj.get(v, ()):
                out.append(comp)
    for v in sorted(adj):
        if v not in idx:
            sc(v)
    return out


def descends(t):
    """term is a strict sub-structure of an input: built from ("in", x) by field / payload / deref-like steps, >= 1 field"""
    n_field = 0
    while isinstance(t, tuple) and t:
        k = t[0]
        if k == "field":
            n_field += 1
            t = t[1]
        elif k == "payload":
            t = t[1]
        elif k in ("deref", "ref", "borrow"):
            t = t[1]
        elif k == "call" and t[1].split("::")[-1] in ("as_ref", "as_deref", "deref", "as_mut", "borrow", "clone") and len(t[2]) == 1:
            t = t[2][0]
        elif k == "in":
            return n_field >= 1
        else:
            return False
    return False


def subterms(t):
    if isinstance(t, tuple) and t:
        yield t
        for x in t:
            if isinstance(x, tuple):
                for y in subterms(x):
                    yield y


def check_recursion(fx, rep, rule, seen):
    cg = fx.callgraph()
    adj = {p: sorted({t for c, r, _ in cg[p] for t in (r, c) if t and t in seen}) for p in seen}
    comps = sccs(adj)
    n = 0
    for comp in comps:
        members = [p for p in comp if not fx.bodies[p].get("exp") and fx.bodies[p].get("kind") != "Closure" and "{closure" not in p]
        cset = set(comp)
        shorts = {S.short_path(p) for p in comp if "{closure" not in p}
        for p in sorted(members):
            b = fx.bodies[p]
            n += 1
            key = "%s/recursion/%s" % (rule, C.short_fn(p))
            # functions outside the cycle stay opaque: only the calls among cycle members matter here
            sy = S.Sym(fx, inline_mut=True, opaque=lambda q, cset=cset: q not in cset)
            try:
                res = sy.eval_body(b)
            except S.Undecidable as e:
                rep.undecidable(rule, key, loc=F.short_file(b["sp"]), construct="recursive function not evaluable: %s" % e.msg)
                continue
            paths = list(res)
            for k_ in sy.loop_order:
                paths += sy.loops[k_]["paths"]
            rec_calls, fmt_args = [], []
            for st, (k, v) in paths:
                for src in [v] + [a for a, _ in st.conds] + list(st.effects):
                    for t in subterms(src):
                        if t[0] in ("call", "mcall") and len(t) > 2 and isinstance(t[1], str) and t[1] in shorts:
                            rec_calls.append(t)
                        if t[0] in ("display", "debug") and len(t) == 2:
                            fmt_args.append(t[1])
            is_fmt = b.get("impl_trait") in ("std::fmt::Display", "std::fmt::Debug")
            bad = [t for t in rec_calls if not any(descends(a) for a in t[2])]
            if is_fmt:
                # recursion through the formatting machinery: every value printed must be a part of self, never self
                bad += [("display", a) for a in fmt_args if a[0] == "in" or (a[0] in ("deref", "ref") and a[1][0] == "in")]
                ok_found = "prints only parts of self (%d argument(s))" % len(fmt_args)
            else:
                ok_found = "%d recursive call(s), each on a strict sub-structure of an input" % len(rec_calls)
            if not rec_calls and not is_fmt:
                # in a cycle, but the recursive call is not visible in the evaluated paths (behind an opaque callee)
                via = sorted(C.short_fn(q) for q in cset if q != p)[:3]
                rep.undecidable(rule, key, loc=F.short_file(b["sp"]), construct="call-graph cycle through %s without a visible recursive call" % via)
                continue
            if bad:
                rep.violation(rule, key, loc=F.short_file(b["sp"]), found="recursive call %s passes no strict sub-structure of an input" % S.tstr(bad[0])[:160],
                              expected="recursion depth bounded by the nesting depth of an argument (structural descent), not by a count read from the data")
            else:
                rep.ok(rule, key, loc=F.short_file(b["sp"]), found=ok_found)
    rep.ok(rule, "%s/recursion/scan" % rule, found="%d bodies scanned, %d cycle(s), %d hand-written recursive function(s)" % (len(seen), len(comps), n), nontrivial=False)
    return n
