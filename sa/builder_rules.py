"""FC rules over the two record loops (shared by C01.B*, C02.1/3/8, C03.1/2, C04.1, C09.3/7)."""
import facts as F
import sym as S
import fc
import refs as R
import anchors as A
import builders as B
from sym import some, NONE, lit_int, mk_field, mk_payload
from builders import REC, NEXT, PEEK, strref, rec_field

ENTRY_ADT = {"mapper": "MemberMapping", "cache": "Member"}


def builder_path(fx, rep, rule, impl):
    if impl == "mapper":
        c = A.method(fx, A.MAPPER, "create_proguard_mapper")
        if not c:
            # role: the function both constructors delegate to
            c = [p for p in fx.bodies if fx.bodies[p]["krate"] == "proguard" and "mapper::ProguardMapper" in (fx.bodies[p].get("impl_self") or "")
                 and B.S.has_loop(fx.bodies[p]) and fx.bodies[p]["kind"] == "AssocFn" and "ProguardMapping" in " ".join(fx.bodies[p].get("inputs", []))]
        return A.one(rep, rule, "mapper builder (record loop)", c)
    return A.one(rep, rule, "cache writer (record loop)", A.method(fx, A.CACHE, "write"))


_cache = {}


def record_loop(fx, rep, rule, impl):
    key = (id(fx), impl)
    if key in _cache:
        return _cache[key]
    p = builder_path(fx, rep, rule, impl)
    rl = None
    if p:
        rep.fn(p)
        try:
            rl = B.RecordLoop(fx, p)
            if rl.loop is None:
                rep.undecidable(rule, "%s/record-loop/%s" % (rule, impl), loc=F.short_file(fx.bodies[p]["sp"]),
                                construct="no loop dispatching on ProguardRecord variants found")
                rl = None
        except S.Undecidable as e:
            rep.undecidable(rule, "%s/record-loop/%s" % (rule, impl), loc=F.loc(e.node) if isinstance(e.node, dict) else "", construct=e.msg)
    _cache[key] = rl
    return rl


def roles(rl, impl):
    """role names of the loop-carried places: CLS (class in progress), UNIQ (dedupe set), MAP (classes)"""
    cls = uniq = cmap = None
    for p in rl.arm("Method"):
        for e in p["effects"]:
            if e[0] == "push" and cls is None and e[1][0] == "slot" and e[1][1][0] == "place":
                cls = e[1][1][1]
            if e[0] == "set_insert" and uniq is None and e[1][0] == "place":
                uniq = e[1]
    for p in rl.arm("Class"):
        for e in p["effects"]:
            if e[0] == "map_insert" and e[1][0] == "place":
                cmap = e[1]
    return cls, uniq, cmap


def completions(p, ref, extra_axioms=None):
    """reference outcomes under all completions of path p's assignment"""
    return fc.ref_outcomes(ref, p["assign"], extra_axioms)


def pushed_entries(p, impl):
    return [(e[1], e[2]) for e in p["effects"] if e[0] == "push" and e[2][0] == "adt" and e[2][1] == ENTRY_ADT[impl]]


# ---- C01.B1 / C01.B2 / C02.1 : record -> entry interpretation ----------------------------------------------
def check_entry_fields(fx, rep, rule, impl):
    rl = record_loop(fx, rep, rule, impl)
    if rl is None:
        return 0
    cls, uniq, cmap = roles(rl, impl)
    cache = impl == "cache"
    n = 0
    bad_keys = set()
    mp = rl.arm("Method")
    for p in mp:
        ents = pushed_entries(p, impl)
        if not ents:
            rep.violation(rule, "%s/no-entry/%s" % (rule, impl), loc=F.short_file(rl.body["sp"]),
                          found="Method record path stores no entry: %s" % S.cstr(p["conds"]),
                          expected="every method record is stored (push into the per-method vector)")
            continue
        first = dict(ents[0][1][3])
        for comp, want in completions(p, lambda o: B.ref_entry_fields(o, cache)):
            n += 1
            for fname, wv in want.items():
                hv = first.get(fname)
                if hv != wv and (fname, impl) not in bad_keys:
                    bad_keys.add((fname, impl))
                    rep.violation(rule, "%s/field/%s/%s" % (rule, impl, fname), loc=F.short_file(rl.body["sp"]),
                                  found="when %s: %s = %s" % (S.cstr(p["conds"]), fname, S.tstr(hv) if hv else None),
                                  expected="%s = %s" % (fname, S.tstr(wv)))
        # the file of the entry is the file name of the class being built, as of this record
        ff = "original_file_offset" if cache else "original_file"
        want_file = mk_field(mk_field(("loop", cls, rl.loop["index"]), "class"), "file_name_offset") if cache else \
            mk_field(("loop", cls, rl.loop["index"]), "file_name")
        if first.get(ff) != want_file and (ff, impl) not in bad_keys:
            bad_keys.add((ff, impl))
            rep.violation(rule, "%s/field/%s/%s" % (rule, impl, ff), loc=F.short_file(rl.body["sp"]),
                          found="%s = %s" % (ff, S.tstr(first.get(ff)) if first.get(ff) else None),
                          expected="%s = file name of the class currently being built (%s)" % (ff, S.tstr(want_file)))
        # all entries pushed on one path are the same record interpretation
        for slot, v in ents[1:]:
            if v != ents[0][1] and ("same", impl) not in bad_keys:
                bad_keys.add(("same", impl))
                rep.violation(rule, "%s/entry-differs-between-indexes/%s" % (rule, impl), loc=F.short_file(rl.body["sp"]),
                              found=S.tstr(v), expected="the by-method and by-params indexes store the same entry: " + S.tstr(ents[0][1]))
    if not bad_keys and mp:
        rep.ok(rule, "%s/entry-fields/%s" % (rule, impl), loc=F.short_file(rl.body["sp"]),
               found="%d Method paths, %d reference completions: every stored field equals the reference interpretation "
                     "(usable-range rule, identity default, sentinel encoding)" % (len(mp), n))
    return len(mp)


# ---- C03.1 / C02.8 / C09.3: effect structure of the Method arm ---------------------------------------------------
def check_method_effects(fx, rep, rule, impl):
    rl = record_loop(fx, rep, rule, impl)
    if rl is None:
        return 0
    cls, uniq, cmap = roles(rl, impl)
    cache = impl == "cache"
    obf, args, orig = rec_field("Method", "obfuscated"), rec_field("Method", "arguments"), rec_field("Method", "original")
    key3 = ("tuple", (obf, args, orig))
    flag_atoms = [a for p in rl.arm("Method") for a in p["assign"] if a[0] == "bool" and a[1][0] == "in"]
    flag = flag_atoms[0] if flag_atoms else None

    def shape(p):
        """(main push slot kind, counters, by-params push?, set insert key, same entry?)"""
        pushes = [(e[1], e[2]) for e in p["effects"] if e[0] == "push"]
        incs = [e[1] for e in p["effects"] if e[0] == "inc"]
        sets = [e[2] for e in p["effects"] if e[0] == "set_insert"]
        others = [e for e in p["effects"] if e[0] not in ("push", "inc", "set_insert")]
        return pushes, incs, sets, others

    bad = set()
    n = 0
    mp = rl.arm("Method")
    for p in mp:
        pushes, incs, sets, others = shape(p)

        def ref(o):
            if (not cache) and flag is not None and not o(flag):
                return ("plain",)
            if B.ref_inlined(o):
                return ("plain",)
            fresh = o(("fresh", uniq, key3)) if uniq is not None else False
            return ("dedupe", fresh)
        for comp, want in completions(p, ref):
            n += 1
            exp_push = 1 if want[0] == "plain" or not want[1] else 2
            exp_sets = 0 if want[0] == "plain" else 1
            problems = []
            if len(pushes) != exp_push:
                problems.append(("push-count", "%d push(es)" % len(pushes), "%d" % exp_push))
            if len(sets) != exp_sets or (sets and sets[0] != key3):
                problems.append(("dedupe-key", "set inserts %s" % [S.tstr(s) for s in sets],
                                 "exactly %d insert(s) of (obfuscated, arguments, original)" % exp_sets))
            # slots
            if pushes:
                s0 = pushes[0][0]
                want0 = ("slot", ("place", cls, ("members",)), obf) + ((("all_mappings",),) if not cache else ())
                if s0 != want0:
                    problems.append(("by-method-slot", S.tstr(s0), S.tstr(want0)))
            if len(pushes) == 2:
                s1 = pushes[1][0]
                if cache:
                    want1 = ("slot", ("place", cls, ("members_by_params",)), ("tuple", (obf, args)))
                else:
                    want1 = ("slot", ("slot", ("place", cls, ("members",)), obf, ("mappings_by_params",)), args)
                if s1 != want1:
                    problems.append(("by-params-slot", S.tstr(s1), S.tstr(want1)))
                if pushes[1][1] != pushes[0][1]:
                    problems.append(("by-params-entry", S.tstr(pushes[1][1]), "same entry as the by-method push"))
            if cache:
                # C09.3 push/increment pairing
                exp_incs = [("place", cls, ("class", "members_len"))] + ([("place", cls, ("class", "members_by_params_len"))] if exp_push == 2 else [])
                if incs != exp_incs:
                    problems.append(("counter-pairing", [S.tstr(i) for i in incs], [S.tstr(i) for i in exp_incs]))
                # order: push, inc, ..., push, inc
                seq = [e[0] for e in p["effects"] if e[0] in ("push", "inc")]
                if seq != ["push", "inc"] * exp_push:
                    problems.append(("counter-order", seq, ["push", "inc"] * exp_push))
            elif incs:
                problems.append(("unexpected-counter", [S.tstr(i) for i in incs], "none"))
            if others:
                problems.append(("extra-effect", [S.tstr(e) for e in others], "no other effects in the Method arm"))
            for what, found, exp in problems:
                if (what, impl) in bad:
                    continue
                bad.add((what, impl))
                rep.violation(rule, "%s/method-arm/%s/%s" % (rule, impl, what), loc=F.short_file(rl.body["sp"]),
                              found="when %s [%s]: %s" % (S.cstr(p["conds"]), ", ".join("%s=%s" % (S.tstr(k), v) for k, v in comp.items() if k not in p["assign"]), found),
                              expected=str(exp))
            if problems:
                break
    if not bad and mp:
        rep.ok(rule, "%s/method-arm/%s" % (rule, impl), loc=F.short_file(rl.body["sp"]),
               found="%d Method paths x completions (%d): by-method push always; by-params push iff %snot inlined and "
                     "first (obfuscated, arguments, original) in this class; same entry in both%s"
                     % (len(mp), n, "parameter index requested and " if not cache else "",
                        "; every push paired with its counter increment" if cache else ""))
    return len(mp)


# ---- C04.1 / C03.2 / C01.B3: Class arm, Header arm, epilogue ---------------------------------------------------------
def check_class_header_arms(fx, rep, rule, impl):
    rl = record_loop(fx, rep, rule, impl)
    if rl is None:
        return 0
    cls, uniq, cmap = roles(rl, impl)
    cache = impl == "cache"
    idx = rl.loop["index"]
    old = ("loop", cls, idx)
    keyf = "name" if cache else "obfuscated"
    n = 0
    check_record_stream(fx, rep, rule, impl, rl)
    # ---- Class arm
    for p in rl.arm("Class"):
        n += 1
        effs = p["effects"]
        ins = [e for e in effs if e[0] == "map_insert"]
        asg = [e for e in effs if e[0] == "assign" and e[1] == ("place", cls, ())]
        clr = [e for e in effs if e[0] == "clear"]
        # flush guard: the previous class is registered iff it has a name (dummy initial class has none)
        guard_atoms = [a for a in p["assign"] if a[0] == "empty" and a[1][0] == "field" and a[1][1] == old]
        flushed = bool(ins)
        ok_guard = len(guard_atoms) == 1 and (p["assign"][guard_atoms[0]] is False) == flushed
        rep.check(rule, "%s/class-arm/%s/flush-guard/%s" % (rule, impl, "flush" if flushed else "skip"), ok_guard,
                  loc=F.short_file(rl.body["sp"]),
                  found="previous class %s when %s" % ("registered" if flushed else "not registered", S.cstr(p["conds"])),
                  expected="previous class registered iff its name is non-empty (original or obfuscated: both non-empty in the domain)")
        if flushed:
            e = ins[0]
            ok_ins = e[2] == mk_field(old, keyf) and e[3] == old and len(ins) == 1
            rep.check(rule, "%s/class-arm/%s/registration" % (rule, impl), ok_ins, loc=F.short_file(rl.body["sp"]),
                      found="%s" % S.tstr(e), expected="insert(classes, previous.%s, previous) - plain insert: the last class line with a name wins" % keyf)
        # new class in progress is built from this record only (nothing carried over)
        # (`mem::take(&mut current)` leaves a default value that the final assignment of the arm overwrites)
        ok_new = len(asg) >= 1 and asg[-1][2][0] == "adt" and all(a_[2][0] == "default" for a_ in asg[:-1])
        carried = []
        if ok_new:
            new = asg[-1][2]

            def mentions_old(t):
                hit = []

                def f(x):
                    if x[0] == "loop" and x[1] == cls:
                        hit.append(x)
                    return None
                fc.rewrite(t, f)
                return bool(hit)
            carried = [fn for fn, fv in new[3] if mentions_old(fv)]
            d = dict(new[3])
            if cache:
                want_names = d.get("name") == rec_field("Class", "obfuscated") and d.get("class", ("x",))[0] == "adt" and \
                    dict(d["class"][3]).get("obfuscated_name_offset") == strref(rec_field("Class", "obfuscated")) and \
                    dict(d["class"][3]).get("original_name_offset") == strref(rec_field("Class", "original")) and \
                    dict(d["class"][3]).get("file_name_offset") == R.MAX32 and \
                    dict(d["class"][3]).get("members_len") == lit_int(0) and dict(d["class"][3]).get("members_by_params_len") == lit_int(0)
            else:
                want_names = d.get("original") == rec_field("Class", "original") and d.get("obfuscated") == rec_field("Class", "obfuscated") \
                    and d.get("file_name") == NONE
        else:
            want_names = False
        rep.check(rule, "%s/class-arm/%s/fresh-class" % (rule, impl), bool(ok_new and want_names and not carried),
                  loc=F.short_file(rl.body["sp"]),
                  found=(S.tstr(asg[-1][2])[:600] if asg else "no assignment of the class in progress") + ((" carried over: %s" % carried) if carried else ""),
                  expected="class in progress := fresh struct from this Class record (names wired, file name reset, empty member maps, zero counters); nothing leaks from the previous block")
        # per-class dedupe reset: either clear(set) here or the set is a field of the replaced struct
        if uniq is not None:
            if uniq[2] == ():   # separate variable: cleared, or replaced by a new empty set
                def empty_set(v):
                    return v[0] == "default" or (v[0] == "call" and not v[2] and v[1].split("::")[-1] in ("new", "default") and "HashSet" in v[1])
                # (the last thing this arm does to the set decides what the next class block starts with)
                touch = [e_ for e_ in effs if (e_[0] in ("clear", "assign", "set_insert") and e_[1] == uniq)]
                ok_reset = bool(touch) and (touch[-1][0] == "clear" or (touch[-1][0] == "assign" and empty_set(touch[-1][2])))
            else:               # field of the class struct: replaced wholesale
                ok_reset = ok_new and (uniq[2][0] not in carried)
            rep.check(rule, "%s/class-arm/%s/dedupe-reset" % (rule, impl), ok_reset, loc=F.short_file(rl.body["sp"]),
                      found="effects: %s" % [S.tstr(e)[:120] for e in effs if e[0] in ("clear",)] + (" (set lives in the replaced struct)" if uniq[2] else ""),
                      expected="the (obfuscated, arguments, original) set is reset at every class line")
    # ---- Header arm
    hp = rl.arm("Header")
    seen_cases = set()
    for p in hp:
        n += 1
        keyatom = ("eq", rec_field("Header", "key"), ("lit", "str", "sourceFile"))
        is_sf = p["assign"].get(keyatom)
        asg = [e for e in p["effects"] if e[0] == "assign"]
        others = [e for e in p["effects"] if e[0] != "assign"]
        val = rec_field("Header", "value")

        def ref(o):
            if not o(keyatom):
                return None
            if cache:
                return ("assign", ("place", cls, ("class", "file_name_offset")),
                        strref(mk_payload(val, "Some", "0")) if o(("is", val, "Some")) else R.MAX32)
            return ("assign", ("place", cls, ("file_name",)), val)
        for comp, want in completions(p, ref):
            got = asg[0] if asg else None
            case = "sourceFile" if want else "other-key"
            vnone = comp.get(("is", val, "Some")) is False
            okh = (got == want) and len(asg) <= 1 and not others
            k = "%s/header-arm/%s/%s%s" % (rule, impl, case, "-value-None" if (vnone and cache) else "")
            if k in seen_cases and okh:
                continue
            seen_cases.add(k)
            rep.check(rule, k, okh, loc=F.short_file(rl.body["sp"]),
                      found="when %s: %s" % (S.cstr(p["conds"]), [S.tstr(e) for e in p["effects"]] or "no effect"),
                      expected=("%s" % S.tstr(want)) if want else "no effect for other header keys")
    # a Header record with any value must reach the Header arm (F6: writer matched only `value: Some`)
    hdr_cases = set()
    for p in hp:
        v = p["assign"].get(("is", rec_field("Header", "value"), "Some"))
        hdr_cases.add(v)
    unhandled = [p for p in rl.other_arm()]
    rep.check("C02.3" if rule.startswith("C02") else rule, "C02/record-arms/Header-value-None" if cache else "%s/record-arms/%s/Header" % (rule, impl),
              bool(hp) and all(not any(k[0] == "is" and k[1] == rec_field("Header", "value") for k in p["assign"]) or True for p in hp)
              and not header_falls_through(rl),
              loc=F.short_file(rl.body["sp"]),
              found="Header arm paths: %d; header records falling through to the catch-all arm: %s" % (len(hp), header_falls_through(rl)),
              expected="every Header record (with or without value) is handled by the Header arm, as in the mapper")
    # ---- epilogue: the last class is registered after the loop
    ep = rl.after_loop()
    okep = True
    desc = []
    for a in ep:
        ins = [e for e in a["effects"] if e[0] == "map_insert"]
        assign = fc.assignment(a["conds"])
        guard = [k for k in assign if k[0] == "empty" and k[1][0] == "field" and k[1][1] == old]
        flushed = bool(ins)
        desc.append("%s -> %s" % (S.cstr(a["conds"]), [S.tstr(e)[:100] for e in ins]))
        if getattr(rl, "sentinel", False) and not flushed:
            continue        # the sentinel's Class arm did the last registration; the nameless class left over is not registered
        if len(guard) != 1 or (assign[guard[0]] is False) != flushed:
            okep = False
        if flushed and not (ins[0][2] == mk_field(old, keyf) and ins[0][3] == old):
            okep = False
    rep.check(rule, "%s/epilogue/%s" % (rule, impl), okep and (len(ep) >= 2 or (getattr(rl, "sentinel", False) and len(ep) >= 1)), loc=F.short_file(rl.body["sp"]),
              found=desc + (["(end-of-mapping sentinel class record: its Class arm registers the last class)"] if getattr(rl, "sentinel", False) else []),
              expected="after the loop the class in progress is registered iff it has a name")
    return n


def header_falls_through(rl):
    """paths where REC is known not to be Header only because a sub-pattern failed"""
    out = []
    for p in rl.paths:
        a = p["assign"]
        if a.get(("is", NEXT, "Some")) is True and a.get(("is", REC, "Header")) is True:
            # in the Header arm: fine
            continue
    # a refutable sub-pattern shows up as: is(REC,Header)=True on a path that ends up in another arm
    for p in rl.paths:
        a = p["assign"]
        if a.get(("is", REC, "Header")) is True:
            sub = [k for k in a if k[0] == "is" and k[1][0] == "payload" and k[1][1] == REC and k[1][2] == "Header"]
            # if some path with is(REC,Header) has *no* sourceFile test and some sub-pattern test failed -> fell through
            key_tested = any(k[0] == "eq" and k[1] == rec_field("Header", "key") for k in a)
            if sub and not key_tested and any(a[k] is False for k in sub):
                out.append(S.cstr(p["conds"]))
    return out


def check_record_stream(fx, rep, rule, impl, rl):
    """the record loop consumes every successfully parsed record of the mapping, in order: its iterator is
    peekable(filter_map(mapping.iter(), Result::ok)) over the mapping parameter (no take/skip/map_while/...)"""
    import readers as RD
    drv = RD.driver_of_loop(rl.loop)
    b = rl.body
    if getattr(rl, "lookahead", None) is not None and rl.lookahead_iter is not None:
        # manual one-record lookahead: the iterator already gave its first item before the loop; what it iterates is the
        # initialiser of the iterator variable (one `next()` before the loop, one per iteration: builders.RecordLoop)
        drv = None
        for n_ in F.walk(b["body"]):
            if n_.get("k") == "Block":
                for s_ in n_["stmts"]:
                    if s_["k"] == "Let" and s_["pat"].get("k") == "Bind" and s_["pat"].get("name") == rl.lookahead_iter[1] and s_.get("init") is not None:
                        try:
                            r_ = S.Sym(fx).ev(s_["init"], S.St())
                            if len(r_) == 1 and not r_[0][0].effects and not r_[0][0].conds:
                                drv = r_[0][1][1]
                        except S.Undecidable:
                            pass
    mp = [prm["pat"]["name"] for prm in b["params"] if prm.get("pat") and prm["pat"].get("k") == "Bind" and "ProguardMapping" in (prm.get("ty") or "")]
    good = False
    if drv is not None and len(mp) == 1:
        it = ("adt", "ProguardRecordIter", "ProguardRecordIter", ((A.record_iter_field(fx), mk_field(("in", mp[0]), A.mapping_field(fx))),))
        want_fm = ("call", "std::iter::Iterator::filter_map", (it, ("fnref", "std::result::Result::ok")))
        t = drv
        if t[0] == "call" and t[1] == "std::iter::Iterator::peekable" and len(t[2]) == 1:
            t = t[2][0]
        # an end-of-mapping *sentinel*: `.chain(once(Class { original: "", obfuscated: "" }))` - one more class line with empty names after
        # the last record. Its Class arm registers the last real class (the arm's flush rule is checked like for any class line), interns
        # two empty strings (no effect: string-table model) and leaves a nameless class in progress, which nothing may register
        rl.sentinel = False
        if t[0] == "call" and t[1] == "std::iter::Iterator::chain" and len(t[2]) == 2 and t[2][1][0] == "call" and t[2][1][1] == "std::iter::once" \
                and len(t[2][1][2]) == 1:
            sv = t[2][1][2][0]
            if sv[0] == "adt" and sv[1] == "ProguardRecord" and sv[2] == "Class" and dict(sv[3]) == {"original": ("lit", "str", ""), "obfuscated": ("lit", "str", "")}:
                rl.sentinel = True
                t = t[2][0]
        good = t[0] == "call" and t[1] == "std::iter::Iterator::filter_map" and t[2][0] == it and _is_result_ok(fx, t[2][1])
        # `.flatten()` over an iterator of Results: Result's IntoIterator yields the Ok payload once and nothing for Err
        good = good or t == ("call", "std::iter::Iterator::flatten", (it,))
    rep.check(rule, "%s/record-stream/%s" % (rule, impl), good, loc=F.loc(rl.loop["node"]),
              found="the record loop iterates %s" % (S.tstr(drv)[:300] if drv else "?"),
              expected="peekable(filter_map(<mapping>.iter(), Result::ok)): every Ok record of the whole mapping, in file order")
    # ... and *all* of it: no record makes the loop stop (a `break` or `return` on a path that has a record in hand drops every
    # record after it - e.g. `break` for `continue` at the inlined-callee test)
    early = [p_ for p_ in rl.paths if p_["assign"].get(("is", NEXT, "Some")) is True and p_["exit"] in (S.BRK, S.RET)]
    rep.check(rule, "%s/record-stream/%s/no-early-exit" % (rule, impl), not early, loc=F.loc(rl.loop["node"]),
              found=("loop left with a record in hand when %s" % S.cstr(early[0]["conds"])[:300]) if early else "%d paths with a record in hand, all continue with the next record" % len([p_ for p_ in rl.paths if p_["assign"].get(("is", NEXT, "Some")) is True]),
              expected="the record loop ends only when the stream is exhausted")


def _is_result_ok(fx, t):
    if t[0] == "fnref":
        return t[1].startswith("std::result::Result") and t[1].endswith("::ok")
    if t[0] == "closure":
        sy = S.Sym(fx)
        try:
            r = sy.apply(t, [("bound", 0)], S.St(), {"sp": "?"})
        except S.Undecidable:
            return False
        if len(r) == 1 and r[0][1][1] == ("call", "std::result::Result::ok", (("bound", 0),)):
            return True
        # modelled Result::ok: Some(payload) when Ok, None otherwise
        outs = {(tuple(sorted((a, p) for a, p in st.conds)), v[1]) for st, v in r}
        ok_atom = ("is", ("bound", 0), "Ok")
        return outs == {(((ok_atom, True),), some(mk_payload(("bound", 0), "Ok", "0"))), (((ok_atom, False),), NONE)}
    return False
