"""FC/TAB rules for stack-trace remapping (C07, C08)."""
import facts as F
import sym as S
import fc
import refs as R
import anchors as A
import rules_C01 as R1
import models as M
from sym import some, NONE, lit_int, mk_field, mk_payload


def call(name, *args):
    return ("call", name, tuple(args))


def recv(impl):
    return A.MAPPER if impl == "mapper" else A.CACHE


def sp(fx, recv_, nm):
    c = A.method(fx, recv_, nm)
    return c[0] if len(c) == 1 else None


def templates_in(fx, path, sy=None):
    """all format templates used in a function body (canonical pieces)"""
    out = []
    b = fx.bodies[path]
    nodes = list(F.walk(b["body"]))
    for cb in fx.closures_of(path):
        nodes += list(F.walk(cb["body"]))       # templates used inside the function's closures count as its own
    for n in nodes:
        if n.get("k") == "Call" and "fn" in n and n["fn"]["path"].startswith("std::fmt::Arguments") and n["fn"]["path"].endswith(("::new", "::from_str")):
            a0 = F.strip(n["args"][0])
            if a0.get("k") == "Lit" and a0["lit"]["t"] == "bytes":
                out.append("".join(p[1] if p[0] == "txt" else "{}" for p in M.decode_template(bytes(a0["lit"]["v"]))))
            elif a0.get("k") == "Lit" and a0["lit"]["t"] == "str":
                out.append(a0["lit"]["v"])
    return out


# ---- C08 -------------------------------------------------------------------------------------------------------
def check_typed(fx, rep, rule, impl):
    p = A.one(rep, rule, impl + "::remap_stacktrace_typed", A.method(fx, recv(impl), "remap_stacktrace_typed"))
    if not p:
        return
    rep.fn(p)
    rt, rf = sp(fx, recv(impl), "remap_throwable"), sp(fx, recv(impl), "remap_frame")
    if not rt or not rf:
        A.one(rep, rule, impl + "::remap_throwable/remap_frame", [])
        return
    b = fx.bodies[p]
    sy = S.Sym(fx, opaque=lambda q: q in (rt, rf), inline_mut=True, thread_places=True)
    try:
        res = sy.eval_body(b)
    except S.Undecidable as e:
        rep.undecidable(rule, "%s/typed/%s/shape" % (rule, impl), loc=F.loc(e.node) if isinstance(e.node, dict) else "", construct=e.msg)
        return
    slf, tr = ("in", "self"), ("in", "trace")
    folds = set()

    def rw(t):
        if t[0] == "call" and t[1].endswith("Iterator::fold"):
            folds.add(t)
            return ("FRAMES", t[2][0], t[2][1])
        return None
    exc = mk_field(tr, "exception")
    e = mk_payload(exc, "Some", "0")
    cause = mk_field(tr, "cause")

    def ref(o):
        if o(("is", exc, "Some")):
            r = call(S.short_path(rt), slf, e)
            kept = ("adt", "Throwable", "Throwable", (("class", mk_field(e, "class")), ("message", mk_field(e, "message"))))
            ex = some(mk_payload(r, "Some", "0") if o(("is", r, "Some")) else kept)
        else:
            ex = NONE
        frames = ("FRAMES", call("core::slice::iter", mk_field(tr, "frames")), call("std::vec::Vec::with_capacity", call("std::vec::Vec::len", mk_field(tr, "frames"))))
        if o(("is", cause, "Some")):
            cz = some(call(S.short_path(p), slf, mk_payload(cause, "Some", "0")))
        else:
            cz = NONE
        return ("adt", "StackTrace", "StackTrace", (("exception", ex), ("frames", frames), ("cause", cz)))

    loop_forms = {}
    flat_forms = {}
    # the whole body delegated to a private generic helper `H(trace, f, g)` that recurses on itself for the cause: `H(cause, f, g)`
    # with the same f, g is this function applied to the cause (same helper, same arguments)
    deleg = None
    tail = F.strip(b["body"])
    while tail.get("k") == "Block" and not tail.get("stmts") and tail.get("tail") is not None:
        tail = F.strip(tail["tail"])
    if tail.get("k") == "Call" and "fn" in tail:
        ht = fx.by_dp.get(tail["fn"].get("dp"))
        if ht in fx.bodies and fx.bodies[ht]["krate"] == "proguard" and ht not in (rt, rf) and len(tail["args"]) >= 1:
            try:
                hargs = []
                for a_ in tail["args"]:
                    outs_ = [v_ for s_, (k_, v_) in sy.ev(a_, S.St()) if k_ == S.VAL]
                    hargs.append(outs_[0] if len(outs_) == 1 else None)
                if hargs[0] == tr and all(h_ is not None for h_ in hargs):
                    deleg = (S.short_path(ht), hargs)
            except S.Undecidable:
                deleg = None

    def same_callable(a_, b_):
        return a_ == b_ or (a_[0] == "closure" and b_[0] == "closure" and a_[1] == b_[1])

    def self_similar(t):
        if deleg and t[0] == "call" and t[1] == deleg[0] and len(t[2]) == len(deleg[1]) and all(same_callable(x_, y_) for x_, y_ in zip(t[2][1:], deleg[1][1:])):
            return call(S.short_path(p), slf, t[2][0])
        return None

    def flat_map_form(fv):
        """frames = trace.frames.iter().flat_map(|f| remap_frame(f).peekable().chain(<f.clone() iff nothing was remapped>)).collect()"""
        if not (fv[0] == "call" and fv[1].endswith("Iterator::collect") and len(fv[2]) == 1):
            return None
        fm = fv[2][0]
        frames_f = mk_field(tr, "frames")
        if not (fm[0] == "call" and fm[1].endswith("Iterator::flat_map") and len(fm[2]) == 2 and fm[2][1][0] == "closure"
                and fm[2][0] in (call("core::slice::iter", frames_f), call("std::iter::IntoIterator::into_iter", frames_f))):
            return None
        f = ("bound", 0)
        try:
            paths = sy.apply(fm[2][1], [f], S.St(), {"sp": "?"})
        except S.Undecidable as e2:
            return False, ["per-frame closure not evaluable: %s" % e2.msg]
        pkd = call("std::iter::Iterator::peekable", call(S.short_path(rf), slf, f))
        pk = fc.canon_atom(("is", ("peek", pkd), "Some"))[0]
        kept = ("adt", "StackFrame", "StackFrame", tuple((fn, mk_field(f, fn)) for fn in ("class", "method", "line", "file", "parameters")))
        okf, desc, seen_ = True, [], set()
        for st2, (k2, v2) in paths:
            has = fc.assignment(st2.conds).get(pk)
            desc.append("%s -> %s" % (S.cstr(st2.conds), S.tstr(v2)[:160]))
            effs = [e_ for e_ in st2.effects if e_[0] == "call"]
            want = call("std::iter::Iterator::chain", pkd, NONE if has else some(kept))
            okf = okf and has is not None and not effs and R1.canon_iter(v2) == want
            seen_.add(has)
        return okf and seen_ == {True, False}, desc

    def outcome(st, out):
        v = fc.rewrite(fc.rewrite(out[1], rw), self_similar)
        if v[0] == "adt" and v[1] == "StackTrace":
            d = dict(v[3])
            fv = d.get("frames")
            if fv is not None and fv[0] == "after" and fv[1][0] == "mcall" and fv[1][1].endswith("Extend::extend") and len(fv[1][2]) == 2 \
                    and fv[1][2][0][0] == "place" and not fv[1][2][0][2]:
                # `let mut frames = Vec::with_capacity(n); frames.extend(<flat_map ..>)`: collecting into a fresh vector, spelled out
                vname = fv[1][2][0][1]
                touches = [e_ for e_ in st.effects if e_[0] == "call" and e_[2] and e_[2][0] == ("place", vname, ())]
                fresh = False
                for n_ in F.walk(b["body"]):
                    if n_.get("k") == "Block":
                        for s_ in n_["stmts"]:
                            if s_["k"] == "Let" and s_["pat"].get("k") == "Bind" and s_["pat"].get("name") == vname and s_.get("init") is not None:
                                fresh = F.is_call(F.strip(s_["init"]), "std::vec::Vec::<T>::with_capacity", "std::vec::Vec::<T>::new")
                if fresh and len(touches) == 1:
                    fv = call("std::iter::Iterator::collect", fv[1][2][1])
            if fv is not None and fv[0] == "call" and fv[1].endswith("Iterator::collect"):
                if fv not in flat_forms:
                    flat_forms[fv] = flat_map_form(fv)
                if flat_forms[fv] and flat_forms[fv][0]:
                    d["frames"] = ("FRAMES", call("core::slice::iter", mk_field(tr, "frames")), call("std::vec::Vec::with_capacity", call("std::vec::Vec::len", mk_field(tr, "frames"))))
            if fv is not None and fv[0] == "loop":
                # frames built by an explicit `for f in &trace.frames` loop instead of a fold
                if fv not in loop_forms:
                    loop_forms[fv] = frames_loop_form(fx, sy, fv, slf, tr, rf)
                okl, desc_l = loop_forms[fv]
                if okl:
                    d["frames"] = ("FRAMES", call("core::slice::iter", mk_field(tr, "frames")), call("std::vec::Vec::with_capacity", call("std::vec::Vec::len", mk_field(tr, "frames"))))
            return ("adt", "StackTrace", "StackTrace", tuple((k, d.get(k)) for k in ("exception", "frames", "cause")))
        return v
    bad, n = fc.compare_paths(res, ref, outcome, rw=rw)
    if not bad:
        rep.ok(rule, "%s/typed/%s" % (rule, impl), loc=F.short_file(b["sp"]),
               found="%d canonical paths: exception Some iff input Some (remapped, else kept unchanged); cause Some iff input Some (recursive); "
                     "frames folded from an empty vector" % len(res))
    else:
        for conds, io, ro, comp in bad[:3]:
            dio, dro = dict(io[3]) if io[0] == "adt" else {}, dict(ro[3])
            fields = [k for k in ("exception", "frames", "cause") if dio.get(k) != dro.get(k)] or ["?"]
            key = "%s/exception-shape/and_then" % rule.split(".")[0] if fields == ["exception"] and dio.get("exception") in (NONE, None) or \
                (fields == ["exception"] and "Some" not in S.tstr(dio.get("exception"))[:5]) else "%s/typed/%s/%s" % (rule, impl, "-".join(fields))
            rep.violation(rule, key if fields != ["exception"] else "%s/exception-shape/and_then" % rule.split(".")[0], loc=F.short_file(b["sp"]),
                          found="[%s] when %s: %s = %s" % (impl, S.cstr(conds), fields[0], S.tstr(dio.get(fields[0])) if dio.get(fields[0]) else None),
                          expected="%s = %s" % (fields[0], S.tstr(dro.get(fields[0]))))
    # the fold closure: remapped frames if any, else the original frame; never nothing
    if flat_forms and not folds and not loop_forms and all(flat_forms.values()):
        for fv, (okl, desc_l) in flat_forms.items():
            rep.check(rule, "%s/frames-fold/%s" % (rule, impl), okl, loc=F.short_file(b["sp"]), found=desc_l,
                      expected="per frame (flat_map over trace.frames): all of remap_frame(f)'s frames, followed by the unchanged frame iff there were none")
        return
    if loop_forms and not folds:
        for fv, (okl, desc_l) in loop_forms.items():
            rep.check(rule, "%s/frames-fold/%s" % (rule, impl), okl, loc=F.short_file(b["sp"]), found=desc_l,
                      expected="per frame (explicit loop over trace.frames from an empty vector): all of remap_frame(f)'s frames if it yields any, else push the unchanged frame")
        return
    rep.check(rule, "%s/frames-fold/%s/unique" % (rule, impl), len(folds) == 1, loc=F.short_file(b["sp"]), found="%d fold(s)" % len(folds),
              expected="frames produced by one fold over trace.frames", nontrivial=False)
    for ft in folds:
        clo = ft[2][2]
        try:
            paths = sy.apply(clo, [("bound", 0), ("bound", 1)], S.St(), {"sp": "?"})
        except S.Undecidable as e2:
            rep.undecidable(rule, "%s/frames-fold/%s/shape" % (rule, impl), loc="", construct=e2.msg)
            continue
        acc, f = ("bound", 0), ("bound", 1)
        okf = True
        desc = []
        remapped = call("std::iter::Iterator::peekable", call(S.short_path(rf), slf, f))
        for st, (k, v) in paths:
            a = fc.assignment(st.conds)
            pk = fc.canon_atom(("is", ("peek", remapped), "Some"))[0]
            has = a.get(pk)
            effs = [e_ for e_ in st.effects if e_[0] == "call"]
            desc.append("%s -> %s" % (S.cstr(st.conds), [S.tstr(e_)[:120] for e_ in effs]))
            if has is True:
                good = len(effs) == 1 and effs[0][1].endswith("Extend::extend") and effs[0][2][1] in (remapped, ("after", remapped)) or \
                    (len(effs) == 1 and effs[0][1].endswith("Extend::extend") and "remap_frame" in repr(effs[0][2][1]))
            elif has is False:
                kept = ("adt", "StackFrame", "StackFrame", tuple((fn, mk_field(f, fn)) for fn in ("class", "method", "line", "file", "parameters")))
                good = len(effs) == 1 and effs[0][1].endswith("Vec::push") and R1.canon_iter(effs[0][2][1]) == kept
            else:
                good = False
            okf = okf and good and len(effs) == 1
        rep.check(rule, "%s/frames-fold/%s" % (rule, impl), okf and len(paths) == 2, loc=F.short_file(b["sp"]), found=desc,
                  expected="per frame: extend with remap_frame(f) if it yields any frame, else push the unchanged frame; exactly one of the two on every path")


def frames_loop_form(fx, sy, fv, slf, tr, rf):
    """frames vector built by a loop: (ok, description). Accepted per-frame bodies (f = the loop element):
       A  peekable(remap_frame(f)): peek is Some -> extend(frames, it)            | else push(frames, f.clone())
       B  it = remap_frame(f):      next is Some -> push(first); extend(frames, it) | else push(frames, f.clone())
       C  n = frames.len(); extend(frames, remap_frame(f)); frames.len() == n -> push(frames, f.clone())"""
    V, idx = fv[1], fv[2]
    L = None
    for k_ in sy.loop_order:
        if sy.loops[k_]["index"] == idx:
            L = sy.loops[k_]
    if L is None:
        return False, "loop not found"
    import readers as RD
    drv = RD.driver_of_loop(L)
    frames_f = mk_field(tr, "frames")
    drv_ok = drv in (frames_f, call("core::slice::iter", frames_f), call("std::iter::IntoIterator::into_iter", frames_f))
    vid = None
    for n_ in F.walk(L["node"]["body"]):
        if n_.get("k") in ("Var", "Upvar") and n_.get("name") == V:
            vid = n_["id"]
    pre = L["pre"].env.get(vid)
    pre_ok = pre in (call("std::vec::Vec::with_capacity", call("std::vec::Vec::len", frames_f)), call("std::vec::Vec::new"),
                     call("std::vec::Vec::with_capacity", call("core::slice::len", frames_f)))
    base = len(L["entry"].conds)
    # the loop's own iterator variable (the one whose pre-loop value is the driver)
    drv_name = None
    for n_ in F.walk(L["node"]["body"]):
        if F.is_call(n_, "std::iter::Iterator::next"):
            v_ = F.strip(n_["args"][0])
            if v_.get("k") in ("Var", "Upvar") and L["pre"].env.get(v_["id"]) == drv:
                drv_name = v_["name"]
                break

    def is_drv_next(t):
        return t[0] in ("mcall", "call") and R.is_next(t[1]) and t[2] and t[2][0][0] == "place" and t[2][0][1] == drv_name

    def rw_drv(t):
        if t[0] == "payload" and t[2] == "Some" and (t[1] == R.NEXT or is_drv_next(t[1])):
            return R.ELEM
        if t[0] == "mcall" and is_drv_next(t):
            return R.NEXT
        return None
    desc = ["driver %s" % (S.tstr(drv) if drv else "?"), "initial %s" % (S.tstr(pre) if pre else "?")]
    okp = drv_ok and pre_ok
    n_some = n_none = n_end = 0
    for st, (k, v) in L["paths"]:
        conds = [(fc.rewrite(a_, rw_drv), p_) for a_, p_ in st.conds[base:]]
        effs = [fc.rewrite(e_, rw_drv) for e_ in st.effects if e_[0] == "call" and not is_drv_next(e_)]
        a_ = fc.assignment(tuple(conds))
        desc.append("%s -> %s [%s]" % (S.cstr(tuple(conds))[:160], [S.tstr(e_)[:90] for e_ in effs], k))
        if a_.get(("is", R.NEXT, "Some")) is False:
            n_end += 1
            okp = okp and k == S.BRK and not [e_ for e_ in effs if not R.is_next(e_[1])]
            continue
        f_ = R.ELEM
        kept = ("adt", "StackFrame", "StackFrame", tuple((fn, mk_field(f_, fn)) for fn in ("class", "method", "line", "file", "parameters")))
        rcall = call(S.short_path(rf), slf, f_)
        acc = [e_ for e_ in effs if not R.is_next(e_[1])]
        nexts = [e_ for e_ in effs if R.is_next(e_[1])]
        on_frames = all(e_[2][0] == ("place", V, ()) for e_ in acc)
        # which iterator test decided this path?
        pk = fc.canon_atom(("is", ("peek", call("std::iter::Iterator::peekable", rcall)), "Some"))[0]
        has = a_.get(pk)
        form = "A"
        if has is None and len(nexts) == 1 and nexts[0][2][0][0] == "place":
            nx = ("mcall",) + tuple(nexts[0][1:])
            has = a_.get(fc.canon_atom(("is", nx, "Some"))[0])
            form = "B"
        if has is None:
            # form C: extend(frames, remap_frame(f)) first, then `frames.len() == <len before>` decides whether f is kept
            for at_, val_ in a_.items():
                if at_[0] != "eq":
                    continue
                for l_, r_ in ((at_[1], at_[2]), (at_[2], at_[1])):
                    if l_[0] == "call" and l_[1].endswith("Vec::len") and l_[2][0] == ("loop", V, idx) and r_[0] == "call" and r_[1].endswith("Vec::len") \
                            and r_[2][0][0] == "after" and r_[2][0][1][0] == "mcall" and r_[2][0][1][1].endswith("Extend::extend") \
                            and r_[2][0][1][2][:2] == (("place", V, ()), rcall):
                        form = "C"
                        has = not val_          # equal lengths: remap_frame yielded nothing
        if form == "C" and k == S.CONT and on_frames:
            ext_first = acc and acc[0][1].endswith("Extend::extend") and acc[0][2][1] == rcall
            if has:
                n_some += 1
                okp = okp and ext_first and len(acc) == 1
            else:
                n_none += 1
                okp = okp and ext_first and len(acc) == 2 and acc[1][1].endswith("Vec::push") and R1.canon_iter(acc[1][2][1]) == kept
            continue
        if k != S.CONT or not on_frames or has is None:
            okp = False
            continue
        if has is False:
            n_none += 1
            okp = okp and len(acc) == 1 and acc[0][1].endswith("Vec::push") and R1.canon_iter(acc[0][2][1]) == kept
        elif form == "A":
            n_some += 1
            okp = okp and len(acc) == 1 and acc[0][1].endswith("Extend::extend") and "remap_frame" in repr(acc[0][2][1])
        else:
            n_some += 1
            okp = okp and len(acc) == 2 and acc[0][1].endswith("Vec::push") and acc[0][2][1] == mk_payload(nx, "Some", "0") \
                and acc[1][1].endswith("Extend::extend") and acc[1][2][1][:2] == ("after", nx)
            # the iterator `next` was called on is remap_frame(f) itself
            it_pl = nexts[0][2][0]
            itv = None
            # (the per-frame body may live in a private helper the loop calls: `self.push_remapped_frames(frame, &mut frames)`)
            scan_ = [L["node"]["body"]]
            for c_ in F.walk(L["node"]["body"]):
                if c_.get("k") == "Call" and "fn" in c_:
                    t_ = fx.by_dp.get(c_["fn"].get("dp"))
                    if t_ in fx.bodies and fx.bodies[t_]["krate"] == "proguard" and t_ != rf:
                        scan_.append(fx.bodies[t_]["body"])
            for n_ in (y_ for sb_ in scan_ for y_ in F.walk(sb_)):
                if n_.get("k") == "Block":
                    for s_ in n_["stmts"]:
                        if s_["k"] == "Let" and s_["pat"].get("k") == "Bind" and s_["pat"].get("name") == it_pl[1] and s_.get("init") is not None:
                            itv = F.strip(s_["init"])
            okp = okp and itv is not None and itv.get("k") == "Call" and "fn" in itv and fx.by_dp.get(itv["fn"].get("dp")) == rf
    okp = okp and n_some == 1 and n_none == 1 and n_end == 1
    return okp, desc


def semantic_templates(fx, path):
    """the format templates a function writes, read off its evaluated effects (private helpers inlined, `{}` filled with a
    string literal folded into the text); None if the body cannot be evaluated"""
    sy = S.Sym(fx, inline_mut=True)
    try:
        res = sy.eval_body(fx.bodies[path])
    except S.Undecidable:
        return None
    out = set()

    def grab(effects):
        for e in effects:
            if e[0] == "call" and e[1].endswith("write_fmt") and len(e[2]) > 1 and e[2][1][0] == "fmtargs":
                out.add("".join(p[1] if p[0] == "txt" else "{}" for p in e[2][1][1]))
            if e[0] == "call" and e[1].endswith("Iterator::try_for_each") and len(e[2]) > 1 and e[2][1][0] == "closure":
                try:
                    for st2, o2 in sy.apply(e[2][1], [("bound", 0)], S.St(), {"sp": "?"}):
                        grab(st2.effects)
                except S.Undecidable:
                    pass
    def calls_in(t, acc):
        if isinstance(t, tuple) and t:
            if t[0] == "call" and len(t) > 2 and isinstance(t[1], str) and t[1].endswith("Iterator::try_for_each"):
                acc.append(t)
            for x in t:
                if isinstance(x, tuple):
                    calls_in(x, acc)
    for st, o in res:
        grab(st.effects)
        # a try_for_each over a temporary iterator is a value (the function's result, or the operand of `?`), not an effect on a place
        acc = []
        calls_in(o[1], acc)
        for a_, p_ in st.conds:
            calls_in(a_, acc)
        grab(acc)
    for k_ in sy.loop_order:
        for st, o in sy.loops[k_]["paths"]:
            grab(st.effects)
    return sorted(out)


def check_display_templates(fx, rep, rule):
    """C08.4: Display for StackTrace prints what the text API prints, piecewise"""
    disp = A.method(fx, "stacktrace::StackTrace", "fmt", trait="Display")
    p = A.one(rep, rule, "Display for StackTrace", disp)
    if not p:
        return
    rep.fn(p)
    dt = sorted(set(semantic_templates(fx, p) or templates_in(fx, p)))
    text = {}
    for nm in ("format_throwable", "format_frames", "format_cause"):
        c = A.func(fx, "mapper", nm)
        if len(c) == 1:
            text[nm] = sorted(set(semantic_templates(fx, c[0]) or templates_in(fx, c[0])))
            rep.fn(c[0])
    want_disp = ["    {}\n", "Caused by: {}", "{}\n"]
    rep.check(rule, "%s/templates/display" % rule, dt == sorted(want_disp), loc=F.short_file(fx.bodies[p]["sp"]), found="Display templates %s" % dt,
              expected="%s (cause line = 'Caused by: ' + nested trace, whose first line ends with \\n)" % sorted(want_disp))
    want_text = {"format_throwable": ["{}\n"], "format_frames": ["    {}\n", "{}\n"], "format_cause": ["Caused by: {}\n", "{}\n"]}
    rep.check(rule, "%s/templates/text-api" % rule, text == want_text, loc="src/mapper.rs", found="text API templates %s" % text,
              expected="%s" % want_text)
    # both print Throwable / StackFrame through the same Display impls: the argument kinds are `display`
    sy = S.Sym(fx)
    n_dbg = 0
    for q in [p] + [c for nm in text for c in A.func(fx, "mapper", nm)]:
        for n in F.walk(fx.bodies[q]["body"]):
            if n.get("k") == "Call" and "fn" in n and n["fn"]["path"].endswith("Argument::<'_>::new_debug"):
                n_dbg += 1
    rep.check(rule, "%s/templates/display-args" % rule, n_dbg == 0, found="%d Debug-formatted argument(s)" % n_dbg,
              expected="all trace elements are printed with Display", nontrivial=False)


# ---- C07 -------------------------------------------------------------------------------------------------------
def out_ops(st, sink_name):
    """effectful calls that append to the output string"""
    ops = []
    for e in st.effects:
        if e[0] == "call" and e[2] and e[2][0] == ("place", sink_name, ()):
            ops.append(e)
    return ops


def check_text_api(fx, rep, rule, impl):
    p = A.one(rep, rule, impl + "::remap_stacktrace", A.method(fx, recv(impl), "remap_stacktrace"))
    if not p:
        return
    rep.fn(p)
    b = fx.bodies[p]
    rt, rf = sp(fx, recv(impl), "remap_throwable"), sp(fx, recv(impl), "remap_frame")
    pt, pf = A.func(fx, "stacktrace", "parse_throwable"), A.func(fx, "stacktrace", "parse_frame")
    fmts = {nm: A.func(fx, "mapper", nm) for nm in ("format_throwable", "format_frames", "format_cause")}
    if not (rt and rf and len(pt) == 1 and len(pf) == 1 and all(len(v) == 1 for v in fmts.values())):
        A.one(rep, rule, "helpers of remap_stacktrace", [])
        return
    opaque = {rt, rf, pt[0], pf[0]} | {v[0] for v in fmts.values()}
    sy = S.Sym(fx, opaque=lambda q: q in opaque, inline_mut=True)
    try:
        res = sy.eval_body(b)
    except S.Undecidable as e:
        rep.undecidable(rule, "%s/text/%s/shape" % (rule, impl), loc=F.loc(e.node) if isinstance(e.node, dict) else "", construct=e.msg)
        return
    L = None
    if len(sy.loop_order) == 0:
        # `lines.try_for_each(|line| ..)?` instead of a `for` loop: one closure application per remaining line, the first Err ends
        # the function (what `?` in a loop body does)
        tfes = {e[:3] for st, o in res for e in st.effects if e[0] == "call" and e[1].endswith("Iterator::try_for_each") and len(e[2]) == 2
                and e[2][0][0] == "place" and e[2][1][0] == "closure"}
        if len({(e[1], e[2][0], e[2][1][1]) for e in tfes}) == 1:
            tfe = sorted(tfes, key=repr)[0]
            nxt = ("mcall", "std::iter::Iterator::next", (tfe[2][0],), 900)
            some_st = S.St(conds=((("is", nxt, "Some"), True),))
            try:
                cps = sy.apply(tfe[2][1], [mk_payload(nxt, "Some", "0")], some_st, {"sp": "?"})
            except S.Undecidable as e:
                rep.undecidable(rule, "%s/text/%s/shape" % (rule, impl), loc=F.short_file(b["sp"]), construct="try_for_each closure: %s" % e.msg)
                return
            L = dict(paths=[(st2, (S.CONT, None)) for st2, o2 in cps] + [(S.St(conds=((("is", nxt, "Some"), False),)), (S.BRK, None))],
                     entry=S.St(), pre=None, index=-1, node=None, synthetic=tfe)
    if L is None and len(sy.loop_order) != 1:
        rep.undecidable(rule, "%s/text/%s/shape" % (rule, impl), loc=F.short_file(b["sp"]), construct="%d loops (expected one loop over the remaining lines)" % len(sy.loop_order))
        return
    if L is None:
        L = sy.loops[sy.loop_order[0]]
    slf = ("in", "self")
    PT, PF = S.short_path(pt[0]), S.short_path(pf[0])
    FT, FF, FC_ = (S.short_path(fmts[k][0]) for k in ("format_throwable", "format_frames", "format_cause"))
    RT, RF = S.short_path(rt), S.short_path(rf)
    # sink: the String returned in Ok(..)
    sink = None
    for st, (k, v) in res:
        if v[0] == "adt" and v[2] == "Ok":
            t = v[3][0][1]
            while t[0] in ("after",):
                t = t[1]
            sink = "stacktrace"
    # find the sink variable name from the first output op
    names = set()
    for st, o in L["paths"] + res:
        for e in st.effects:
            if e[0] == "call" and e[2] and e[2][0][0] == "place" and (e[1] in (FT, FF, FC_) or e[1].endswith("write_fmt")):
                names.add(e[2][0][1])
    if len(names) != 1:
        rep.undecidable(rule, "%s/text/%s/sink" % (rule, impl), loc=F.short_file(b["sp"]), construct="output goes to %s" % sorted(names))
        return
    sink = list(names)[0]
    OUT = ("place", sink, ())
    sink_is_string = any(s_["k"] == "Let" and s_["pat"].get("k") == "Bind" and s_["pat"].get("name") == sink and (s_["pat"].get("ty") or "") == "std::string::String"
                         for n_ in F.walk(b["body"]) if n_.get("k") == "Block" for s_ in n_["stmts"])

    def verbatim(line):
        return ("write_fmt", ("fmtargs", (("hole",), ("txt", "\n")), (("display", line),)))

    def norm_op(e):
        name, args = e[1], e[2]
        if name.endswith("Write::write_fmt"):
            return ("write_fmt", args[1])
        # appending to the output `String` directly: the same text a `write!` of it appends (a String sink cannot fail)
        if name == "std::string::String::push_str" and len(args) == 2:
            a_ = args[1]
            return ("write_fmt", ("fmtargs", (("txt", a_[2]),), ()) if (a_[0] == "lit" and a_[1] == "str") else ("fmtargs", (("hole",),), (("display", a_),)))
        if name == "std::string::String::push" and len(args) == 2 and args[1][0] == "lit" and args[1][1] == "char":
            return ("write_fmt", ("fmtargs", (("txt", args[1][2]),), ()))
        return (name,) + tuple(args[1:])

    def merge_text(ops):
        """consecutive appends are one append of the concatenation"""
        out = []
        for o_ in ops:
            if o_[0] == "write_fmt" and o_[1][0] == "fmtargs" and out and out[-1][0] == "write_fmt" and out[-1][1][0] == "fmtargs":
                a_, b_ = out[-1][1], o_[1]
                pcs = list(a_[1])
                for pc in b_[1]:
                    if pc[0] == "txt" and pcs and pcs[-1][0] == "txt":
                        pcs[-1] = ("txt", pcs[-1][1] + pc[1])
                    else:
                        pcs.append(pc)
                out[-1] = ("write_fmt", ("fmtargs", tuple(pcs), tuple(a_[2]) + tuple(b_[2])))
            else:
                out.append(o_)
        return out

    import readers as RD_
    drv_ = RD_.driver_of_loop(L) if L.get("node") is not None else None
    enum_form = drv_ is not None and drv_[0] == "call" and drv_[1] == "std::iter::Iterator::enumerate" and len(drv_[2]) == 1 \
        and drv_[2][0][0] == "call" and drv_[2][0][1] == "core::str::lines"
    LINE = mk_field(R.ELEM, "1") if enum_form else R.ELEM
    # one loop over `input.lines()` with a "first line" flag (true before the loop, false after every iteration)
    flags = RD_.first_iteration_flags(sy, L) if not enum_form else []
    flag_form = len(flags) == 1 and drv_ is not None and drv_[0] == "call" and drv_[1] == "core::str::lines"
    single_loop = enum_form or flag_form

    def ref_line(first):
        def ref(o):
            if not o(("is", R.NEXT, "Some")):
                return ("no-line",)
            line = LINE
            if first is None:
                # one loop over `input.lines().enumerate()`: index 0 is the first line, every other index a later line
                if flag_form:
                    return ref_line(bool(o(("bool", flags[0][0]))) == flags[0][1])(o)
                return ref_line(bool(o(("eq", mk_field(R.ELEM, "0"), lit_int(0)))))(o)
            t = call(PT, line)
            f = call(PF, line)
            if first:
                if o(("is", t, "Some")):
                    return ((FT, line, call(RT, slf, mk_payload(t, "Some", "0"))),)
                if o(("is", f, "Some")):
                    return ((FF, line, call(RF, slf, mk_payload(f, "Some", "0"))),)
                return (verbatim(line),)
            if o(("is", f, "Some")):
                return ((FF, line, call(RF, slf, mk_payload(f, "Some", "0"))),)
            strp = call("core::str::strip_prefix", line, ("lit", "str", "Caused by: "))
            if o(("is", strp, "Some")):
                c = call(PT, mk_payload(strp, "Some", "0"))
                if o(("is", c, "Some")):
                    return ((FC_, line, call(RT, slf, mk_payload(c, "Some", "0"))),)
            return (verbatim(line),)
        return ref

    def outcome(st, out):
        ops = [fc.rewrite(norm_op(e), R.rw_iter) for e in out_ops(st, sink)]
        if sink_is_string and len(ops) > 1:
            ops = merge_text(ops)
        k, v = out
        if not ops and k in (S.BRK,):
            return ("no-line",)
        if not ops:
            a = fc.assignment(st.conds, R.rw_iter)
            if a.get(("is", R.NEXT, "Some")) is False:
                return ("no-line",)
        return tuple(ops)
    base = len(L["entry"].conds)
    bad, n = fc.compare_paths(L["paths"], ref_line(None if single_loop else False), outcome, rw=R.rw_iter, base=base)
    report_lines(rep, rule, "%s/text/%s/later-lines" % (rule, impl), b, L["paths"], bad,
                 "frame line -> format_frames(remap_frame); else 'Caused by: ' + throwable -> format_cause(remap_throwable); else the line "
                 "verbatim; exactly one output operation per input line")
    # first line: the `if let Some(line) = lines.next() { .. }` statement before the loop, as its own fragment
    first_stmt = None
    top = F.strip(b["body"])
    if top.get("k") == "Block":
        for stt in top["stmts"]:
            if stt["k"] == "Expr":
                e0 = F.strip(stt["e"])
                if e0.get("k") == "If" and F.strip(e0["cond"]).get("k") == "LetExpr" and F.is_call(F.strip(F.strip(e0["cond"])["e"]), "std::iter::Iterator::next"):
                    first_stmt = e0
                    break
    if single_loop:
        pre_ops = [e for st, o in res for e in st.effects[:next((i for i, x in enumerate(st.effects) if x[0] in ("loopsum", "inloop")), len(st.effects))]
                   if e[0] == "call" and e[2] and e[2][0] == OUT]
        rep.check(rule, "%s/text/%s/first-line" % (rule, impl), not pre_ops, loc=F.short_file(b["sp"]),
                  found="single loop over input.lines()%s; %s takes the first-line rules; %d output operation(s) before the loop"
                  % (".enumerate()" if enum_form else "", "index 0" if enum_form else "the iteration in which flag `%s` still has its initial value" % S.tstr(flags[0][0]), len(pre_ops)),
                  expected="the first line is handled inside the loop and nothing is written before it")
    elif first_stmt is None:
        # the first-line fragment is not a statement of this function (the body is delegated to a helper): it is read off the
        # function-level paths instead - everything that happens before the line loop is entered
        fp, seen_fp = [], set()
        for st_, (k_, v_) in res:
            marks = [i_ for i_, e_ in enumerate(st_.effects) if e_[0] in ("loopsum", "inloop")]
            if marks and st_.effects[marks[0]][0] == "inloop":
                continue
            pre_effs = st_.effects[:marks[0]] if marks else st_.effects
            key_ = (st_.conds, pre_effs)        # (an after-loop path carries exactly its own pre-loop conditions)
            if key_ in seen_fp:
                continue
            seen_fp.add(key_)
            fp.append((S.St(conds=key_[0], effects=pre_effs), (S.VAL, None)))
        has_first = any(e_[0] == "call" and R.is_next(e_[1]) for st_, o_ in fp for e_ in st_.effects)
        if not fp or not has_first:
            rep.undecidable(rule, "%s/text/%s/first-line/shape" % (rule, impl), loc=F.short_file(b["sp"]),
                            construct="no `lines.next()` before the loop")
        else:
            bad, n = fc.compare_paths(fp, ref_line(True), outcome, rw=R.rw_iter)
            report_lines(rep, rule, "%s/text/%s/first-line" % (rule, impl), b, fp, bad,
                         "throwable -> format_throwable(remap_throwable); else frame -> format_frames(remap_frame); else verbatim")
    else:
        sy2 = S.Sym(fx, opaque=lambda q: q in opaque, inline_mut=True)
        fp = sy2.ev(first_stmt, S.St())
        bad, n = fc.compare_paths(fp, ref_line(True), outcome, rw=R.rw_iter)
        report_lines(rep, rule, "%s/text/%s/first-line" % (rule, impl), b, fp, bad,
                     "throwable -> format_throwable(remap_throwable); else frame -> format_frames(remap_frame); else verbatim")
    # C07.3 discipline: lines = input.lines(); Ok(<sink>) is the only non-error value; every fmt::Result is propagated
    oks = [(st, v) for st, (k, v) in res if v[0] == "adt" and v[2] == "Ok"]
    errs = [(st, v) for st, (k, v) in res if v[0] == "adt" and v[2] == "Err"]
    ok_ret = oks and all(len(res) == len(oks) + len(errs) for _ in [0])
    # every success went through the line loop (or its try_for_each form): an Ok that returns before it answers for input it has
    # not looked at line by line (`if self.classes.is_empty() { return Ok(input.to_owned()) }`)
    def through_lines(st_):
        if L.get("synthetic"):
            # (the same consumer call on every path: its closure value differs only in what it captured on the way)
            k_ = (L["synthetic"][1], L["synthetic"][2][0], L["synthetic"][2][1][1])
            return any((e_[1], e_[2][0], e_[2][1][1]) == k_ for e_ in st_.effects
                       if e_[0] == "call" and len(e_[2]) == 2 and e_[2][1][0] == "closure")
        return ("loopsum", L["index"]) in st_.effects
    early = [st_ for st_, v_ in oks if not through_lines(st_)]
    rep.check(rule, "%s/text/%s/returns" % (rule, impl), bool(ok_ret) and not early, loc=F.short_file(b["sp"]),
              found="%d Ok path(s), %d Err path(s), %d other; %d Ok path(s) return before the line loop%s"
              % (len(oks), len(errs), len(res) - len(oks) - len(errs), len(early), (": when " + S.cstr(early[0].conds)[:200]) if early else ""),
              expected="Ok(output) only after the last line was processed; Err only by propagating a fmt::Error")
    import effects as E
    uses = E.result_uses(b, r"std::fmt::Error")
    for n_, verdict, how in uses:
        rep.check(rule, "%s/text/%s/propagate/%s" % (rule, impl, F.pp(n_)[:60]), verdict in ("propagated", "returned"), loc=F.loc(n_),
                  found="%s: %s" % (verdict, how), expected="fmt::Result propagated with `?`", nontrivial=False)
    # the line source
    src = None
    # (the function and the private helpers its body is delegated to)
    scan_bodies = [b] + [fx.bodies[q] for q in sorted(fx.reachable([p], enter=lambda q: q not in opaque)) if q != p and fx.bodies[q]["krate"] == "proguard"
                         and q not in opaque and "{closure" not in q and fx.bodies[q].get("kind") in ("Fn", "AssocFn") and not fx.bodies[q].get("reachable_pub")]
    for sb_ in scan_bodies:
        for n_ in F.walk(sb_["body"]):
            if F.is_call(n_, "core::str::<impl str>::lines"):
                src = n_
    adaptors = [n_["fn"]["path"].split("::")[-1] for sb_ in scan_bodies for n_ in F.walk(sb_["body"]) if n_.get("k") == "Call" and "fn" in n_ and
                n_["fn"]["path"].startswith("std::iter::Iterator::") and n_["fn"]["path"].split("::")[-1] not in ("next",)]
    if enum_form:
        adaptors = [x for x in adaptors if x != "enumerate"]
    if L.get("synthetic"):
        adaptors = [x for x in adaptors if x != "try_for_each"]     # the consumer itself (checked above as the loop)
    rep.check(rule, "%s/text/%s/line-source" % (rule, impl), src is not None and not adaptors, loc=F.short_file(b["sp"]),
              found="lines() call: %s; iterator adaptors in the body: %s" % (bool(src), adaptors),
              expected="one `input.lines()` iterator, consumed by next() and a for loop, no adaptor (no skip/take/filter/rev)")


def report_lines(rep, rule, key, b, paths, bad, what):
    if not bad:
        rep.ok(rule, key, loc=F.short_file(b["sp"]), found="%d canonical paths equal the reference: %s" % (len(paths), what))
    else:
        for conds, io, ro, comp in bad[:3]:
            rep.violation(rule, key + "/" + R1.short_hash(S.cstr(conds) + repr(io)), loc=F.short_file(b["sp"]),
                          found="when %s: output ops %s" % (S.cstr(tuple((fc.rewrite(a, R.rw_iter), p) for a, p in conds))[-500:], [S.tstr(x)[:200] for x in io]),
                          expected="output ops %s" % [S.tstr(x)[:200] for x in ro])


def check_format_helpers(fx, rep, rule):
    """C07.2: every helper writes the remapped value or the original line - exactly one group"""
    for nm, tpl, val in (("format_throwable", (("hole",), ("txt", "\n")), "throwable"), ("format_cause", (("txt", "Caused by: "), ("hole",), ("txt", "\n")), "cause")):
        c = A.func(fx, "mapper", nm)
        p = A.one(rep, rule, "mapper::" + nm, c)
        if not p:
            continue
        rep.fn(p)
        b = fx.bodies[p]
        sy = S.Sym(fx, inline_mut=True)
        res = sy.eval_body(b)
        names = [prm["pat"]["name"] for prm in b["params"] if prm.get("pat")]
        out, line, opt = ("place", names[0], ()), ("in", names[1]), ("in", names[2])

        def ref(o):
            if o(("is", opt, "Some")):
                return (("write_fmt", ("fmtargs", tpl, (("display", mk_payload(opt, "Some", "0")),))),)
            return (("write_fmt", ("fmtargs", (("hole",), ("txt", "\n")), (("display", line),))),)

        def outcome(st, o_):
            return tuple(("write_fmt", e[2][1]) for e in st.effects if e[0] == "call" and e[1].endswith("write_fmt"))
        bad, n = fc.compare_paths(res, ref, outcome)
        report_lines(rep, rule, "%s/helper/%s" % (rule, nm), b, res, bad, "Some(x) -> one line with the remapped value, None -> the input line unchanged")
    c = A.func(fx, "mapper", "format_frames")
    p = A.one(rep, rule, "mapper::format_frames", c)
    if p:
        rep.fn(p)
        b = fx.bodies[p]
        sy = S.Sym(fx)
        res = sy.eval_body(b)
        if any(e_[0] == "call" and e_[1].startswith("proguard::") for st_, o_ in res for e_ in st_.effects):
            # a private writer helper (`keep_line(out, line)`) is evaluated through
            sy = S.Sym(fx, inline_mut=True)
            res = sy.eval_body(b)
        names = [prm["pat"]["name"] for prm in b["params"] if prm.get("pat")]
        line, it = ("in", names[1]), ("in", names[2])
        ok_, desc = format_frames_forms(fx, sy, res, line, it, names[2])
        rep.check(rule, "%s/helper/format_frames" % rule, ok_, loc=F.short_file(b["sp"]), found=desc,
                  expected="no remapped frame -> the input line once; otherwise one four-space-indented line per remapped frame, in order")


def format_frames_forms(fx, sy, res, line, it, it_name):
    """accepted shapes of format_frames (all: nothing remapped -> the input line verbatim once; else one indented line per frame):
       A  peekable + peek().is_none() early return, then `for f in it`
       B  `let Some(first) = it.next() else { verbatim }`, indented(first), then `for f in it`
       C  peekable + peek().is_some() -> it.try_for_each(|f| indented(f)), else verbatim"""
    VERB = ("fmtargs", (("hole",), ("txt", "\n")), (("display", line),))

    def indented(x):
        return ("fmtargs", (("txt", "    "), ("hole",), ("txt", "\n")), (("display", x),))
    pk = fc.canon_atom(("is", ("peek", call("std::iter::Iterator::peekable", it)), "Some"))[0]
    desc = []
    okf = True
    n_empty = n_some = 0
    loops = [sy.loops[k_] for k_ in sy.loop_order]
    if len(loops) > 1:
        return False, ["%d loops" % len(loops)]
    # form E: `let mut any = false; for f in it { indented(f)?; any = true; } if any { Ok(()) } else { verbatim }` - the flag is
    # false before the loop and true at the end of every iteration that continues, so after the loop it says "at least one frame"
    import readers as RD_
    seen_flag = None
    if len(loops) == 1:
        fl_ = [t_ for t_, b_ in RD_.first_iteration_flags(sy, loops[0]) if b_ is False]
        if len(fl_) == 1:
            seen_flag = fc.canon_atom(("bool", fl_[0]))[0]
    for st, (k, v) in res:
        a = fc.assignment(st.conds)
        pre = []
        for e in st.effects:
            if e[0] in ("loopsum", "inloop"):
                break
            pre.append(e)
        if any(e[0] == "inloop" for e in st.effects):
            continue        # exits from inside the loop (a failed write): covered by the per-iteration paths
        w = [e for e in pre if e[0] == "call" and e[1].endswith("write_fmt")]
        nexts = [e for e in pre if e[0] == "call" and R.is_next(e[1]) and e[2][0] == ("place", it_name, ())]
        tfe = [e for e in pre if e[0] == "call" and e[1].endswith("Iterator::try_for_each")]
        has = a.get(pk)
        nx = None
        if has is None and seen_flag is not None and a.get(seen_flag) is not None and any(e[0] == "loopsum" for e in st.effects):
            # (after the flag loop: whatever is written now comes after all the frames)
            post = st.effects[[i_ for i_, e_ in enumerate(st.effects) if e_[0] == "loopsum"][-1] + 1:]
            wpost = [e for e in post if e[0] == "call" and e[1].endswith("write_fmt")]
            if a.get(seen_flag) is True:
                good = not wpost and not w
                n_some += 1
                desc.append("frames: flag loop, nothing written after it")
            else:
                good = len(wpost) == 1 and wpost[0][2][1] == VERB and not w
                n_empty += 1
                desc.append("no frames (flag still false): %s" % [S.tstr(e)[:80] for e in wpost])
            okf = okf and good
            continue
        if has is None and nexts:
            nx = ("mcall",) + tuple(nexts[0][1:])
            has = a.get(fc.canon_atom(("is", nx, "Some"))[0])
        if has is False:
            n_empty += 1
            good = len(w) == 1 and w[0][2][1] == VERB and not tfe and not any(e[0] == "loopsum" for e in st.effects)
            desc.append("no frames: %s" % [S.tstr(e)[:80] for e in w])
        elif has is True:
            def closure_writes_indented(clo):
                if clo[0] != "closure":
                    return False
                try:
                    paths = sy.apply(clo, [("bound", 0)], S.St(), {"sp": "?"})
                except S.Undecidable:
                    return False
                cw = [[e for e in st2.effects if e[0] == "call"] for st2, o2 in paths]
                return len(paths) == 1 and len(cw[0]) == 1 and cw[0][0][1].endswith("write_fmt") and cw[0][0][2][1] == indented(("bound", 0)) \
                    and paths[0][1][1] == ("mcall",) + tuple(cw[0][0][1:])
            # form D: the first frame was taken with next(); `once(first).chain(rest).try_for_each(|f| indented(f))` is the value
            chained = nx is not None and v[0] == "call" and v[1].endswith("Iterator::try_for_each") and len(v[2]) == 2 and \
                v[2][0] in (call("std::iter::Iterator::chain", call("std::iter::once", mk_payload(nx, "Some", "0")), ("after", nx)),
                            call("std::iter::Iterator::chain", call("std::iter::once", mk_payload(nx, "Some", "0")), ("after", nx, 0)))
            if chained:
                good = not w and not tfe and closure_writes_indented(v[2][1])
                desc.append("frames: once(first).chain(rest).try_for_each(|f| indented(f)): %s" % good)
                n_some += 1
            elif tfe:
                clo = tfe[0][2][1]
                good = len(w) == 0 and len(tfe) == 1 and closure_writes_indented(clo) and \
                    tfe[0][2][0] in (("place", it_name, ()), it, call("std::iter::Iterator::peekable", it)) or \
                    (len(w) == 0 and len(tfe) == 1 and closure_writes_indented(clo) and tfe[0][2][0][0] == "place")
                desc.append("frames: try_for_each(|f| indented(f)): %s" % good)
                n_some += 1
            else:
                # the failed-first-write exit has no loopsum; the normal path continues into the loop
                first_ok = (nx is None and not w) or (nx is not None and len(w) == 1 and w[0][2][1] == indented(mk_payload(nx, "Some", "0")))
                good = first_ok
                if any(e[0] == "loopsum" for e in st.effects):
                    n_some += 1
                desc.append("frames: first %s" % ([S.tstr(e)[:80] for e in w] or "left to the loop"))
        else:
            good = False
            desc.append("undecided emptiness test on a path")
        okf = okf and good
    for L in loops:
        for st, (k, v) in L["paths"]:
            a = fc.assignment(st.conds, R.rw_iter)
            w = [fc.rewrite(e, R.rw_iter) for e in st.effects if e[0] == "call" and e[1].endswith("write_fmt")]
            if a.get(("is", R.NEXT, "Some")) is True:
                good = len(w) == 1 and w[0][2][1] == indented(R.ELEM)
                okf = okf and good
                desc.append("per frame: %s" % [S.tstr(e)[:80] for e in w])
            else:
                okf = okf and not w
        import readers as RD
        drv = RD.driver_of_loop(L)
        okd = drv is not None and (drv == it or drv == call("std::iter::Iterator::peekable", it) or (drv[0] in ("after", "place") and it_name in repr(drv)))
        okf = okf and okd
        desc.append("loop over %s" % (S.tstr(drv)[:80] if drv else "?"))
    okf = okf and n_empty >= 1 and n_some >= 1
    return okf, desc


# ---- C07.6: the two line classifiers as decision structures (delimiters, split directions) ---------------------------
def check_classifiers(fx, rep, rule):
    # parse_frame: `at <class>.<method>(<file>:<line>)` after trim; last '.', first '(', first ':'
    p = A.one(rep, rule, "stacktrace::parse_frame", A.func(fx, "stacktrace", "parse_frame"))
    if p:
        rep.fn(p)
        b = fx.bodies[p]
        sy = S.Sym(fx)
        try:
            res = sy.eval_body(b)
        except S.Undecidable as e:
            rep.undecidable(rule, "%s/parse_frame/shape" % rule, loc=F.loc(e.node) if isinstance(e.node, dict) else "", construct=e.msg)
            res = None
        if res is not None:
            line = ("in", b["params"][0]["pat"]["name"])
            t = call("core::str::trim", line)
            mid = call("std::ops::Index::index", t, ("adt", "Range", "Range", (("start", lit_int(3)), ("end", S.lin_norm([(call("core::str::len", t), 1)], -1)))))

            def ref(o, variant=0):
                if variant == 0:
                    if not o(("bool", call("core::str::starts_with", t, ("lit", "str", "at ")))) or not o(("bool", call("core::str::ends_with", t, ("lit", "char", ")")))):
                        return NONE
                    mid_ = mid
                else:
                    # the same text, obtained with strip_prefix("at ") / strip_suffix(')') (equal for every string: "at " does not end in ')')
                    sp_ = call("core::str::strip_prefix", t, ("lit", "str", "at "))
                    if not o(("is", sp_, "Some")):
                        return NONE
                    ss_ = call("core::str::strip_suffix", mk_payload(sp_, "Some", "0"), ("lit", "char", ")"))
                    if not o(("is", ss_, "Some")):
                        return NONE
                    mid_ = mk_payload(ss_, "Some", "0")
                return ref_tail(o, mid_)

            def ref_tail(o, mid):
                s1 = call("core::str::split_once", mid, ("lit", "char", "("))
                if not o(("is", s1, "Some")):
                    return NONE
                ms, fs = mk_field(mk_payload(s1, "Some", "0"), "0"), mk_field(mk_payload(s1, "Some", "0"), "1")
                s2 = call("core::str::rsplit_once", ms, ("lit", "char", "."))
                if not o(("is", s2, "Some")):
                    return NONE
                s3 = call("core::str::split_once", fs, ("lit", "char", ":"))
                if not o(("is", s3, "Some")):
                    return NONE
                ln = call("core::str::parse::<usize>", mk_field(mk_payload(s3, "Some", "0"), "1"))
                if not o(("is", ln, "Ok")):
                    return NONE
                return some(("adt", "StackFrame", "StackFrame", (("class", mk_field(mk_payload(s2, "Some", "0"), "0")), ("method", mk_field(mk_payload(s2, "Some", "0"), "1")),
                                                                 ("line", mk_payload(ln, "Ok", "0")), ("file", some(mk_field(mk_payload(s3, "Some", "0"), "0"))),
                                                                 ("parameters", NONE))))
            bad, n = fc.compare_paths(res, ref, lambda st, out: R1.canon_iter(out[1]))
            if bad:
                bad2, n2 = fc.compare_paths(res, lambda o: ref(o, 1), lambda st, out: R1.canon_iter(out[1]))
                if not bad2:
                    bad = bad2
            R1.report_cmp(rep, rule, "%s/parse_frame" % rule, b, res, bad,
                          "trim; 'at ' ... ')'; method part / file part at the first '('; class.method at the LAST '.'; file:line at the first ':'; line parsed as usize")
    # parse_throwable: `<class>[: <message>]` after trim; split at the FIRST ": "; class without spaces
    p = A.one(rep, rule, "stacktrace::parse_throwable", A.func(fx, "stacktrace", "parse_throwable"))
    if p:
        rep.fn(p)
        b = fx.bodies[p]
        sy = S.Sym(fx)
        try:
            res = sy.eval_body(b)
        except S.Undecidable as e:
            rep.undecidable(rule, "%s/parse_throwable/shape" % rule, loc=F.loc(e.node) if isinstance(e.node, dict) else "", construct=e.msg)
            return
        line = ("in", b["params"][0]["pat"]["name"])
        t = call("core::str::trim", line)
        so = call("core::str::split_once", t, ("lit", "str", ": "))

        def ref_t(o):
            if o(("is", so, "Some")):
                cls, msg = mk_field(mk_payload(so, "Some", "0"), "0"), some(mk_field(mk_payload(so, "Some", "0"), "1"))
            else:
                cls, msg = t, NONE
            if o(("bool", call("core::str::contains", cls, ("lit", "char", " ")))):
                return NONE
            return some(("adt", "Throwable", "Throwable", (("class", cls), ("message", msg))))
        bad, n = fc.compare_paths(res, ref_t, lambda st, out: out[1])
        eff = [e for st, o in res for e in st.effects]
        rep.check(rule, "%s/parse_throwable/pure" % rule, not eff, loc=F.short_file(b["sp"]), found=[S.tstr(e)[:100] for e in eff[:3]] or "no effects",
                  expected="the classifier is a pure function of the line", nontrivial=False)
        R1.report_cmp(rep, rule, "%s/parse_throwable" % rule, b, res, bad,
                      "trim; split once at the FIRST \": \" (splitn(2) or split_once); class = first piece (rejected if it contains a space), message = the optional rest")


def check_element_display(fx, rep, rule):
    """Display for StackFrame / Throwable: templates and argument wiring (what both the text and the typed API print)"""
    slf = ("in", "self")
    p = A.one(rep, rule, "Display for StackFrame", A.method(fx, "stacktrace::StackFrame", "fmt", trait="Display"))
    if p:
        rep.fn(p)
        res = S.Sym(fx).eval_body(fx.bodies[p])
        good = False
        desc = []
        for st, (k, v) in res:
            w = [e for e in st.effects if e[0] == "call" and e[1].endswith("write_fmt")]
            desc.append([S.tstr(e[2][1])[:160] for e in w])
        # one write on every path; template and argument order fixed; file falls back to "<unknown>"
        want_tpl = (("txt", "at "), ("hole",), ("txt", "."), ("hole",), ("txt", "("), ("hole",), ("txt", ":"), ("hole",), ("txt", ")"))
        okc = bool(res)
        for st, (k, v) in res:
            w = [e for e in st.effects if e[0] == "call" and e[1].endswith("write_fmt")]
            a_ = fc.assignment(st.conds)
            has_file = a_.get(("is", mk_field(slf, "file"), "Some"))
            want_file = mk_payload(mk_field(slf, "file"), "Some", "0") if has_file else ("lit", "str", "<unknown>")
            # the canonical fmtargs form folds literal arguments into the text ("<unknown>" when there is no file)
            want_fa = M.fold_literal_args(want_tpl, tuple(("display", x) for x in (mk_field(slf, "class"), mk_field(slf, "method"), want_file, mk_field(slf, "line"))))
            if len(w) != 1 or w[0][2][1] != want_fa:
                okc = False
        rep.check(rule, "%s/display/StackFrame" % rule, okc, loc=F.short_file(fx.bodies[p]["sp"]), found=desc,
                  expected='"at {class}.{method}({file or <unknown>}:{line})"')
    p = A.one(rep, rule, "Display for Throwable", A.method(fx, "stacktrace::Throwable", "fmt", trait="Display"))
    if p:
        rep.fn(p)
        res = S.Sym(fx).eval_body(fx.bodies[p])
        okc = bool(res)
        desc = []
        for st, (k, v) in res:
            w = [e[2][1] for e in st.effects if e[0] == "call" and e[1].endswith("write_fmt")]
            desc.append([S.tstr(x)[:120] for x in w])
            if not (v[0] == "adt" and v[2] == "Ok"):
                continue      # error-propagation paths
            a_ = fc.assignment(st.conds)
            has_msg = a_.get(("is", mk_field(slf, "message"), "Some"))
            want = [("fmtargs", (("hole",),), (("display", mk_field(slf, "class")),))]
            if has_msg:
                want.append(("fmtargs", (("txt", ": "), ("hole",)), (("display", mk_payload(mk_field(slf, "message"), "Some", "0")),)))
            if w != want:
                okc = False
        rep.check(rule, "%s/display/Throwable" % rule, okc, loc=F.short_file(fx.bodies[p]["sp"]), found=desc[:3], expected='"{class}" then ": {message}" iff a message is present')
