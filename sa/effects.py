"""EFF - reachability, forbidden / allowed callee sets, result discipline, short-write safety."""
import re
import facts as F
import flow as FL
import census as C

HASH_ITER = re.compile(r"^std::collections::(hash_map::|hash_set::)?Hash(Map|Set)::<[^>]*>::"
                       r"(iter|iter_mut|keys|values|values_mut|into_keys|into_values|drain|retain|extract_if|"
                       r"difference|symmetric_difference|intersection|union)$")
AMBIENT = re.compile(r"^(std::time::|std::env::|std::thread::|std::process::id|std::process::Command|"
                     r"rand::|getrandom::|std::fs::|std::net::|std::hash::RandomState::hash_one|"
                     r"std::collections::hash_map::DefaultHasher|std::ptr::(addr|from_exposed)|"
                     r"(std|core)::ptr::.*::(addr|expose_provenance|align_offset|is_aligned|is_aligned_to|offset_from|byte_offset_from)$|"
                     r"(std|core)::ptr::(eq|addr_eq)$|"
                     r"core::slice::<impl \[T\]>::(align_to|align_to_mut|as_ptr_range|as_simd)$)")
ITER_ENTRY = ("std::iter::IntoIterator::into_iter", "std::iter::Extend::extend", "std::iter::FromIterator::from_iter",
              "std::iter::Iterator::collect", "std::clone::Clone::clone")


def arg_types(n):
    return [(F.strip(a).get("ty", "") + " | " + a.get("ty", "")) for a in n.get("args", [])]


def hash_order_observers(fx, seen):
    """calls in reachable local bodies that can observe HashMap/HashSet iteration order"""
    hits = []
    for p in sorted(seen):
        b = fx.bodies[p]
        for n in F.walk(b["body"]):
            if n.get("k") not in ("Call", "Zst") or "fn" not in n:
                continue
            path = n["fn"]["path"]
            if HASH_ITER.match(path):
                hits.append((p, n, "iteration API %s" % path.split("::")[-1]))
                continue
            if n.get("k") == "Call" and path in ITER_ENTRY[:3]:
                # into_iter / extend / from_iter over a hash container value
                for i, t in enumerate(arg_types(n)):
                    if i == 0 and path.endswith("extend"):
                        continue   # extending a hash container is fine; iterating one is not
                    base = t.split(" | ")[0]
                    if re.match(r"^&?(mut )?std::collections::Hash(Map|Set)<", base):
                        hits.append((p, n, "%s over %s" % (path.split("::")[-1], base[:60])))
            if n.get("k") == "Call" and path.endswith("new_debug"):
                for t in arg_types(n):
                    if "std::collections::Hash" in t:
                        hits.append((p, n, "Debug-formatting a hash container"))
    return hits


def hash_container_uses(fx, seen):
    """inventory: (container type, method) for every call whose receiver is a hash container"""
    uses = {}
    for p in sorted(seen):
        for n in F.walk(fx.bodies[p]["body"]):
            if n.get("k") == "Call" and "fn" in n and n["args"]:
                t = arg_types(n)[0]
                m = re.search(r"std::collections::Hash(Map|Set)<[^|]*", t)
                if m and re.match(r"^std::collections::(hash_map::|hash_set::)?Hash", n["fn"]["path"]):
                    uses.setdefault(m.group(0).strip()[:80], set()).add(n["fn"]["path"].split("::")[-1])
    return {k: sorted(v) for k, v in uses.items()}


def ambient_sources(fx, seen):
    hits = []
    for p in sorted(seen):
        b = fx.bodies[p]
        for n in F.walk(b["body"]):
            k = n.get("k")
            if k in ("Call", "Zst") and "fn" in n and AMBIENT.search(n["fn"]["path"]):
                hits.append((p, n, "ambient source %s" % n["fn"]["path"]))
            elif k == "Cast" and (n.get("from", "").startswith(("*const", "*mut", "&")) or "fn(" in n.get("from", "")) \
                    and n.get("ty") in C.INT_TYPES:
                hits.append((p, n, "pointer-to-integer cast %s -> %s" % (n.get("from"), n.get("ty"))))
            elif k in ("Static", "ThreadLocal"):
                if k == "Static" and plain_constant_static(fx, n["path"]):
                    continue        # an immutable static without interior mutability, initialised by a constant expression: a constant
                hits.append((p, n, "reads static %s" % n["path"]))
    return hits


def plain_constant_static(fx, path):
    """`static ZEROS: [u8; 8] = [0; 8];`: not `mut`, not thread-local, no interior mutability (Freeze), and the initialiser
    calls nothing and reads no other static (literals, constants, array/struct/tuple expressions only)"""
    for c_, it in fx.items.items():
        for s_ in it.get("statics", []):
            if s_["path"] == path:
                if s_.get("mut") or s_.get("thread_local") or not s_.get("freeze") or s_.get("interior"):
                    return False
                sb = fx.bodies.get(path)
                if sb is None:
                    return False
                for n_ in F.walk(sb["body"]):
                    if n_.get("k") in ("Call", "Static", "ThreadLocal", "Closure", "Upvar", "Loop", "Match", "If", "Zst", "Index", "Deref"):
                        return False
                return True
    return False


INTERIOR_WORDS = re.compile(r"\b(Mutex|RwLock|RefCell|Cell|UnsafeCell|Atomic\w*|Rc|Condvar|Barrier|mpsc|Sender|Receiver)\b")


def write_once_static(fx, path, ty):
    """reason if the static is a write-once constant: a cell filled exactly once by a pure initialiser and holding a value
    without interior mutability; None otherwise. Two shapes:
      * `static X: OnceLock<T>` / `OnceCell<T>`: every use of X in the crate is the receiver of `get_or_init(<closure>)`, the
        closure captures nothing, reads no static and calls nothing ambient, and T mentions no interior-mutable type;
      * the statics generated by `lazy_static!` (the unit static with `impl Deref` and its inner `LAZY` cell): the generated
        `__static_ref_initialize` is pure in the same sense."""
    norm = lambda p_: re.sub(r"(::)?<'[a-z_]+>", "", p_ or "")
    npath = norm(path)

    def pure_body(b_, depth=0):
        for n_ in F.walk(b_["body"]):
            k_ = n_.get("k")
            if k_ in ("Static", "ThreadLocal", "Upvar"):
                return False
            if k_ in ("Call", "Zst") and "fn" in n_:
                if AMBIENT.search(n_["fn"]["path"]):
                    return False
                # private helpers of this crate called by the initialiser are part of it
                tgt_ = fx.by_dp.get(n_["fn"].get("dp"))
                if tgt_ in fx.bodies and fx.bodies[tgt_]["krate"] == "proguard" and tgt_ != b_["path"]:
                    if depth > 6 or not pure_body(fx.bodies[tgt_], depth + 1):
                        return False
        return True
    # `static X: LazyLock<T> = LazyLock::new(<pure initialiser>)`: the only way to reach the value is Deref (-> &T)
    mlz = re.search(r"(LazyLock|LazyCell|Lazy)<(.*)>$", ty or "")
    if mlz:
        if INTERIOR_WORDS.search(mlz.group(2)):
            return None
        sb = fx.bodies.get(path) or next((bb_ for q_, bb_ in fx.bodies.items() if norm(q_) == npath), None)
        if sb is None:
            return None
        init = F.strip(sb["body"])
        if init.get("k") == "Call" and "fn" in init and re.search(r"(LazyLock|LazyCell|Lazy)(::<[^>]*>)?::new$", init["fn"]["path"]) and len(init["args"]) == 1:
            a0 = F.strip(init["args"][0])
            cb = fx.bodies.get(a0.get("def")) if a0.get("k") == "Closure" else \
                (fx.bodies.get(fx.by_dp.get(a0["fn"].get("dp"))) if a0.get("k") == "Zst" and "fn" in a0 else None)
            if cb is not None and pure_body(cb):
                return "write-once cell: LazyLock initialised by a pure initialiser, reachable through Deref only"
        return None
    m = re.search(r"Once(Lock|Cell)<(.*)>$", ty or "")
    if m:
        if INTERIOR_WORDS.search(m.group(2)):
            return None
        n_uses = 0
        for q_, bb_ in fx.bodies.items():
            if bb_["krate"] != "proguard":
                continue
            for m_, parents_ in F.walk_with_parents(bb_["body"]):
                if m_.get("k") == "Static" and norm(m_.get("path")) == npath:
                    calls_ = [x for x in parents_ if x.get("k") == "Call" and "fn" in x]
                    if not calls_ or not calls_[-1]["fn"]["path"].endswith("::get_or_init") or not any(y is m_ for y in F.walk(calls_[-1]["args"][0])):
                        return None
                    clo = F.strip(calls_[-1]["args"][1])
                    cb = fx.bodies.get(clo.get("def")) if clo.get("k") == "Closure" else None
                    if cb is None or not pure_body(cb):
                        return None
                    n_uses += 1
        return "write-once cell: only reached through get_or_init(<pure initialiser>) (%d use(s))" % n_uses if n_uses else None
    # lazy_static
    for q_ in fx.bodies:
        mm = re.match(r"^proguard::<(.+) as std::ops::Deref>::deref::__stability$", q_)
        if not mm:
            continue
        root = norm("proguard::" + mm.group(1))
        if npath in (root, norm("proguard::<%s as std::ops::Deref>::deref::__stability::LAZY" % mm.group(1))):
            init = [bb_ for q2, bb_ in fx.bodies.items() if q2 == "proguard::<%s as std::ops::Deref>::deref::__static_ref_initialize" % mm.group(1)]
            if len(init) == 1 and pure_body(init[0]) and not INTERIOR_WORDS.search(init[0].get("output") or ""):
                return "lazy_static write-once constant with a pure initialiser"
    return None


# ---- result discipline -----------------------------------------------------------------------------
def result_uses(body, err_pat):
    """for every Call node whose type is Result<_, E> with E matching err_pat: how the value is
    consumed. Returns list of (node, verdict, how)."""
    out = []
    root = body["body"]
    for n, parents in F.walk_with_parents(root):
        if n.get("k") != "Call":
            continue
        ty = n.get("ty", "")
        if not (ty.startswith("std::result::Result<") and re.search(err_pat, ty)):
            continue
        if F.is_call(n, "std::ops::Try::branch", "std::ops::FromResidual::from_residual"):
            continue
        out.append((n,) + consumption(n, parents, root))
    return out


def consumption(n, parents, root):
    """('propagated'|'returned'|'dropped'|'other', description)"""
    child = n
    for p in reversed(parents):
        k = p.get("k")
        if k in ("Borrow", "Deref", "Coerce"):
            child = p; continue
        if k == "Block":
            if p.get("tail") is child:
                child = p; continue
            for s in p["stmts"]:
                if s["k"] == "Expr" and s["e"] is child:
                    return ("dropped", "statement-discard (value unused)")
                if s["k"] == "Let" and s.get("init") is child:
                    if s["pat"]["k"] == "Wild":
                        return ("dropped", "`let _ =` discard")
                    return ("other", "bound by let (not tracked)")
            return ("other", "inside block")
        if k == "Call":
            if F.is_call(p, "std::ops::Try::branch"):
                return ("propagated", "operand of `?`")
            name = p.get("fn", {}).get("path", "?").split("::")[-1]
            if name in ("ok", "is_ok", "is_err", "unwrap_or", "unwrap_or_default", "unwrap_or_else", "err", "map_or"):
                return ("dropped", "error swallowed by .%s()" % name)
            return ("other", "argument of %s" % name)
        if k == "Return":
            return ("returned", "return value")
        if k == "Match":
            if p["scrut"] is child:
                return ("other", "matched on")
            child = p; continue  # arm body: value of the match
        if k == "If":
            if p["cond"] is child:
                return ("other", "condition")
            child = p; continue
        if k in ("Loop",):
            return ("other", "loop body value")
        return ("other", k)
    # reached the root: value of the function body
    return ("returned", "function tail value")


def generic_sink_params(body):
    """indices of parameters whose type is `&mut P` / `P` for a bare generic parameter P"""
    out = []
    for i, p in enumerate(body["params"]):
        if re.match(r"^(&mut )?[A-Z]\w*$", p["ty"]) and p["ty"].replace("&mut ", "") not in ("Self", "String"):
            out.append(i)
    return out


def _sink_var_ids(body, sink_params):
    ids = set()
    for i in sink_params:
        if i < len(body["params"]):
            pat = body["params"][i].get("pat")
            if pat and pat["k"] == "Bind":
                ids.add(pat["id"])
    return ids


def _is_sink_expr(e, ids):
    e = F.strip(e)
    return e.get("k") in ("Var", "Upvar") and e["id"] in ids


def sink_ops(fx, body, sink_params=None, _seen=None):
    """ordered list of operations on the sink (the value of the generic `W: io::Write` parameter):
    (node, 'trait', method) for io::Write trait calls whose receiver is the sink, and
    (node, 'local', callee_path, callee_sink_params) for local calls that are handed the sink."""
    if sink_params is None:
        sink_params = generic_sink_params(body)
    ids = _sink_var_ids(body, sink_params)
    ops = []
    if not ids:
        return ops
    for n in F.walk(body["body"]):
        if n.get("k") == "Adt":
            # the sink moved into a struct (a wrapper that outlives the call): its later use is not tracked
            for f_ in n["fields"]:
                if _is_sink_expr(f_["e"], ids):
                    ops.append((n, "stored", "%s.%s" % (n["adt"].split("::")[-1], f_["name"])))
            continue
        if n.get("k") != "Call" or "fn" not in n:
            continue
        f = n["fn"]
        hit = [i for i, a in enumerate(n["args"]) if _is_sink_expr(a, ids)]
        if not hit:
            continue
        if f.get("trait") == "std::io::Write":
            ops.append((n, "trait", f["path"].split("::")[-1]))
        else:
            tgt = fx.by_dp.get(f.get("dp"))
            if tgt and tgt in fx.bodies:
                ops.append((n, "local", tgt, hit))
            else:
                ops.append((n, "foreign", f["path"], hit))
    return ops


def sink_functions(fx, entry):
    """{path: sink_params} for the entry and every local function that is handed the sink"""
    out = {}
    todo = [(entry, generic_sink_params(fx.bodies[entry]))]
    while todo:
        p, sp = todo.pop()
        if p in out:
            continue
        out[p] = sp
        for op in sink_ops(fx, fx.bodies[p], sp):
            if op[1] == "local":
                todo.append((op[2], op[3]))
    return out


def primitive_write_calls(fx, seen):
    """calls to io::Write::write (the short-write-prone primitive) in reachable local bodies, with a
    verdict: 'forwarder' if the enclosing fn is itself an `impl Write::write` returning that count"""
    out = []
    for p in sorted(seen):
        b = fx.bodies[p]
        for n, parents in F.walk_with_parents(b["body"]):
            if n.get("k") == "Call" and "fn" in n and n["fn"].get("trait") == "std::io::Write" \
                    and n["fn"]["path"].endswith("::write"):
                is_fwd = (b.get("impl_trait") or "").endswith("io::Write") and b.get("name") == "write"
                how = consumption(n, parents, b["body"])
                out.append((p, n, is_fwd, how))
    return out
