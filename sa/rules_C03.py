"""C03 - parameter-based retrace returns the distinct real methods matching name and args."""
import facts as F
import anchors as A
import readers as RD
import builder_rules as BR
import lookup_rules as LR
import cachefmt as CF
import rules_C01 as R1

LEVEL = "other"
TECHNIQUE = R1.TECHNIQUE
EXPLANATION = ("Structural necessary conditions in the mapper and the cache: the Method arm pushes the entry into the by-params index iff "
               "(parameter index requested, mapper only) and the entry is not an inlined callee (one-record lookahead: next record is a "
               "method with the identical obfuscated range) and (obfuscated, arguments, original) is first seen in this class - the same "
               "entry as in the by-method index; the dedupe set is reset at every class line (cleared, or part of the wholesale-replaced "
               "per-class struct); the no-lines iterator emits class-or-frame-class, original method, file None, line 0, one entry per "
               "call; the reader selects the by-params vector / the by-params section slice by (method, params); the writer's by-params "
               "offset/len/section pairing. Composition is a paper argument.")
EXPLANATION = EXPLANATION + ' The cache side also decides the equal-range search that cuts the (method, params) run out of the section.'
RULE_TEXT = R1.RULE_TEXT
TRUSTED = R1.TRUSTED


def run(ctx, rep):
    fx = ctx.facts("")
    rep.configs.append("default")
    for impl in ("mapper", "cache"):
        n = BR.check_method_effects(fx, rep, "C03.1", impl)
        rep.floor("C03.1/" + impl, n, 8, "Method-record paths (%s)" % impl)
        BR.check_class_header_arms(fx, rep, "C03.2", impl)
        wl, wo = RD.iterator_roles(fx, rep, "C03.3", impl)
        if wo:
            RD.check_without_lines(fx, rep, "C03.3", impl, wo, "C03.3")
        if wl and wo:
            nq = RD.check_query_readonly(fx, rep, "C03.3", impl, A.method(fx, impl + "::RemappedFrameIter", "next", trait="Iterator") + [wl, wo], "C03.3")
            rep.floor("C03.3/query-readonly/" + impl, nq, 2, "functions holding the stored query (%s)" % impl)
    import api_rules as AR
    AR.check_frame_api(fx, rep, "C03.api")
    AR.check_mapper_constructors(fx, rep, "C03.0")
    AR.check_mapping_wiring(fx, rep, "C03.api")
    import parser_rules as PRM
    PRM.check_parser_premises(fx, rep, "C03.P")
    R1.check_remap_frame_mapper(fx, rep, "C03.4")
    LR.check_frame_comparators(fx, rep, "C03.4")
    # (the comparators only order the search: the slice of same-(name, params) entries is what the equal-range search returns)
    R1.check_find_range(fx, rep, "C03.R")
    LR.check_section_slices(fx, rep, "C03.4")
    CF.check_parse(fx, rep, "C03.4p")       # (the cache's answers start from the sections `parse` slices out of the file)
    # "of that class": the frame's class is found by the exact class lookup (mapper: hash map get; cache: binary search with the
    # string comparator) - a lookup that misses a class makes its frames come back unmapped
    LR.check_class_lookup(fx, rep, "C03.L")
    wv = CF.WriterView(fx, rep, "C03.5")
    if wv.ok:
        seqs = CF.check_emission(fx, rep, "C03.5", wv)
        if seqs:
            CF.check_sections(fx, rep, "C03.5", wv, seqs)
