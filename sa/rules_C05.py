"""C05 - well-formed mapping lines parse to exactly their parts; malformed ones error (SEQ + FC + PROV)."""
import facts as F
import anchors as A
import parser_rules as PR
import rules_C01 as R1

LEVEL = "other"
TECHNIQUE = ("grammar-skeleton extraction: the three line parsers are canonicalised with the scanning combinators kept opaque, every success "
             "path is unfolded into its consuming-step sequence along the cursor chain (typestate check), predicates are canonicalised to "
             "byte sets, and the set of sequences is compared with the documented grammar; provenance of record fields from captures")
EXPLANATION = ("Decided clauses: dispatch on the first bytes after skipping newlines; the member-line parser's success paths are exactly the "
               "8 step sequences the documented grammar `    [s:e:]type [class.]name[(args)[:os[:oe]]] -> obfuscated` allows (mandatory "
               "steps propagate failure, optional steps fall back with the cursor unchanged, ':os' only after an argument group, ':oe' only "
               "after ':os', a start line forces ':end:'); class and header skeletons; every combinator is applied to the rest of the "
               "previous step (no stale cursor); every record component is the capture of its grammar position (last-dot class split, "
               "header trim); the LineMapping presence rule (C01.P1); parse_usize = maximal digit run + from_utf8 + str::parse with both "
               "failures mapped to Err; try_parse rejects trailing bytes. NOT decided: that the documented grammar is what R8 emits; std's "
               "str::parse::<usize> / from_utf8 behave as documented (trusted).")
RULE_TEXT = "one instance per parser skeleton / wiring / combinator shape; inside, every success path and reference sequence is compared"
TRUSTED = R1.TRUSTED + ["reference grammar in sa/parser_rules.py (from the doc comment at mapping.rs:499-500 and the ProGuard manual)"]


def run(ctx, rep):
    fx = ctx.facts("")
    rep.configs.append("default")
    PR.check_dispatch(fx, rep, "C05.1")
    sks = {}
    sks["member"] = PR.check_member_parser(fx, rep, "C05.2")
    sks["class"] = PR.check_class_parser(fx, rep, "C05.3")
    sks["header"] = PR.check_header_parser(fx, rep, "C05.3")
    n = sum(len(v or []) for v in sks.values())
    rep.floor("C05.2", n, 18, "success paths of the three line parsers (14 member + 1 class + 3 header)")
    PR.is_newline_set(fx, rep, "C05.6")
    PR.check_combinators(fx, rep, "C05.6")
    R1.check_line_mapping_rule(fx, rep, "C05.4")
    PR.check_try_parse(fx, rep, "C05.7")
    PR.check_iterator(fx, rep, "C05.8")
    import api_rules as AR
    AR.check_getters(fx, rep, "C05.api", "mapping::ParseError")
    AR.check_mapping_wiring(fx, rep, "C05.api")
    # floor: combinator call sites in the record parsers (counted on the pinned tree: 34)
    calls = 0
    PR.use(fx)
    comb = {PR.rp(n_) for n_ in PR.COMB}
    roots = [PR.rp(nm) for nm in ("parse_proguard_record", "parse_proguard_header", "parse_proguard_field_or_method", "parse_proguard_class")]
    # the record parsers and every private helper they reach (a `:number` group may live in its own function), combinators excluded
    for p_ in sorted(fx.reachable([r_ for r_ in roots if r_ in fx.bodies], enter=lambda q: q not in comb)):
        b = fx.bodies.get(p_)
        if b and p_ not in comb and b["krate"] == "proguard":
            for n_ in F.walk(b["body"]):
                if n_.get("k") == "Call" and "fn" in n_ and fx.by_dp.get(n_["fn"].get("dp")) in comb:
                    calls += 1
    rep.floor("C05.5", calls, 24, "combinator call sites in the dispatcher, the three record parsers and their helpers (34 on the pinned tree; shared helpers lower it)")
