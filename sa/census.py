"""CEN - panic / overflow / narrowing census over typed trees, with sound local discharge rules.

enumerate(fx, body)  -> list of Site
discharge(site, ...) -> reason string or None
"""
import re
import facts as F

INT_TYPES = {"u8", "u16", "u32", "u64", "u128", "usize", "i8", "i16", "i32", "i64", "i128", "isize"}
ARITH = {"Add", "Sub", "Mul", "Div", "Rem", "Shl", "Shr"}
ARITH_ASSIGN = {"AddAssign": "Add", "SubAssign": "Sub", "MulAssign": "Mul", "DivAssign": "Div",
                "RemAssign": "Rem", "ShlAssign": "Shl", "ShrAssign": "Shr"}

# ---- trusted std summary: callees that can panic (by path suffix / regex) ---------------------
PANICKING = [
    (r"^std::option::Option::<T>::(unwrap|expect|unwrap_unchecked)$", "unwrap"),
    (r"^std::result::Result::<T, E>::(unwrap|expect|unwrap_err|expect_err|unwrap_unchecked)$", "unwrap"),
    (r"^core::slice::<impl \[T\]>::(split_at|split_at_mut|copy_from_slice|clone_from_slice|swap|chunks|chunks_exact|windows|rotate_left|rotate_right|split_first_chunk|first_chunk|copy_within|select_nth_unstable)$", "slice-panic"),
    (r"^core::str::<impl str>::(split_at|split_at_mut)$", "str-split_at"),
    (r"^std::vec::Vec::<T, A>::(remove|insert|swap_remove|drain|split_off|truncate_unchecked|splice|extend_from_within)$", "vec-panic"),
    (r"^std::vec::Vec::<T>::(remove|insert|swap_remove|drain|split_off)$", "vec-panic"),
    (r"^std::string::String::(insert|insert_str|remove|drain|split_off|replace_range|truncate)$", "string-panic"),
    (r"^std::cell::RefCell::<T>::(borrow|borrow_mut)$", "refcell"),
    (r"^std::iter::Iterator::step_by$", "step_by-zero"),
    (r"^std::iter::Iterator::(sum|product)$", "sum-overflow"),
    (r"::align_offset$", "align_offset"),
    (r"^std::ops::Index::index$", "index-call"),
    (r"^std::ops::IndexMut::index_mut$", "index-call"),
    (r"^core::panicking::", "panic"),
    (r"^std::rt::(begin_panic|panic_fmt)", "panic"),
    (r"^core::panicking::panic", "panic"),
    (r"^std::rt::panic_fmt$", "panic"),
    (r"^std::process::(exit|abort)$", "exit"),
    (r"^core::num::<impl (u|i)(8|16|32|64|128|size)>::(pow|abs|div_euclid|rem_euclid|next_power_of_two|ilog|ilog2|ilog10|isqrt|strict_\w+|unchecked_\w+)$", "int-panic"),
    # preconditions checked with assert! inside std
    (r"^std::cmp::Ord::clamp$", "clamp-min-gt-max"),
    (r"^core::(f32|f64)::<impl (f32|f64)>::clamp$", "clamp-min-gt-max"),
    (r"^core::num::<impl (u|i)(8|16|32|64|128|size)>::(next_multiple_of|div_ceil)$", "int-round"),
    # arithmetic that overflows *silently*: "without arithmetic overflow" is about the value, not about the panic
    (r"^core::num::<impl (u|i)(8|16|32|64|128|size)>::(wrapping|overflowing)_(add|sub|mul)$", "silent-wrap"),
    (r"^core::slice::<impl \[T\]>::(rchunks|rchunks_exact|chunks_mut|chunks_exact_mut|rchunks_mut|array_chunks|array_windows|swap_with_slice|select_nth_unstable_by|select_nth_unstable_by_key|as_chunks|as_rchunks)$", "slice-panic"),
    (r"^std::iter::Iterator::(array_chunks|map_windows)$", "step_by-zero"),
    (r"^core::str::<impl str>::(repeat)$", "capacity"),
    (r"^alloc::str::<impl str>::repeat$", "capacity"),
    (r"^alloc::slice::<impl \[T\]>::repeat$", "capacity"),
    (r"^std::num::NonZero::<T>::new_unchecked$", "ub"),
    (r"^core::(u|i)(8|16|32|64|128|size)::from_str_radix$", "digit-radix"),
    (r"^core::num::<impl (u|i)(8|16|32|64|128|size)>::from_str_radix$", "digit-radix"),
    (r"^std::char::from_digit$", "from_digit"),
    (r"^core::char::methods::<impl char>::(from_digit|to_digit)$", "digit-radix"),
    (r"^std::collections::(hash_map::)?HashMap::<K, V, S>::index$", "map-index"),
    (r"^std::mem::(transmute|zeroed|uninitialized)", "unsafe-mem"),
    (r"^core::intrinsics::", "intrinsic"),
    (r"^core::hint::unreachable_unchecked$", "ub"),
    (r"^std::slice::from_raw_parts", "raw-parts"),
    (r"^std::thread::", "thread"),
    (r"^std::sync::", "sync"),
    (r"^std::time::", "time"),
]
PANICKING = [(re.compile(p), k) for p, k in PANICKING]
NAME_HEURISTIC = re.compile(r"(unwrap|expect|index|split_at|slice_|panic|assert|unreachable|abort)")
NON_PANICKING_NAME_OK = re.compile(
    r"(unwrap_or|unwrap_or_else|unwrap_or_default|expect_none|is_ascii|binary_search|rsplit|split|splitn|rsplitn|"
    r"split_once|rsplit_once|strip_prefix|strip_suffix|split_whitespace|char_indices|find_map|position|rposition|"
    r"from_utf8|to_owned|checked_|saturating_|wrapping_|split_inclusive|split_terminator|index_of|assert_fields_are_eq|"
    r"assert_receiver_is_total_eq)")


class Site:
    __slots__ = ("kind", "op", "node", "parents", "body", "ty")

    def __init__(self, kind, op, node, parents, body):
        self.kind = kind      # arith | index | call | cast
        self.op = op
        self.node = node
        self.parents = parents
        self.body = body
        self.ty = node.get("ty")

    def key(self):
        fn = self.body["path"]
        return "%s/%s/%s/%s" % (self.kind, self.op, short_fn(fn), canon(self.node))

    def loc(self):
        return F.loc(self.node)


def short_fn(p):
    p = re.sub(r"<'[a-z_]+(, '[a-z_]+)*>", "", p)
    p = re.sub(r"::<'[a-z_]+(, '[a-z_]+)*>", "", p)
    return p


def canon(n, depth=0):
    """line-number-free rendering of a (small) expression for keys"""
    s = F.pp(n)
    s = re.sub(r"\s+", " ", s)
    return s if len(s) < 160 else s[:157] + "..."


def classify_callee(path):
    for rx, kind in PANICKING:
        if rx.search(path):
            return kind
    return None


def enumerate_sites(body):
    sites = []
    for n, parents in F.walk_with_parents(body["body"]):
        k = n.get("k")
        if k == "Binary" and n["op"] in ARITH and n["ty"] in INT_TYPES:
            sites.append(Site("arith", n["op"], n, parents, body))
        elif k == "AssignOp" and n["op"] in ARITH_ASSIGN and n["l"].get("ty") in INT_TYPES:
            sites.append(Site("arith", ARITH_ASSIGN[n["op"]], n, parents, body))
        elif k == "Unary" and n["op"] == "Neg" and n["ty"] in INT_TYPES:
            sites.append(Site("arith", "Neg", n, parents, body))
        elif k == "Index":
            sites.append(Site("index", "Index", n, parents, body))
        elif k == "Call" and "fn" in n:
            p = n["fn"]["path"]
            kind = classify_callee(p)
            if kind:
                sites.append(Site("call", kind + ":" + p.split("::")[-1], n, parents, body))
        elif k == "Cast":
            fr, to = n.get("from"), n.get("ty")
            if fr in INT_TYPES and to in INT_TYPES and lossy(fr, to):
                sites.append(Site("cast", "%s->%s" % (fr, to), n, parents, body))
    return sites


def width(t):
    if t in ("usize", "isize"):
        return 64
    return int(t[1:])


def lossy(fr, to):
    fs, ts = fr[0] == "i", to[0] == "i"
    fw, tw = width(fr), width(to)
    if fs == ts:
        return tw < fw
    if fs and not ts:
        return True          # signed -> unsigned
    return tw <= fw          # unsigned -> signed needs strictly wider


def unclassified_callees(fx, bodies):
    """std/foreign callees not in the panicking table whose name matches the heuristic."""
    out = set()
    for b in bodies:
        for n in F.walk(b["body"]):
            if n.get("k") == "Call" and "fn" in n:
                p = n["fn"]["path"]
                if p in fx.bodies or (n["fn"].get("resolved") in fx.bodies) or n["fn"].get("dp") in fx.by_dp \
                        or n["fn"].get("resolved_dp") in fx.by_dp:
                    continue
                last = p.split("::")[-1]
                if classify_callee(p) is None and NAME_HEURISTIC.search(last) and not NON_PANICKING_NAME_OK.search(last):
                    out.add(p)
    return sorted(out)


def mir_counts(fx, path):
    m = fx.mir.get(path)
    if not m:
        return None
    c = {"Overflow": 0, "BoundsCheck": 0, "DivisionByZero": 0, "RemainderByZero": 0, "OverflowNeg": 0}
    for a in m["asserts"]:
        if a["kind"] in c:
            c[a["kind"]] += 1
    return c


def thir_counts(sites):
    c = {"Overflow": 0, "BoundsCheck": 0, "DivisionByZero": 0, "RemainderByZero": 0, "OverflowNeg": 0}
    for s in sites:
        if s.kind == "arith":
            if s.op in ("Add", "Sub", "Mul", "Shl", "Shr"):
                c["Overflow"] += 1
            elif s.op == "Div":
                c["DivisionByZero"] += 1
                if s.ty and s.ty[0] == "i":
                    c["Overflow"] += 1
            elif s.op == "Rem":
                c["RemainderByZero"] += 1
                if s.ty and s.ty[0] == "i":
                    c["Overflow"] += 1
            elif s.op == "Neg":
                c["OverflowNeg"] += 1
        elif s.kind == "index":
            base_ty = F.strip(s.node["e"]).get("ty", "")
            c["BoundsCheck"] += 1
    return c


# =================================================================================================
# Discharge rules. Each returns a human-readable reason (string) or None.
# =================================================================================================
import flow as FL

LEN_CALLS = ("core::slice::<impl [T]>::len", "core::str::<impl str>::len", "std::vec::Vec::<T, A>::len",
             "std::string::String::len")
POSITION_CALLS = ("std::iter::Iterator::position", "std::iter::Iterator::rposition")


class Family:
    """A function body together with all closures nested in it (they share one variable space)."""

    def __init__(self, fx, root_path):
        self.fx = fx
        self.root = fx.bodies[root_path]
        self.members = [self.root] + [b for b in fx.bodies.values() if b.get("parent") == root_path]
        self.origins = FL.Origins(self.root)
        for m in self.members[1:]:
            o = FL.Origins(m)
            for k, v in o.src.items():
                self.origins.src.setdefault(k, []).extend(v)
            for k, v in o.assigned.items():
                self.origins.assigned[k] = self.origins.assigned.get(k, 0) + v
            self.origins.mut.update(o.mut)
            self.origins.names.update(o.names)
        self._closure_use = None

    def closure_use(self, closure_path):
        """(call_node, arg_index) of the call that receives the closure, or None"""
        if self._closure_use is None:
            self._closure_use = {}
            for m in self.members:
                for n in F.walk(m["body"]):
                    if n.get("k") == "Call":
                        for i, a in enumerate(n["args"]):
                            a2 = F.strip(a)
                            if a2.get("k") == "Closure":
                                self._closure_use[a2["def"]] = (n, i)
        return self._closure_use.get(closure_path)


_family_cache = {}


def family_of(fx, body):
    root = body.get("parent") or body["path"]
    key = (id(fx), root)
    if key not in _family_cache:
        _family_cache[key] = Family(fx, root)
    return _family_cache[key]


def int_lit(n):
    n = F.strip(n)
    if n.get("k") == "Lit" and n["lit"]["t"] == "int":
        return n["lit"]["v"]
    if n.get("k") == "Const" and isinstance(n.get("val"), dict) and n["val"].get("t") == "int":
        return n["val"]["v"]
    if n.get("k") == "Cast":
        return int_lit(n["e"])
    # `ARRAY.len()` of a fixed-size array: the length is in the type
    if n.get("k") == "Call" and "fn" in n and n["fn"]["path"].endswith("<impl [T]>::len") and len(n.get("args") or []) == 1:
        a_ = n["args"][0]
        for _ in range(6):
            m_ = re.match(r"^&?\[.*; (\d+)\]$", (a_.get("ty") or ""))
            if m_:
                return int(m_.group(1))
            if a_.get("k") in ("Borrow", "Deref", "Coerce", "Cast") and isinstance(a_.get("e"), dict):
                a_ = a_["e"]
            else:
                break
    return None


def iter_source(n):
    """for `X.iter()`, `X.iter().rev()`...: the sequence expression being iterated, else None"""
    n = FL.peel(n)
    while F.is_call(n, "std::iter::Iterator::rev", "std::iter::Iterator::by_ref") and n.get("args"):
        n = FL.peel(n["args"][0])       # (a position counted from the other end is still smaller than the length)
    if F.is_call(n, "core::slice::<impl [T]>::iter", "core::str::<impl str>::chars", "core::str::<impl str>::bytes",
                 "core::str::<impl str>::char_indices", "core::slice::<impl [T]>::iter_mut"):
        return n["args"][0]
    return None


def payload_is_index(expr, path, fam, seen):
    """Is the value bound from `expr` via pattern `path` an index < len of an in-memory sequence?"""
    steps = list(path)
    e = FL.peel(expr) if expr is not None else None
    if e is None:
        return None
    # the `?` operator selects the Some/Ok payload
    t = FL.try_operand(F.strip(expr))
    if t is not None:
        steps = [("payload", "0")] + steps
        e = FL.peel(t)
    while F.is_call(e, "std::result::Result::<T, E>::ok", "std::option::Option::<T>::as_ref", "std::option::Option::<T>::copied"):
        e = FL.peel(e["args"][0])
    if not steps:
        return bounded_index(e, fam, seen)
    first = steps[0]
    if first[0] in ("Some", "Ok", "payload") and len(steps) == 1:
        if F.is_call(e, *POSITION_CALLS):
            return "Some-payload of %s over an in-memory iterator" % e["fn"]["path"].split("::")[-1]
        if F.is_call(e, "core::slice::<impl [T]>::binary_search_by", "core::slice::<impl [T]>::binary_search",
                     "core::slice::<impl [T]>::binary_search_by_key"):
            return "Ok-payload of binary_search (index < len)"
        if F.is_call(e, "core::str::<impl str>::find", "core::str::<impl str>::rfind"):
            return "Some-payload of str::find (byte index < len)"
    if first[0] in ("Some", "payload") and len(steps) == 2 and steps[1][1] == "0":
        # Some((idx, _)) of next() / find(..) on CharIndices / Enumerate (possibly through by_ref())
        if F.is_call(e, "std::iter::Iterator::next", "std::iter::Iterator::find"):
            r0 = FL.peel(e["args"][0])
            while F.is_call(r0, "std::iter::Iterator::by_ref"):
                r0 = FL.peel(r0["args"][0])
            recv_ty = F.strip(e["args"][0]).get("ty", "") + " " + e["args"][0].get("ty", "") + " " + r0.get("ty", "")
            if "CharIndices" in recv_ty or "Enumerate" in recv_ty:
                return "index component of a char_indices()/enumerate() item"
    return None


def bounded_index(n, fam, seen=None):
    """reason if the usize value n is <= isize::MAX because it is an index into / length of an
    in-memory sequence with non-zero-sized elements; None otherwise"""
    seen = seen if seen is not None else set()
    n = FL.peel(n)
    v = int_lit(n)
    if v is not None and 0 <= v < (1 << 62):
        return "literal %d" % v
    if F.is_call(n, *LEN_CALLS):
        return "len() of an in-memory sequence"
    if F.is_call(n, "core::char::methods::<impl char>::len_utf8", "std::char::methods::<impl char>::len_utf8"):
        return "width of a char in bytes (<= 4)"
    if F.is_call(n, "std::convert::From::from", "std::convert::Into::into") and len(n["args"]) == 1 \
            and (F.strip(n["args"][0]).get("ty") == "bool" or n["args"][0].get("ty") == "bool"):
        return "0 or 1 (a bool as an integer)"
    if n.get("k") == "Binary" and n["op"] == "Sub" and (n.get("ty") in ("usize", None)) and len(seen) < 12:
        a_ = bounded_index(n["l"], fam, seen)
        if a_:
            return "difference below %s" % a_        # (a - b <= a; whether it underflows is the Sub site's own obligation)
    if F.is_call(n, "std::option::Option::<T>::unwrap_or") and len(n["args"]) == 2 and len(seen) < 12:
        recv = FL.peel(n["args"][0])
        if F.is_call(recv, *POSITION_CALLS):
            d_ = bounded_index(n["args"][1], fam, seen)
            if d_:
                return "position() payload, or %s" % d_
    # `<iter>.find(..)?.0` / `<iter>.next()?.0`: the index component of a char_indices()/enumerate() item
    if n.get("k") == "Field" and n.get("name") == "0" and FL.try_operand(F.strip(n["e"])) is not None:
        r_ = payload_is_index(n["e"], [("field", "0")], fam, seen)
        if r_:
            return r_
    # an if / match / block value: every branch that yields a value yields a bounded index (diverging branches yield nothing)
    k = n.get("k")
    if k in ("If", "Match", "Block") and len(seen) < 12:
        branches = []
        if k == "If":
            if n.get("else") is None:
                return None
            branches = [n["then"], n["else"]]
        elif k == "Match":
            if FL.try_operand(n) is not None:
                return None
            branches = [a_["body"] for a_ in n["arms"]]
        else:
            if n.get("tail") is None:
                return None
            branches = [n["tail"]]
        rs = []
        for br in branches:
            b_ = F.strip(br)
            if b_.get("ty") == "!" or b_.get("k") in ("Continue", "Break", "Return"):
                continue
            r_ = bounded_index(br, fam, seen)
            if r_ is None:
                return None
            rs.append(r_)
        return "; ".join(sorted(set(rs))) if rs else None
    if n.get("k") == "Call" and "fn" in n and len(seen) < 12:
        # a private helper returning a position (`fn skip_object_type(chars, start) -> usize`): every value it can return is one
        fx_ = fam.fx
        tgt = fx_.by_dp.get(n["fn"].get("dp"))
        hb = fx_.bodies.get(tgt) if tgt else None
        if hb is not None and hb["krate"] == "proguard" and hb.get("kind") in ("Fn", "AssocFn") and not hb.get("reachable_pub") \
                and ("fnret", tgt) not in seen and (n.get("ty") == "usize"):
            fam2 = family_of(fx_, hb)
            seen2 = seen | {("fnret", tgt)}
            results = []
            body_ = F.strip(hb["body"])
            t_ = body_
            while t_.get("k") == "Block" and t_.get("tail") is not None:
                t_ = F.strip(t_["tail"])
            if t_.get("k") == "Block":
                return None         # no tail value (ends in a statement): not a plain value function
            results.append(t_)
            for x_ in F.walk(hb["body"]):
                if x_.get("k") == "Return":
                    if x_.get("e") is None:
                        return None
                    results.append(x_["e"])
            rs = []
            for e_ in results:
                r_ = bounded_index(e_, fam2, seen2)
                if r_ is None:
                    return None
                rs.append(r_)
            return "result of private helper %s: %s" % (short_fn(tgt), "; ".join(sorted(set(rs))))
    if n.get("k") in ("Var", "Upvar"):
        vid = n["id"]
        if vid in seen:
            return "cyclic (assumed; other sources decide)"
        seen = seen | {vid}
        srcs = fam.origins.sources(vid)
        if not srcs:
            return None
        reasons = []
        for path, expr, how in srcs:
            if how == "param":
                r = closure_param_is_index(n, fam) or fn_param_is_index(n, fam, seen)
            elif how == "assignop":
                r = None
            else:
                r = payload_is_index(expr, path, fam, seen)
            if r is None:
                return None
            reasons.append(r)
        return "; ".join(sorted(set(reasons)))
    return None


def fn_param_is_index(var_node, fam, seen):
    """parameter of a private function: a bounded index if every call of that function in the crate passes one"""
    root = fam.root
    if root.get("kind") not in ("Fn", "AssocFn") or root.get("reachable_pub"):
        return None
    pi = None
    for i, prm in enumerate(root["params"]):
        if prm.get("pat") and prm["pat"].get("k") == "Bind" and prm["pat"].get("id") == var_node["id"]:
            pi = i
    if pi is None or (root["params"][pi].get("ty") != "usize"):
        return None
    tok = ("fnparam", root["path"], pi)
    if tok in seen:
        return "cyclic (assumed; other sources decide)"
    seen = seen | {tok}
    fx_ = fam.fx
    n_calls, rs = 0, []
    for b in fx_.bodies.values():
        if b["krate"] != "proguard":
            continue
        for x in F.walk(b["body"]):
            if x.get("k") == "Call" and "fn" in x and fx_.by_dp.get(x["fn"].get("dp")) == root["path"]:
                n_calls += 1
                if pi >= len(x["args"]):
                    return None
                r_ = bounded_index(x["args"][pi], family_of(fx_, b), seen)
                if r_ is None:
                    return None
                rs.append(r_)
            elif x.get("k") == "Zst" and "fn" in x and fx_.by_dp.get(x["fn"].get("dp")) == root["path"]:
                return None     # used as a function value: call sites unknown
    if not n_calls:
        return None
    return "parameter of a private function, bounded at all %d call site(s): %s" % (n_calls, "; ".join(sorted(set(rs))))


def closure_param_is_index(var_node, fam):
    """closure parameter that receives the Some-payload of position()/rposition() through
    Option::map / map_or"""
    for m in fam.members[1:]:
        o = FL.Origins(m)
        if var_node["id"] in o.src and any(h == "param" for _, _, h in o.src[var_node["id"]]):
            use = fam.closure_use(m["path"])
            if not use:
                return None
            call, idx = use
            if F.is_call(call, "std::option::Option::<T>::map_or", "std::option::Option::<T>::map",
                         "std::option::Option::<T>::map_or_else", "std::option::Option::<T>::and_then"):
                recv = FL.peel(call["args"][0])
                if F.is_call(recv, *POSITION_CALLS):
                    return "closure parameter = Some-payload of position() (via %s)" % call["fn"]["path"].split("::")[-1]
            return None
    return None


def discharge(site, fx, policy):
    """policy: dict(untrusted_fields=bool, a_size=bool, invariants=set())"""
    n = site.node
    fam = family_of(fx, site.body)
    facts = None

    def get_facts():
        nonlocal facts
        if facts is None:
            facts = FL.dominating_facts(n, site.parents)
        return facts

    if site.kind == "cast":
        return None  # lossy casts are listed, never discharged here

    if site.kind == "arith":
        op = site.op
        l = n["l"] if "l" in n else None
        r = n["r"] if "r" in n else None
        if op in ("Div", "Rem"):
            d = int_lit(r)
            if d is not None and d != 0 and not (site.ty or "").startswith("i"):
                return "D-lit-divisor: unsigned division/remainder by non-zero literal %d" % d
            # divisor proven non-zero by a dominating assert_ne!(x, 0)/early return
            return None
        if op in ("Shl", "Shr"):
            d = int_lit(r)
            lty = F.strip(l).get("ty") if n["k"] == "Binary" else l.get("ty")
            if d is not None and lty in INT_TYPES and 0 <= d < width(lty):
                return "D-lit-shift: shift by literal %d < bit width" % d
            return None
        if op == "Add":
            if n["k"] == "AssignOp":
                one = int_lit(r)
                lhs = F.strip(l)
                if one == 1 and in_loop(site.parents):
                    root = lhs
                    while root.get("k") == "Field":
                        root = F.strip(root["e"])
                    if root.get("k") in ("Var", "Upvar"):
                        if l.get("ty") in ("usize", "u64"):
                            return "D-counter: 64-bit local counter incremented by 1 per loop iteration (cannot reach 2^64 iterations)"
                        if l.get("ty") == "u32" and policy.get("a_size"):
                            return "D-counter-u32: 32-bit counter incremented once per parsed record (assumption A-size: input < 4 GiB)"
                # the same counter idiom with the increment moved into a private `&mut self` helper that is only ever called from
                # inside loops (once per loop iteration per call site): `self.class.members_len += 1` in ClassInProgress::push_member
                if one == 1 and not in_loop(site.parents):
                    root = lhs
                    while root.get("k") in ("Field", "Deref"):
                        root = F.strip(root["e"])
                    if root.get("k") in ("Var", "Upvar") and (root.get("ty") or "").startswith("&mut ") and called_only_from_loops(fx, site.body["path"]):
                        if l.get("ty") in ("usize", "u64"):
                            return "D-counter: 64-bit counter incremented by 1 per call of a private helper that is only called from inside loops"
                        if l.get("ty") == "u32" and policy.get("a_size"):
                            return "D-counter-u32: 32-bit counter incremented once per call of a private helper only called per parsed record (assumption A-size: input < 4 GiB)"
                # i += 1 under a dominating i < len(x): i + 1 <= len(x) <= isize::MAX
                if one == 1 and lhs.get("k") in ("Var", "Upvar"):
                    for f, pol in get_facts():
                        f = F.strip(f)
                        if pol and f.get("k") == "Binary" and f["op"] == "Lt" and FL.same_place(f["l"], lhs) and F.is_call(FL.peel(f["r"]), *LEN_CALLS) \
                                and not modified_before(lhs, n, site.parents):
                            return "D-guard-lt-len: i += 1 dominated by i < len(x)"
                # running total of per-record counters: `total += x.count` in a loop where `count` is only ever `+= 1`-incremented
                rr = F.strip(r)
                if rr.get("k") == "Field" and in_loop(site.parents) and F.strip(l).get("k") in ("Var", "Upvar") \
                        and field_is_unit_counter(fx, rr["name"]):
                    if l.get("ty") in ("usize", "u64"):
                        return "D-counter: 64-bit running total of per-record counters"
                    if l.get("ty") == "u32" and policy.get("a_size"):
                        return "D-counter-u32: running total of per-record counters (assumption A-size: input < 4 GiB => < 2^32 records)"
                return None
            # `S { count: old.count + 1, ..old }`: a 64-bit field that is only ever 0, carried over, or incremented by one
            lf = F.strip(l)
            par0 = site.parents[-1] if site.parents else None
            if int_lit(r) == 1 and lf.get("k") == "Field" and site.ty in ("usize", "u64") and field_is_unit_counter(fx, lf["name"]):
                for q_ in reversed(site.parents[-3:]):
                    if q_.get("k") == "Adt" and any(f_["name"] == lf["name"] and any(x is n for x in F.walk(f_["e"])) for f_ in q_["fields"]):
                        return "D-counter: 64-bit unit counter (only ever 0, carried over or +1) incremented in a struct update"
            # `x = x + 1` inside a loop is the counter idiom too
            par = site.parents[-1] if site.parents else None
            while par is not None and par.get("k") in ("Borrow", "Deref", "Coerce") and len(site.parents) > 1:
                par = site.parents[site.parents.index(par) - 1]
            if par is not None and par.get("k") == "Assign" and int_lit(r) == 1 and FL.same_place(par["l"], l) and in_loop(site.parents):
                root = F.strip(l)
                while root.get("k") == "Field":
                    root = F.strip(root["e"])
                if root.get("k") in ("Var", "Upvar"):
                    if site.ty in ("usize", "u64"):
                        return "D-counter: 64-bit local counter incremented by 1 per loop iteration (x = x + 1 form)"
                    if site.ty == "u32" and policy.get("a_size"):
                        return "D-counter-u32: 32-bit counter incremented once per parsed record (assumption A-size)"
            a = bounded_index(l, fam)
            b = bounded_index(r, fam)
            if a and b and site.ty == "usize":
                return "D-two-indices: both operands <= isize::MAX (%s | %s), sum cannot overflow usize" % (a, b)
            # x + count(.. over the part of a slice from x on ..) <= len of that slice
            for u_, w_ in ((l, r), (r, l)):
                cs = count_source(w_, fam)
                if cs is not None and cs[0] == "from" and same_value(cs[1], u_, fam):
                    return "D-count-bounded: x + (a count over the elements from x on) <= len of the slice"
            return None
        if op == "Sub":
            # x.next_multiple_of(k) - x: the next multiple of k at or above x is not below x
            ln_ = FL.peel(l)
            lnv_ = value_expr(l, fam)
            ln_ = FL.peel(lnv_) if lnv_ is not None else ln_
            if F.is_call(ln_, "core::num::<impl usize>::next_multiple_of", "core::num::<impl u32>::next_multiple_of",
                         "core::num::<impl u64>::next_multiple_of") and ln_.get("args") and same_value(ln_["args"][0], r, fam):
                return "D-next-multiple: x.next_multiple_of(k) - x with next_multiple_of(x) >= x"
            # len(x) - p with p <= len(x)
            lp_ = FL.peel(l)
            if F.is_call(lp_, *LEN_CALLS) and pos_over_same(lp_["args"][0], r, fam):
                return "D-len-minus-pos: len(x) - p with p <= len(x)"
            # e - p where p is a position in (or the length of) the prefix slice `x[..e]`
            rv_ = value_expr(r, fam)
            rv_ = FL.peel(rv_) if rv_ is not None else None
            if rv_ is not None:
                seqs_ = []
                for y_ in F.walk(rv_):
                    if y_.get("k") == "Call" and "fn" in y_ and F.is_call(y_, *POSITION_CALLS) and y_.get("args"):
                        sq_ = iter_source(y_["args"][0])
                        if sq_ is None:
                            it_ = FL.peel(y_["args"][0])
                            while F.is_call(it_, "std::iter::Iterator::rev", "std::iter::Iterator::by_ref") and it_.get("args"):
                                it_ = FL.peel(it_["args"][0])
                            sq_ = iter_source(it_)
                        if sq_ is not None:
                            seqs_.append(sq_)
                if len(seqs_) == 1:
                    sq_ = FL.peel(seqs_[0])
                    rng_ = None
                    if sq_.get("k") == "Index":
                        rng_ = F.strip(sq_["index"])
                    elif F.is_call(sq_, "std::ops::Index::index"):
                        rng_ = F.strip(sq_["args"][1])
                    if rng_ is not None and rng_.get("k") == "Adt" and rng_["adt"].endswith("RangeTo") \
                            and same_value(rng_["fields"][0]["e"], l, fam) and pos_over_same(sq_, rv_, fam):
                        return "D-prefix-pos: e - p with p a position in (or the length of) the prefix slice x[..e]"
            if next_multiple_of_same(l, r, fam):
                return "D-round-up: len.next_multiple_of(N) - len is in 0..N (a len() is <= isize::MAX, the rounding cannot overflow)"
            # N - (e % N)
            lv = int_lit(l)
            rr = F.strip(r)
            if lv is not None and rr.get("k") == "Binary" and rr["op"] == "Rem" and int_lit(rr["r"]) == lv and lv > 0:
                return "D-sub-rem: %d - (e %% %d) is in 1..=%d" % (lv, lv, lv)
            # N - r with a proven upper bound of r (r bound from `e % N`, through a let, a match binding or an if/match value)
            if lv is not None and (site.ty or "").startswith("u"):
                ub = upper_bound(r, fam)
                if ub is not None and ub <= lv:
                    return "D-sub-bound: %d - r with r <= %d" % (lv, ub)
            # x - count(.. over the part of a slice before x ..): at most x elements are counted
            cs = count_source(r, fam)
            if cs is not None and cs[0] == "before" and same_value(cs[1], l, fam):
                return "D-count-bounded: a count over the first `x` elements is <= x"
            # x - 1 (or x -= 1) under a dominating x > 0 on the same, not yet modified binding
            if int_lit(r) == 1 and FL.peel(l).get("k") in ("Var", "Upvar") and (FL.peel(l).get("ty") or site.ty or "").startswith("u"):
                if positive_fact(FL.peel(l), get_facts()) and not modified_before(FL.peel(l), n, site.parents):
                    return "D-guard-pos: dominated by x > 0 on the same binding"
            # len(x) - b  with dominating starts_with/ends_with recipe
            rec = recipe_prefix_suffix(l, r, None, get_facts())
            if rec:
                return rec
            # align - 1 dominated by is_power_of_two(align)
            if int_lit(r) == 1:
                for f, pol in get_facts():
                    f = F.strip(f)
                    if pol and F.is_call(f, "is_power_of_two") and FL.same_place(f["args"][0], l):
                        return "D-pow2-sub1: dominated by is_power_of_two(x) => x >= 1"
            return None
        return None

    if site.kind == "index":
        idx = int_lit(n["index"])
        base = F.strip(n["e"])
        bty = base.get("ty", "")
        m = re.match(r"^\[.*; (\d+)\]$", bty)
        if idx is not None and m and idx < int(m.group(1)):
            return "D-array-lit-index: literal index %d into array of length %s" % (idx, m.group(1))
        # `pair[0]` / `pair[1]` on the item of `x.windows(N)` / `x.chunks_exact(N)`: every item has exactly N elements
        if idx is not None and F.strip(base).get("k") in ("Var", "Upvar"):
            bv_ = F.strip(base)
            for m_ in fam.members[1:]:
                o_ = FL.Origins(m_)
                if bv_["id"] in o_.src and any(h_ == "param" for _, _, h_ in o_.src[bv_["id"]]):
                    use_ = fam.closure_use(m_["path"])
                    if use_:
                        recv_ = FL.peel(use_[0]["args"][0]) if use_[0].get("args") else None
                        hops = 0
                        while recv_ is not None and hops < 4 and recv_.get("k") == "Call" and "fn" in recv_ and recv_["fn"]["path"].startswith("std::iter::Iterator::") \
                                and recv_["fn"]["path"].split("::")[-1] in ("by_ref", "peekable", "rev", "skip", "take", "filter", "skip_while", "take_while"):
                            recv_ = FL.peel(recv_["args"][0])
                            hops += 1
                        if recv_ is not None and F.is_call(recv_, "core::slice::<impl [T]>::windows", "core::slice::<impl [T]>::chunks_exact") and len(recv_["args"]) == 2:
                            nn_ = int_lit(recv_["args"][1])
                            if nn_ is not None and 0 <= idx < nn_:
                                return "D-window-index: item of %s(%d) indexed at %d" % (recv_["fn"]["path"].split("::")[-1], nn_, idx)
        if idx == 0:
            for f, pol in get_facts():
                f = F.strip(f)
                if not pol and F.is_call(f, "core::slice::<impl [T]>::is_empty", "core::str::<impl str>::is_empty") \
                        and FL.same_place(f["args"][0], base) and not reassigned(base, fam):
                    return "D-nonempty-idx0: dominated by !is_empty() on the same binding"
        ix = FL.peel(n["index"])
        # x[i] under a dominating `i < x.len()` (loop / if condition), i not modified in between
        if ix.get("k") in ("Var", "Upvar"):
            for f, pol in get_facts():
                f = F.strip(f)
                if pol and f.get("k") == "Binary" and f["op"] == "Lt" and FL.same_place(f["l"], ix) and F.is_call(FL.peel(f["r"]), *LEN_CALLS) \
                        and FL.same_place(FL.peel(f["r"])["args"][0], base) and not modified_before(ix, n, site.parents):
                    return "D-guard-lt-len: dominated by i < len(x) on the same bindings"
        # x[i - 1] under a dominating `i > 0`, where i only ever moves down from an in-bounds index of x
        if ix.get("k") == "Binary" and ix["op"] == "Sub" and int_lit(ix["r"]) == 1 and FL.peel(ix["l"]).get("k") in ("Var", "Upvar"):
            iv = FL.peel(ix["l"])
            if positive_fact(iv, get_facts()) and not modified_before(iv, n, site.parents) and descending_index_of(iv, base, fam):
                return "D-descending-index: i starts at an in-bounds index of x, only decreases, and i > 0 here => i - 1 < len(x)"
        return None

    if site.kind == "call":
        kind = site.op.split(":")[0]
        p = n["fn"]["path"]
        args = n["args"]
        if kind == "silent-wrap" and len(args) == 2:
            # judged like the plain operator on the same operands: discharged iff it cannot wrap
            op_ = {"add": "Add", "sub": "Sub", "mul": "Mul"}[p.rsplit("_", 1)[-1]]
            pseudo = Site("arith", op_, {"k": "Binary", "op": op_, "l": args[0], "r": args[1], "ty": n.get("ty"), "sp": n.get("sp")}, site.parents, site.body)
            pseudo.ty = site.ty or n.get("ty")
            r_ = discharge(pseudo, fx, policy)
            return ("(wrapping form) " + r_) if r_ else None
        if kind == "slice-panic" and p.endswith(("::windows", "::chunks", "::chunks_exact", "::rchunks", "::rchunks_exact")) and len(args) == 2:
            sz = int_lit(args[1])
            if sz is not None and sz > 0:
                return "D-nonzero-size: %s(%d) panics only for size 0" % (p.split("::")[-1], sz)
            return None
        if kind in ("slice-panic", "str-split_at") and p.endswith("split_at"):
            x, pos = args[0], args[1]
            r = pos_over_same(x, pos, fam)
            if r:
                return "D-pos-slice: " + r
            # fixed array split at a value with a proven upper bound <= its length
            xt = F.strip(x)
            while xt.get("k") in ("Borrow", "Deref"):
                xt = F.strip(xt["e"])
            m_ = re.match(r"^&?\[.*; (\d+)\]$", xt.get("ty", "") or "")
            if m_:
                ub = upper_bound(pos, fam)
                if ub is not None and ub <= int(m_.group(1)):
                    return "D-range-bound: split point <= %d <= array length %s (value-range of the bound)" % (ub, m_.group(1))
            for f, pol in get_facts():
                f = F.strip(f)
                # not (len(x) < pos)
                if not pol and f.get("k") == "Binary" and f["op"] == "Lt" and F.is_call(FL.peel(f["l"]), *LEN_CALLS) \
                        and FL.same_place(FL.peel(f["l"])["args"][0], x) and same_value(f["r"], pos, fam):
                    return "D-guard-len: dominated by !(len(x) < p)"
            return None
        if kind == "index-call":
            x, rng = args[0], F.strip(args[1])
            if (rng.get("k") == "Adt" and rng["adt"].endswith("RangeFull")) or rng.get("ty", "").endswith("RangeFull"):
                return "D-full-range: x[..] cannot fail"
            if rng.get("k") == "Adt" and rng["adt"].endswith(("RangeFrom", "RangeTo")):
                bound = rng["fields"][0]["e"]
                r = pos_over_same(x, bound, fam)
                if r:
                    return "D-pos-slice: " + r
                # x[..p] with p = e % N and x a fixed array of length >= N
                bty = re.sub(r"^&('\w+ )?", "", F.strip(x).get("ty", ""))       # (a static is referred to by reference)
                m = re.match(r"^\[.*; (\d+)\]$", bty)
                bv = value_expr(bound, fam)
                if m and rng["adt"].endswith("RangeTo") and bv is not None and bv.get("k") == "Binary" and bv["op"] == "Rem":
                    d = int_lit(bv["r"])
                    if d is not None and 0 < d <= int(m.group(1)):
                        return "D-rem-bound: end = e %% %d <= array length %s" % (d, m.group(1))
                if m and rng["adt"].endswith("RangeTo"):
                    ub = upper_bound(bound, fam)
                    if ub is not None and ub <= int(m.group(1)):
                        return "D-range-bound: end <= %d <= array length %s (value-range of the bound)" % (ub, m.group(1))
                return None
            if rng.get("k") == "Adt" and rng["adt"].endswith("::Range"):
                fs = {f["name"]: f["e"] for f in rng["fields"]}
                rec = recipe_prefix_suffix(None, None, (x, fs.get("start"), fs.get("end")), get_facts())
                if rec:
                    return rec
                return None
            return None
        if kind == "int-round":
            # x.next_multiple_of(N) / x.div_ceil(N) with x a len() (<= isize::MAX) and N a small positive literal: no overflow, no zero divisor
            nn = int_lit(args[1]) if len(args) == 2 else None
            a0 = value_expr(args[0], fam)
            if nn is not None and 0 < nn <= 4096 and (is_len_value(args[0], fam) or (a0 is not None and F.is_call(FL.peel(a0), *LEN_CALLS))):
                return "D-round-up: rounding a len() (<= isize::MAX) up to a multiple of the literal %d cannot overflow" % nn
            return None
        if kind == "unwrap":
            inner = FL.peel(args[0])
            # leb128::write::unsigned(&mut Vec<u8>, _).unwrap()
            if F.is_call(inner, "leb128::write::unsigned") and "std::vec::Vec<u8>" in F.strip(inner["args"][0]).get("ty", ""):
                return "D-infallible-vec-write: io::Write for Vec<u8> never fails"
            # x.as_deref_mut().unwrap() right after `x = Some(..)`
            if F.is_call(inner, "as_deref_mut", "as_mut", "as_ref", "as_deref"):
                place = inner["args"][0]
                prev = FL.prev_stmt(n, site.parents)
                # the unwrap may be the rhs of an assignment statement: look at the statement before that one
                if prev is not None and prev["k"] == "Expr":
                    pe = F.strip(prev["e"])
                    if pe.get("k") == "Assign" and FL.same_place(pe["l"], place):
                        rv = F.strip(pe["r"])
                        if rv.get("k") == "Adt" and rv["variant"] == "Some":
                            return "D-just-assigned-some: previous statement assigns Some(..) to the same place"
            return None
        if kind == "panic":
            # assert_ne!(size_of::<Self>(), 0) inside watto Pod helpers
            if site.body["krate"] == "watto" and "pod::Pod::slice_from" in site.body["path"]:
                sizes = [a.get("size") for a in fx.all_adts("proguard")
                         if any(im.get("trait") == "watto::Pod" and im["self"].split("::")[-1] == a["path"].split("::")[-1]
                                for im in fx.items["proguard"]["impls"])]
                if sizes and all(s and s > 0 for s in sizes):
                    return "D-size-nonzero: every Pod type of the crate has non-zero size (layout facts: %s)" % sizes
            # panic branch guarded by !is_power_of_two(align): all callers pass a power-of-two literal / align_of
            if site.body["krate"] == "watto" and ("is_aligned_to" in site.body["path"]):
                if all_callers_pass_pow2(fx, site.body["path"], 1):
                    return "D-lit-pow2: every caller passes align_of::<T>() or a power-of-two literal"
            return None
        if kind == "raw-parts" and site.body["krate"] == "watto":
            return "D-trusted-watto-unsafe: length/alignment checked on the dominating path (watto 0.1.0, lock-pinned; trusted base)"
        if kind == "align_offset":
            v = int_lit(value_expr(args[1], fam) or args[1])
            if v is not None and v > 0 and (v & (v - 1)) == 0:
                return "D-lit-pow2: align_offset with power-of-two literal %d" % v
            if site.body["krate"] == "watto" and all_callers_pass_pow2(fx, site.body["path"], 1):
                return "D-lit-pow2: every caller of %s passes a power-of-two literal" % site.body["path"]
            return None
        if kind == "sum-overflow":
            if "u32" in (n.get("ty") or "") and policy.get("a_size"):
                return "D-counter-u32: sum of per-class record counts (assumption A-size: input < 4 GiB => < 2^32 records)"
            if n.get("ty") in ("usize", "u64"):
                return "D-counter: 64-bit sum of in-memory counts"
            return None
    return None


_unit_counter_cache = {}
_loop_callers_cache = {}


def called_only_from_loops(fx, path, depth=0):
    """`path` is a private, non-recursive function of the crate and every call of it sits inside a loop body (or inside another such
    helper): it runs at most (static call sites) x (loop iterations) times"""
    key = (id(fx), path)
    if key in _loop_callers_cache:
        return _loop_callers_cache[key]
    _loop_callers_cache[key] = False        # (recursion guard: a cycle is not accepted)
    b = fx.bodies.get(path)
    if b is None or b.get("reachable_pub") or b.get("kind") not in ("Fn", "AssocFn") or depth > 3:
        return False
    n_calls, ok = 0, True
    for q, bq in fx.bodies.items():
        if bq["krate"] != "proguard":
            continue
        for n, parents in F.walk_with_parents(bq["body"]):
            if n.get("k") in ("Call", "Zst") and "fn" in n and fx.by_dp.get(n["fn"].get("dp")) == path:
                if n.get("k") == "Zst":
                    ok = False          # taken as a function value: call sites unknown
                    continue
                n_calls += 1
                if q == path:
                    ok = False
                elif in_loop(parents):
                    continue
                else:
                    owner = q.split("::{closure")[0]
                    if not (owner != path and called_only_from_loops(fx, owner, depth + 1)):
                        ok = False
    _loop_callers_cache[key] = ok and n_calls >= 1
    return _loop_callers_cache[key]


def field_is_unit_counter(fx, name):
    """every write to a field of this name anywhere in the crate is `+= 1` / `= x + 1` (struct literals may initialise it with 0)"""
    key = (id(fx), name)
    if key in _unit_counter_cache:
        return _unit_counter_cache[key]
    n_inc = 0
    okc = True
    for p, b in fx.bodies.items():
        if b["krate"] != "proguard" or (b.get("impl_trait") or "").endswith("Clone"):
            continue        # (a clone of a counter is a counter)
        for n in F.walk(b["body"]):
            k = n.get("k")
            if k in ("Assign", "AssignOp") and F.strip(n["l"]).get("k") == "Field" and F.strip(n["l"])["name"] == name:
                if k == "AssignOp" and n["op"].startswith("Add") and int_lit(n["r"]) == 1:
                    n_inc += 1
                else:
                    okc = False
            if k == "Adt":
                for f_ in n["fields"]:
                    if f_["name"] == name and int_lit(f_["e"]) != 0:
                        # `S { count: old.count + 1, ..old }` is the same increment written as a struct update
                        e_ = F.strip(f_["e"])
                        if e_.get("k") == "Binary" and e_["op"] == "Add" and int_lit(e_["r"]) == 1 and F.strip(e_["l"]).get("k") == "Field" \
                                and F.strip(e_["l"])["name"] == name:
                            n_inc += 1
                        elif e_.get("k") == "Field" and e_["name"] == name:
                            pass            # carried over unchanged
                        else:
                            okc = False
    _unit_counter_cache[key] = okc and n_inc >= 1
    return _unit_counter_cache[key]


def in_loop(parents):
    return any(p.get("k") == "Loop" for p in parents)


def reassigned(place, fam):
    place = F.strip(place)
    if place.get("k") in ("Var", "Upvar"):
        return fam.origins.is_reassigned(place["id"])
    return True


def value_expr(n, fam):
    """for an immutable single-source `let` variable return its initialiser, else the node"""
    n = F.strip(n)
    if n.get("k") in ("Var", "Upvar"):
        s = fam.origins.single(n["id"])
        if s and s[0] == () and s[2] == "let" and not fam.origins.is_reassigned(n["id"]) and s[1] is not None:
            return F.strip(s[1])
        return None
    return n


def same_value(a, b, fam):
    if FL.same_place(a, b):
        return True
    va, vb = value_expr(a, fam), value_expr(b, fam)
    return va is not None and vb is not None and FL.same_place(va, vb)


def has_loop_body(b):
    return any(n_.get("k") == "Loop" for n_ in F.walk(b["body"]))


def pos_over_same(x, pos, fam, depth=0, hd=0):
    """pos <= len(x): it is the payload of position()/binary_search over an iterator of the same
    sequence x, len(x), such a payload + 1, or a match/if all of whose arms are one of these"""
    pos_n = FL.peel(pos)
    if F.is_call(pos_n, *LEN_CALLS) and FL.same_place(pos_n["args"][0], x):
        return "bound is len() of the same sequence"
    if int_lit(pos_n) == 0:
        return "0 (<= any len)"
    xs_ = FL.peel(x)
    if xs_.get("k") in ("Index",) or F.is_call(xs_, "std::ops::Index::index"):
        # x is a prefix slice `y[..e]`: its length is e
        rng_ = F.strip(xs_["index"]) if xs_.get("k") == "Index" else F.strip(xs_["args"][1])
        if rng_.get("k") == "Adt" and rng_["adt"].endswith("RangeTo") and same_value(rng_["fields"][0]["e"], pos_n, fam):
            return "bound is the end of the prefix slice (= its length)"
    if pos_n.get("k") == "Binary" and pos_n["op"] == "Add" and int_lit(pos_n["r"]) == 1 and depth < 3:
        inner = pos_over_same(x, pos_n["l"], fam, depth + 1)
        if inner and "str::find" in inner and "one-byte" not in inner:
            return None         # (behind a multi-byte pattern `+ 1` is not a char boundary)
        if inner and "payload" in inner and "+ 1" not in inner:
            return "index payload + 1 (index < len => index + 1 <= len)"
        return None
    if pos_n.get("k") == "Binary" and pos_n["op"] == "Add" and depth < 3:
        # a + usize::from(a < len(x)) with a <= len(x): still <= len(x)
        rv = value_expr(pos_n["r"], fam)
        rv = FL.peel(rv) if rv is not None else None
        if rv is not None and F.is_call(rv, "std::convert::From::from", "std::convert::Into::into") and len(rv["args"]) == 1:
            c_ = FL.peel(rv["args"][0])
            if c_.get("k") == "Binary" and c_["op"] == "Lt" and same_value(c_["l"], pos_n["l"], fam) and F.is_call(FL.peel(c_["r"]), *LEN_CALLS) \
                    and FL.same_place(FL.peel(c_["r"])["args"][0], x) and pos_over_same(x, pos_n["l"], fam, depth + 1):
                return "a + (a < len) as usize with a <= len: at most len"
    if pos_n.get("k") == "Call" and "fn" in pos_n and hd < 2:
        # a private helper whose result is a bound of one of its own slice parameters (`fn find_or_end(bytes, p) -> usize`), called
        # with this sequence in that position
        fx_ = fam.fx
        tgt = fx_.by_dp.get(pos_n["fn"].get("dp"))
        hb = fx_.bodies.get(tgt) if tgt else None
        if hb is not None and hb["krate"] == "proguard" and hb.get("kind") in ("Fn", "AssocFn") and not hb.get("reachable_pub") and not has_loop_body(hb):
            t_ = F.strip(hb["body"])
            while t_.get("k") == "Block" and t_.get("tail") is not None:
                t_ = F.strip(t_["tail"])
            results = None if t_.get("k") == "Block" else [t_]
            if results is not None:
                for x_ in F.walk(hb["body"]):
                    if x_.get("k") == "Return":
                        if x_.get("e") is None:
                            results = None
                            break
                        results.append(x_["e"])
            if results:
                fam2 = family_of(fx_, hb)
                for i_, prm in enumerate(hb["params"]):
                    pat = prm.get("pat") or {}
                    if pat.get("k") != "Bind" or i_ >= len(pos_n["args"]) or not re.match(r"^&('\w+ )?(\[.*\]|str)$", prm.get("ty") or ""):
                        continue
                    if not FL.same_place(FL.peel(pos_n["args"][i_]), FL.peel(x)):
                        continue
                    pnode = {"k": "Var", "id": pat["id"], "name": pat.get("name"), "ty": prm.get("ty")}
                    if fam2.origins.is_reassigned(pat["id"]):
                        continue
                    rs = [pos_over_same(pnode, e_, fam2, 0, hd + 1) for e_ in results]
                    if all(rs):
                        return "result of private helper %s: a bound <= len of its parameter `%s`, which is this sequence" % (short_fn(tgt), pat.get("name"))
        if hb is not None:
            return None
    if pos_n.get("k") == "Match" and depth < 3 and FL.try_operand(pos_n) is None:
        rs = [pos_over_same(x, a["body"], fam, depth + 1) for a in pos_n["arms"]]
        if rs and all(rs):
            return "every match arm yields a bound <= len (" + " / ".join(sorted(set(rs))) + ")"
        return None
    if pos_n.get("k") == "If" and pos_n.get("else") is not None and depth < 3:
        rs = [pos_over_same(x, pos_n["then"], fam, depth + 1), pos_over_same(x, pos_n["else"], fam, depth + 1)]
        if all(rs):
            return "both branches yield a bound <= len"
        return None
    # position(..).map_or(len, |p| p + 1)  /  position(..).map(|p| p + 1).unwrap_or(len)
    if depth < 3 and F.is_call(pos_n, "std::option::Option::<T>::map_or", "std::option::Option::<T>::unwrap_or"):
        is_map_or = pos_n["fn"]["path"].endswith("map_or")
        recv = FL.peel(pos_n["args"][0])
        clo = pos_n["args"][2] if is_map_or else None
        if not is_map_or and F.is_call(recv, "std::option::Option::<T>::map"):
            clo = recv["args"][1]
            recv = FL.peel(recv["args"][0])
        dflt = pos_over_same(x, pos_n["args"][1], fam, depth + 1)
        # the length of the first piece a std splitting iterator cuts out of x: a sub-slice of x is at most as long as x
        if dflt and is_map_or and F.is_call(recv, "std::iter::Iterator::next") and len(recv["args"]) == 1:
            it_ = FL.peel(recv["args"][0])
            if F.is_call(it_, "core::slice::<impl [T]>::split_inclusive", "core::slice::<impl [T]>::split", "core::slice::<impl [T]>::splitn",
                         "core::str::<impl str>::split_inclusive", "core::str::<impl str>::split", "core::str::<impl str>::lines") \
                    and FL.same_place(FL.peel(it_["args"][0]), FL.peel(x)) and not (reassigned(x, fam) and F.strip(x).get("k") in ("Var", "Upvar")):
                cn = F.strip(clo)
                is_len = False
                if cn.get("k") == "Zst" and "fn" in cn and cn["fn"]["path"].endswith(("<impl [T]>::len", "<impl str>::len")):
                    is_len = True
                cb = next((m for m in fam.members[1:] if cn.get("k") == "Closure" and m["path"] == cn.get("def")), None)
                if cb is not None:
                    ps = [p_["pat"] for p_ in cb["params"] if p_.get("pat")]
                    body = FL.peel(cb["body"])
                    if len(ps) == 1 and ps[0].get("k") == "Bind" and F.is_call(body, *LEN_CALLS) and FL.peel(body["args"][0]).get("k") in ("Var", "Upvar") \
                            and FL.peel(body["args"][0])["id"] == ps[0]["id"]:
                        is_len = True
                if is_len:
                    return "length of the first piece split off this sequence (a sub-slice), or %s" % dflt
        if dflt and F.is_call(recv, *POSITION_CALLS) and iter_source(recv["args"][0]) is not None \
                and (FL.same_place(iter_source(recv["args"][0]), x) or FL.peel(iter_source(recv["args"][0])) is FL.peel(x)) \
                and not (reassigned(x, fam) and F.strip(x).get("k") in ("Var", "Upvar")):
            if clo is None:
                return "position() payload or a bound <= len (unwrap_or)"
            cn = F.strip(clo)
            cb = next((m for m in fam.members[1:] if cn.get("k") == "Closure" and m["path"] == cn.get("def")), None)
            if cb is not None:
                ps = [p_["pat"] for p_ in cb["params"] if p_.get("pat")]
                body = FL.peel(cb["body"])
                if len(ps) == 1 and ps[0].get("k") == "Bind":
                    pid = ps[0]["id"]
                    if body.get("k") in ("Var", "Upvar") and body["id"] == pid:
                        return "position() payload (via map_or) or a bound <= len"
                    if body.get("k") == "Binary" and body["op"] == "Add" and int_lit(body["r"]) == 1 \
                            and FL.peel(body["l"]).get("k") in ("Var", "Upvar") and FL.peel(body["l"])["id"] == pid:
                        return "position() payload + 1 (via map_or) or a bound <= len"
        return None
    if pos_n.get("k") not in ("Var", "Upvar"):
        return None
    srcs = fam.origins.sources(pos_n["id"])
    if not srcs or all(h == "param" for _, _, h in srcs):
        # parameter of a closure handed to Option::map / map_or / and_then: it receives the Some-payload of the receiver
        use = None
        for m in fam.members[1:]:
            o = FL.Origins(m)
            if pos_n["id"] in o.src and any(h == "param" for _, _, h in o.src[pos_n["id"]]):
                use = fam.closure_use(m["path"])
                break
        if not use or not F.is_call(use[0], "std::option::Option::<T>::map_or", "std::option::Option::<T>::map",
                                    "std::option::Option::<T>::map_or_else", "std::option::Option::<T>::and_then"):
            return None
        recv = value_expr(use[0]["args"][0], fam)
        recv = FL.peel(recv) if recv is not None else None
        if recv is None or not F.is_call(recv, *POSITION_CALLS):
            return None
        seq = iter_source(recv["args"][0])
        if seq is None or not FL.same_place(seq, x) or (reassigned(x, fam) and F.strip(x).get("k") in ("Var", "Upvar")):
            return None
        return "closure parameter = Some-payload of position() over the same (unmodified) sequence"
    if len(srcs) == 1 and srcs[0][0] == () and srcs[0][2] == "let" and srcs[0][1] is not None and depth < 3 \
            and not fam.origins.is_reassigned(pos_n["id"]):
        init = FL.peel(srcs[0][1]) if FL.try_operand(F.strip(srcs[0][1])) is None else None
        if init is not None and (init.get("k") in ("Match", "If", "Binary")
                                 or F.is_call(init, "std::option::Option::<T>::map_or", "std::option::Option::<T>::unwrap_or")
                                 or (init.get("k") == "Call" and "fn" in init and fam.fx.by_dp.get(init["fn"].get("dp")) in fam.fx.bodies
                                     and fam.fx.bodies[fam.fx.by_dp.get(init["fn"].get("dp"))]["krate"] == "proguard")):
            return pos_over_same(x, init, fam, depth + 1)
    str_find = None
    for path, expr, how in srcs:
        if expr is None:
            return None
        e = F.strip(expr)
        steps = list(path)
        t = FL.try_operand(e)
        if t is not None:
            steps = [("payload", "0")] + steps
            e = t
        e = FL.peel(e)
        while F.is_call(e, "std::result::Result::<T, E>::ok"):
            e = FL.peel(e["args"][0])
        if len(steps) != 1 or steps[0][0] not in ("Some", "Ok", "payload"):
            return None
        if F.is_call(e, *POSITION_CALLS):
            seq = iter_source(e["args"][0])
            if seq is None or not FL.same_place(seq, x):
                return None
        elif F.is_call(e, "core::slice::<impl [T]>::binary_search_by", "core::slice::<impl [T]>::binary_search"):
            if not FL.same_place(e["args"][0], x):
                return None
        elif F.is_call(e, "core::str::<impl str>::find", "core::str::<impl str>::rfind"):
            # byte index of a match in the same str: a char boundary < len
            if not FL.same_place(e["args"][0], x):
                return None
            pat = str_lit(e["args"][1])
            str_find = "one-byte pattern" if (pat is not None and len(pat.encode("utf-8")) == 1) else "pattern"
        else:
            return None
    if reassigned(x, fam) and F.strip(x).get("k") in ("Var", "Upvar"):
        # the sequence binding must not change between the search and the slice
        return None
    if str_find:
        return "split point is the payload of str::find/rfind (%s) over the same (unmodified) str" % str_find
    return "split point is the payload of position()/binary_search over the same (unmodified) sequence"


def count_source(n, fam, depth=0):
    """n is `<iterator over part of a slice>.count()` (possibly through a let): ("before"|"from", split point expr) when the
    iterator runs over `x.split_at(p).0` / `x[..p]` (before) or `.1` / `x[p..]` (from), through rev/take_while/filter/iter"""
    if depth > 4:
        return None
    n = FL.peel(n)
    if n.get("k") in ("Var", "Upvar"):
        s_ = fam.origins.single(n["id"])
        if s_ and s_[0] == () and s_[2] == "let" and s_[1] is not None and not fam.origins.is_reassigned(n["id"]):
            return count_source(s_[1], fam, depth + 1)
        return None
    if not F.is_call(n, "std::iter::Iterator::count"):
        return None
    it = FL.peel(n["args"][0])
    while F.is_call(it, "std::iter::Iterator::rev", "std::iter::Iterator::take_while", "std::iter::Iterator::filter",
                    "std::iter::Iterator::skip_while", "std::iter::Iterator::take"):
        it = FL.peel(it["args"][0])
    seq = iter_source(it)
    if seq is None:
        return None
    return slice_part(seq, fam)


def slice_part(seq, fam, depth=0):
    seq = FL.peel(seq)
    if depth > 4:
        return None
    if seq.get("k") in ("Var", "Upvar"):
        srcs = fam.origins.sources(seq["id"])
        if len(srcs) == 1 and srcs[0][2] == "let" and srcs[0][1] is not None and not fam.origins.is_reassigned(seq["id"]):
            path, expr, how = srcs[0]
            e = FL.peel(expr)
            # let (before, from) = x.split_at(p)
            if F.is_call(e, "core::slice::<impl [T]>::split_at") and len(path) == 1 and path[0][0] in ("tuple", "leaf") and str(path[0][1]) in ("0", "1"):
                return ("before" if str(path[0][1]) == "0" else "from", e["args"][1])
            if path == ():
                return slice_part(e, fam, depth + 1)
        return None
    if F.is_call(seq, "std::ops::Index::index"):
        rng = F.strip(seq["args"][1])
        if rng.get("k") == "Adt" and rng["adt"].endswith("RangeTo") and not rng["adt"].endswith("RangeToInclusive"):
            return ("before", rng["fields"][0]["e"])
        if rng.get("k") == "Adt" and rng["adt"].endswith("RangeFrom"):
            return ("from", rng["fields"][0]["e"])
    return None


def positive_fact(v, facts):
    """a dominating fact says v > 0 (v > 0, 0 < v, v != 0, v >= 1)"""
    for f, pol in facts:
        f = F.strip(f)
        if f.get("k") != "Binary":
            continue
        l_, r_ = FL.peel(f["l"]), FL.peel(f["r"])
        if pol and f["op"] == "Gt" and FL.same_place(l_, v) and int_lit(r_) == 0:
            return True
        if pol and f["op"] == "Lt" and FL.same_place(r_, v) and int_lit(l_) == 0:
            return True
        if pol and f["op"] == "Ne" and FL.same_place(l_, v) and int_lit(r_) == 0:
            return True
        if (not pol) and f["op"] == "Eq" and FL.same_place(l_, v) and int_lit(r_) == 0:
            return True
        if pol and f["op"] == "Ge" and FL.same_place(l_, v) and (int_lit(r_) or 0) >= 1:
            return True
    return False


def modified_before(v, site_node, parents):
    """v is assigned / mutably borrowed somewhere in the innermost guarded region (the enclosing `if`/`while` body or the
    right operand of `&&`) textually before site_node. Conservative: any other write to v inside that region counts."""
    region = None
    chain = list(parents) + [site_node]
    for i in range(len(chain) - 2, -1, -1):
        p = chain[i]
        if p.get("k") == "If" and chain[i + 1] is p.get("then"):
            region = p["then"]; break
        if p.get("k") == "Logical" and chain[i + 1] is p.get("r"):
            region = p["r"]; break
    if region is None:
        return True
    for x in F.walk(region):
        if x is site_node:
            continue
        k = x.get("k")
        if k in ("Assign", "AssignOp") and FL.same_place(x["l"], v) and not any(y is site_node for y in F.walk(x)):
            # a write other than the site itself; allowed only if it comes after the site (the site is inside an earlier statement)
            if not _comes_after(region, site_node, x):
                return True
        if k == "Borrow" and x.get("mut") and FL.same_place(x["e"], v):
            return True
    return False


def _comes_after(region, first, second):
    order = [id(x) for x in F.walk(region)]
    try:
        return order.index(id(second)) > order.index(id(first))
    except ValueError:
        return False


def descending_index_of(v, base, fam):
    """v's sources: one `let` whose initialiser is an in-bounds index of `base` (payload of binary_search / position over it),
    every other write is `v -= <literal>`"""
    srcs = fam.origins.sources(v["id"])
    n_init = 0
    for path, expr, how in srcs:
        if how == "assignop":
            if not (expr.get("k") == "AssignOp" and expr["op"].startswith("Sub") and (int_lit(expr["r"]) or 0) >= 0 and int_lit(expr["r"]) is not None):
                return False
            continue
        if how != "let" or path != () or expr is None:
            return False
        n_init += 1
        r = pos_over_same(base, expr, fam)
        if not r or "payload" not in r or "+ 1" in r:
            # the initialiser may itself be a variable holding the payload
            e = FL.peel(expr)
            if not (e.get("k") in ("Var", "Upvar") and pos_over_same(base, e, fam) and "payload" in pos_over_same(base, e, fam)):
                return False
    return n_init == 1


def upper_bound(n, fam, depth=0):
    """a proven inclusive upper bound of an unsigned integer expression, or None. Understands literals, `e % N`, `N - r`
    (with r <= N), if/match values, and variables bound once by `let`, or bound by a match-arm pattern to the scrutinee."""
    if depth > 6:
        return None
    n = FL.peel(n)
    v = int_lit(n)
    if v is not None:
        return v if v >= 0 else None
    k = n.get("k")
    if k == "Binary" and n["op"] == "Rem":
        d = int_lit(n["r"])
        return d - 1 if d is not None and d > 0 else None
    if k == "Binary" and n["op"] == "BitAnd":
        # x & m <= m (and <= x)
        ms_ = [int_lit(n["l"]), int_lit(n["r"])]
        ms_ = [m_ for m_ in ms_ if m_ is not None and m_ >= 0]
        return min(ms_) if ms_ else None
    if k == "Binary" and n["op"] == "Sub":
        a = int_lit(n["l"])
        b = upper_bound(n["r"], fam, depth + 1)
        if a is not None and b is not None and b <= a:
            return a
        # x.next_multiple_of(N) - x  is in 0..N
        nm = next_multiple_of_same(n["l"], n["r"], fam)
        return nm - 1 if nm else None
    if k == "If" and n.get("else") is not None:
        x, y = upper_bound(n["then"], fam, depth + 1), upper_bound(n["else"], fam, depth + 1)
        return max(x, y) if x is not None and y is not None else None
    if k == "Match" and FL.try_operand(n) is None:
        bs = [upper_bound(a_["body"], fam, depth + 1) for a_ in n["arms"]]
        return max(bs) if bs and all(b_ is not None for b_ in bs) else None
    if k == "Block" and n.get("tail") is not None and not n["stmts"]:
        return upper_bound(n["tail"], fam, depth + 1)
    if k in ("Var", "Upvar"):
        if fam.origins.is_reassigned(n["id"]):
            return None
        srcs = fam.origins.sources(n["id"])
        if not srcs:
            return None
        out = []
        for path, expr, how in srcs:
            if expr is None or path != () or how not in ("let", "match", "iflet"):
                return None
            # `let x = e` or a match-arm binding pattern `x => ..` over scrutinee e: x is (a value of) e
            b_ = upper_bound(expr, fam, depth + 1)
            if b_ is None:
                return None
            out.append(b_)
        return max(out)
    if k == "Cast":
        return upper_bound(n["e"], fam, depth + 1)
    if k == "Call" and "fn" in n and depth < 4:
        # a private helper of the crate: the bound of its result expression (e.g. `fn padding_len(n) -> usize { n.wrapping_neg() % 8 }`)
        fx_ = fam.fx
        tgt = fx_.by_dp.get(n["fn"].get("dp"))
        hb = fx_.bodies.get(tgt) if tgt else None
        if hb is not None and hb["krate"] == "proguard" and hb.get("kind") in ("Fn", "AssocFn"):
            tail = F.strip(hb["body"])
            while tail.get("k") == "Block" and tail.get("tail") is not None and not any(s_["k"] != "Let" for s_ in tail.get("stmts", [])):
                tail = F.strip(tail["tail"])
            return upper_bound(tail, family_of(fx_, hb), depth + 1)
    return None


def is_len_value(e, fam, depth=0):
    """e is a `len()` of a slice/str/Vec (<= isize::MAX) - directly, through `let`, or as a `usize` parameter of a private function
    every call of which passes such a value"""
    if depth > 3:
        return False
    v = value_expr(e, fam)
    v = FL.peel(v) if v is not None else FL.peel(e)
    if F.is_call(v, *LEN_CALLS):
        return True
    if v.get("k") in ("Var", "Upvar"):
        root = fam.root
        if root.get("kind") not in ("Fn", "AssocFn") or root.get("reachable_pub"):
            return False
        pi = [i for i, prm in enumerate(root["params"]) if prm.get("pat") and prm["pat"].get("k") == "Bind" and prm["pat"].get("id") == v["id"]
              and prm.get("ty") == "usize"]
        if len(pi) != 1 or fam.origins.is_reassigned(v["id"]):
            return False
        fx_, n_calls = fam.fx, 0
        for b in fx_.bodies.values():
            if b["krate"] != "proguard":
                continue
            for x in F.walk(b["body"]):
                if x.get("k") == "Call" and "fn" in x and fx_.by_dp.get(x["fn"].get("dp")) == root["path"]:
                    n_calls += 1
                    if pi[0] >= len(x["args"]) or not is_len_value(x["args"][pi[0]], family_of(fx_, b), depth + 1):
                        return False
                elif x.get("k") == "Zst" and "fn" in x and fx_.by_dp.get(x["fn"].get("dp")) == root["path"]:
                    return False
        return n_calls > 0
    return False


def next_multiple_of_same(l, r, fam):
    """N if l is (a let-bound copy of) `r.next_multiple_of(N)` with a positive literal/constant N, and r is a len(): l >= r and
    l - r < N; the rounding itself cannot overflow because a len() is <= isize::MAX"""
    lv = value_expr(l, fam)
    lv = FL.peel(lv) if lv is not None else None
    if lv is None or not (lv.get("k") == "Call" and "fn" in lv and lv["fn"]["path"].endswith("::next_multiple_of") and len(lv["args"]) == 2):
        return None
    nn = int_lit(lv["args"][1])
    if nn is None or not (0 < nn <= 4096):
        return None
    if not is_len_value(r, fam) or not same_value(lv["args"][0], r, fam):
        return None
    return nn


def str_lit(n):
    n = F.strip(n)
    while n.get("k") in ("Borrow", "Deref"):
        n = F.strip(n["e"])
    if n.get("k") == "Lit" and n["lit"]["t"] in ("str", "char"):
        return n["lit"]["v"]
    # a named constant holding a string / char literal
    if n.get("k") == "Const" and isinstance(n.get("val"), dict):
        v = n["val"]
        if v.get("t") == "pretty" and re.match(r'^"([^"\\]|\\.)*"$', (v.get("v") or "").strip()):
            try:
                import ast
                return ast.literal_eval((v["v"] or "").strip())
            except Exception:
                return None
        if v.get("t") == "int" and n.get("ty") == "char" and 0 <= v["v"] < 0x110000:
            return chr(v["v"])
    return None


def len_lit(n):
    """an integer literal, or `<string literal or string constant>.len()`"""
    v = int_lit(n)
    if v is not None:
        return v
    n = FL.peel(n)
    if F.is_call(n, "core::str::<impl str>::len", "core::char::methods::<impl char>::len_utf8", "std::char::methods::<impl char>::len_utf8") and len(n["args"]) == 1:
        sl = str_lit(n["args"][0])
        if sl is not None:
            return len(sl.encode("utf-8"))
    return None


def recipe_prefix_suffix(len_expr, sub_rhs, range_site, facts):
    """D-recipe: `x[a .. len(x) - b]` (and the `len(x) - b` inside it) when dominated by
    starts_with(P) and ends_with(Q) on the same x, a == len(P), b == len(Q), P and Q ASCII and no
    non-empty suffix of P is a prefix of Q (so P and Q cannot overlap: len(x) >= a + b)."""
    pre = suf = None
    target = None
    for f, pol in facts:
        f = F.strip(f)
        if pol and F.is_call(f, "core::str::<impl str>::starts_with"):
            pre = (f["args"][0], str_lit(f["args"][1]))
        if pol and F.is_call(f, "core::str::<impl str>::ends_with"):
            suf = (f["args"][0], str_lit(f["args"][1]))
    if not pre or not suf or pre[1] is None or suf[1] is None:
        return None
    P, Q = pre[1], suf[1]
    if not (P.isascii() and Q.isascii()) or not FL.same_place(pre[0], suf[0]):
        return None
    for k in range(1, min(len(P), len(Q)) + 1):
        if P[-k:] == Q[:k]:
            return None
    x = pre[0]
    if range_site is not None:
        sx, start, end = range_site
        if not FL.same_place(sx, x) or start is None or end is None:
            return None
        e = F.strip(end)
        if len_lit(start) == len(P) and e.get("k") == "Binary" and e["op"] == "Sub" and len_lit(e["r"]) == len(Q) \
                and F.is_call(FL.peel(e["l"]), *LEN_CALLS) and FL.same_place(FL.peel(e["l"])["args"][0], x):
            return "D-recipe(prefix/suffix): dominated by starts_with(%r) && ends_with(%r): len >= %d, cut points are ASCII boundaries" % (P, Q, len(P) + len(Q))
        return None
    le = FL.peel(len_expr)
    if F.is_call(le, *LEN_CALLS) and FL.same_place(le["args"][0], x) and len_lit(sub_rhs) is not None and len_lit(sub_rhs) <= len(P) + len(Q):
        return "D-recipe(prefix/suffix): len(x) >= %d by starts_with(%r) && ends_with(%r)" % (len(P) + len(Q), P, Q)
    return None


def all_callers_pass_pow2(fx, callee_path, arg_idx):
    n_calls = 0
    callee_dp = fx.bodies[callee_path]["dp"] if callee_path in fx.bodies else None
    for b in fx.bodies.values():
        for n in F.walk(b["body"]):
            if n.get("k") == "Call" and "fn" in n and (n["fn"]["path"] == callee_path or n["fn"].get("dp") == callee_dp):
                n_calls += 1
                a = FL.peel(n["args"][arg_idx])
                v = int_lit(a)
                if v is not None and v > 0 and (v & (v - 1)) == 0:
                    continue
                if F.is_call(a, "std::mem::align_of", "core::mem::align_of"):
                    continue
                return False
    return n_calls > 0
