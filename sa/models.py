"""Models of std combinators for the fragment canonicaliser (sym.py). Trusted base: each model
states what the std function returns on opaque terms; nothing here evaluates repository code."""
import re
import facts as F
from sym import (VAL, RET, NONE, TRUE, FALSE, UNIT, some, ok, err, mk_payload, mk_field, lit_int, lin_norm,
                 Undecidable, short_path, simplify_atom, St)

IDENTITY = (
    "std::clone::Clone::clone", "std::ops::Deref::deref", "std::ops::DerefMut::deref_mut", "std::convert::AsRef::as_ref",
    "std::borrow::Borrow::borrow", "std::string::String::as_str", "std::option::Option::as_ref", "std::option::Option::as_deref",
    "std::option::Option::as_mut", "std::option::Option::as_deref_mut", "std::option::Option::copied",
    "std::option::Option::cloned", "std::iter::IntoIterator::into_iter", "std::hint::must_use", "std::iter::Iterator::by_ref",
    "std::result::Result::as_ref", "std::vec::Vec::as_slice", "std::borrow::ToOwned::to_owned", "std::boxed::Box::new",
    "std::iter::Iterator::copied", "std::iter::Iterator::cloned",
)


def fork_is(sym, st, t, variant):
    """[(state, True/False)] on `t is variant` with simplification"""
    r = simplify_atom(("is", t, variant))
    if r is True:
        return [(st, True)]
    if r is False:
        return [(st, False)]
    out = []
    s1 = st.with_cond(("is", t, variant), True)
    if s1 is not None:
        out.append((s1, True))
    s2 = st.with_cond(("is", t, variant), False)
    if s2 is not None:
        out.append((s2, False))
    return out


def closure_term(sym, fval, nargs, st, n):
    """canonical term of a closure / fn value applied to bound symbols"""
    bound = [("bound", i) for i in range(nargs)]
    res = sym.apply(fval, bound, st.copy(), n)
    if len(res) == 1 and res[0][0].conds == st.conds and res[0][0].effects == st.effects:
        return res[0][1][1]
    base = len(st.conds)
    return ("cases", tuple(sorted(((s.conds[base:], s.effects[len(st.effects):], v) for s, (k, v) in res), key=repr)))


def decode_template(b):
    pieces = []
    i = 0
    while i < len(b):
        c = b[i]
        if c == 0:
            break
        if c == 0xC0:
            pieces.append(("hole",))
            i += 1
        elif c < 0x80:
            pieces.append(("txt", b[i + 1:i + 1 + c].decode("utf8", "replace")))
            i += 1 + c
        else:
            pieces.append(("spec", c))
            i += 1
    # merge adjacent literals
    out = []
    for p in pieces:
        if out and p[0] == "txt" and out[-1][0] == "txt":
            out[-1] = ("txt", out[-1][1] + p[1])
        else:
            out.append(p)
    return tuple(out)


def special_form(sym, n, st):
    return None


def default_of(ty):
    ty = ty or ""
    if ty in ("&str", "&'static str") or re.match(r"^&('\w+ )?str$", ty):
        return ("lit", "str", "")
    if ty in ("usize", "u32", "u64", "u8", "i32", "i64"):
        return lit_int(0)
    if ty == "bool":
        return FALSE
    if ty.startswith("std::option::Option<"):
        return NONE
    return ("default", ty)


from sym import WIDEN as S_WIDEN


def apply_model(sym, n, f, vals, mut_idx, st):
    p = short_path(f["path"])
    last = p.split("::")[-1]
    local = sym.fx.by_dp.get(f.get("resolved_dp")) or sym.fx.by_dp.get(f.get("dp"))
    # calling a closure held in a variable (`let f = |x| ..; f(a)` is `Fn::call(&f, (a,))`, resolved to the closure body): the
    # argument tuple is untupled here - the closure body binds its parameters one by one
    if p in ("std::ops::Fn::call", "std::ops::FnMut::call_mut", "std::ops::FnOnce::call_once") and len(vals) == 2 and vals[1][0] == "tuple":
        fv = vals[0]
        if fv[0] == "place" and not fv[2] and n.get("args"):
            # `let mut f = |x| ..; f(a)`: an FnMut closure is called through `&mut f` - the callee is the closure the variable holds
            pl = sym.place_of(n["args"][0], st)
            if pl is not None and pl[3] is None and not pl[2]:
                cur = sym.read_var({"id": pl[0], "name": pl[1]}, st)
                if cur[0] in ("closure", "fnref"):
                    fv = cur
        if fv[0] in ("closure", "fnref"):
            return sym.apply(fv, list(vals[1][1]), st, n)
    if local and sym.fx.bodies[local]["krate"] in sym.krates:
        return None     # local code is inlined / kept opaque by sym, never modelled

    def V(t, s=st):
        return [(s, (VAL, t))]

    if p in IDENTITY or (p.endswith(("::as_ref", "::as_deref", "::as_str")) and len(vals) == 1 and not mut_idx):
        return V(vals[0])
    if p in ("std::convert::Into::into", "std::convert::From::from") and len(vals) == 1:
        a0 = (n.get("args") or [{}])[0]
        if (F.strip(a0).get("ty") == "bool" or a0.get("ty") == "bool") and (n.get("ty") or "") in ("usize", "u8", "u16", "u32", "u64", "i32", "i64", "isize"):
            # `usize::from(cond)`: 1 or 0
            if vals[0] in (TRUE, FALSE):
                return V(lit_int(1 if vals[0] == TRUE else 0))
            out = []
            for pol in (True, False):
                s1 = st.with_cond(vals[0] if vals[0][0] != "bool" else vals[0], pol)
                if s1 is not None:
                    out.append((s1, (VAL, lit_int(1 if pol else 0))))
            return out
        return V(vals[0])

    if p == "core::str::as_bytes" and len(vals) == 1 and vals[0][0] == "payload" and vals[0][2] == "Ok" and vals[0][1][0] == "call" \
            and vals[0][1][1] in ("std::str::from_utf8", "core::str::from_utf8") and len(vals[0][1][2]) == 1:
        return V(vals[0][1][2][0])      # the bytes of a successfully validated str are the validated bytes

    if p == "std::ops::Index::index" and len(vals) == 2 and (vals[1] == ("adt", "RangeFull", "RangeFull", ()) or (vals[1][0] == "zst" and "RangeFull" in str(vals[1]))):
        return V(vals[0])       # x[..] is x

    # ---- Option ------------------------------------------------------------------------------------------
    if p.startswith("std::option::Option::"):
        o = vals[0] if vals else None
        if last == "is_some":
            return V(("is", o, "Some"))
        if last == "is_none":
            return V(("not", ("is", o, "Some")))
        if last in ("map", "map_or", "map_or_else", "and_then", "unwrap_or", "unwrap_or_default", "unwrap_or_else",
                    "ok_or", "ok_or_else", "or", "or_else", "unwrap", "expect", "filter", "is_some_and", "zip", "xor"):
            out = []
            for s, is_some in fork_is(sym, st, o, "Some"):
                pay = mk_payload(o, "Some", "0")
                if last == "map":
                    out += [(s2, (k, some(v))) for s2, (k, v) in sym.apply(vals[1], [pay], s, n)] if is_some else [(s, (VAL, NONE))]
                elif last == "map_or":
                    out += sym.apply(vals[2], [pay], s, n) if is_some else [(s, (VAL, vals[1]))]
                elif last == "map_or_else":
                    out += sym.apply(vals[2], [pay], s, n) if is_some else sym.apply(vals[1], [], s, n)
                elif last == "and_then":
                    out += sym.apply(vals[1], [pay], s, n) if is_some else [(s, (VAL, NONE))]
                elif last == "unwrap_or":
                    out.append((s, (VAL, pay if is_some else vals[1])))
                elif last == "unwrap_or_default":
                    out.append((s, (VAL, pay if is_some else default_of(n.get("ty")))))
                elif last == "unwrap_or_else":
                    out += [(s, (VAL, pay))] if is_some else sym.apply(vals[1], [], s, n)
                elif last == "ok_or":
                    out.append((s, (VAL, ok(pay) if is_some else err(vals[1]))))
                elif last == "ok_or_else":
                    out += [(s, (VAL, ok(pay)))] if is_some else [(s2, (k, err(v))) for s2, (k, v) in sym.apply(vals[1], [], s, n)]
                elif last == "or":
                    out.append((s, (VAL, o if is_some else vals[1])))
                elif last == "or_else":
                    out += [(s, (VAL, o))] if is_some else sym.apply(vals[1], [], s, n)
                elif last in ("unwrap", "expect"):
                    if is_some:
                        out.append((s, (VAL, pay)))
                    else:
                        out.append((s.eff(("panic", last)), (RET, ("panic",))))
                elif last == "filter":
                    if not is_some:
                        out.append((s, (VAL, NONE)))
                    else:
                        for s2, (k, v) in sym.apply(vals[1], [pay], s, n):
                            for s3, r in sym.fork_bool(s2, v):
                                out.append((s3, (VAL, o if r else NONE)))
                elif last == "is_some_and":
                    out += sym.apply(vals[1], [pay], s, n) if is_some else [(s, (VAL, FALSE))]
                elif last == "zip":
                    if not is_some:
                        out.append((s, (VAL, NONE)))
                    else:
                        for s2, other_some in fork_is(sym, s, vals[1], "Some"):
                            out.append((s2, (VAL, some(("tuple", (pay, mk_payload(vals[1], "Some", "0")))) if other_some else NONE)))
                else:
                    return None
            return out
        if last == "then_some":
            return None
    if f["path"].endswith("<impl bool>::then_some"):
        out = []
        for s, r in sym.fork_bool(st, vals[0]):
            out.append((s, (VAL, some(vals[1]) if r else NONE)))
        return out
    if f["path"].endswith("<impl bool>::then"):
        out = []
        for s, r in sym.fork_bool(st, vals[0]):
            if r:
                out += [(s2, (k, some(v))) for s2, (k, v) in sym.apply(vals[1], [], s, n)]
            else:
                out.append((s, (VAL, NONE)))
        return out

    # ---- Result --------------------------------------------------------------------------------------------
    if p.startswith("std::result::Result::"):
        r0 = vals[0] if vals else None
        if last == "is_ok":
            return V(("is", r0, "Ok"))
        if last == "is_err":
            return V(("not", ("is", r0, "Ok")))
        if last in ("ok", "err", "map", "map_err", "unwrap_or", "unwrap_or_default", "unwrap_or_else", "and_then",
                    "unwrap", "expect", "map_or", "map_or_else"):
            out = []
            for s, is_ok in fork_is(sym, st, r0, "Ok"):
                pay = mk_payload(r0, "Ok", "0")
                epay = mk_payload(r0, "Err", "0")
                if last == "ok":
                    out.append((s, (VAL, some(pay) if is_ok else NONE)))
                elif last == "err":
                    out.append((s, (VAL, NONE if is_ok else some(epay))))
                elif last == "map":
                    out += [(s2, (k, ok(v))) for s2, (k, v) in sym.apply(vals[1], [pay], s, n)] if is_ok else [(s, (VAL, err(epay)))]
                elif last == "map_err":
                    out += [(s, (VAL, ok(pay)))] if is_ok else [(s2, (k, err(v))) for s2, (k, v) in sym.apply(vals[1], [epay], s, n)]
                elif last == "unwrap_or":
                    out.append((s, (VAL, pay if is_ok else vals[1])))
                elif last == "unwrap_or_default":
                    out.append((s, (VAL, pay if is_ok else default_of(n.get("ty")))))
                elif last == "unwrap_or_else":
                    out += [(s, (VAL, pay))] if is_ok else sym.apply(vals[1], [epay], s, n)
                elif last == "and_then":
                    out += sym.apply(vals[1], [pay], s, n) if is_ok else [(s, (VAL, err(epay)))]
                elif last == "map_or":
                    out += sym.apply(vals[2], [pay], s, n) if is_ok else [(s, (VAL, vals[1]))]
                elif last == "map_or_else":
                    out += sym.apply(vals[2], [pay], s, n) if is_ok else sym.apply(vals[1], [epay], s, n)
                elif last in ("unwrap", "expect"):
                    if is_ok:
                        out.append((s, (VAL, pay)))
                    else:
                        out.append((s.eff(("panic", last)), (RET, ("panic",))))
            return out

    # ---- comparisons -------------------------------------------------------------------------------------------
    if p == "std::cmp::PartialEq::eq":
        return V(("eq", vals[0], vals[1]))
    if p == "std::cmp::PartialEq::ne":
        return V(("not", ("eq", vals[0], vals[1])))
    if p == "std::cmp::PartialOrd::lt":
        return V(("lt", vals[0], vals[1]))
    if p == "std::cmp::PartialOrd::gt":
        return V(("lt", vals[1], vals[0]))
    if p == "std::cmp::PartialOrd::ge":
        return V(("not", ("lt", vals[0], vals[1])))
    if p == "std::cmp::PartialOrd::le":
        return V(("not", ("lt", vals[1], vals[0])))
    if p == "std::cmp::Ord::cmp":
        if vals[0][0] == "tuple" and vals[1][0] == "tuple" and len(vals[0][1]) == len(vals[1][1]) == 2:
            return V(("then", ("cmp3", vals[0][1][0], vals[1][1][0]), ("cmp3", vals[0][1][1], vals[1][1][1])))
        return V(("cmp3", vals[0], vals[1]))
    if p in ("std::cmp::Ordering::then_with", "std::cmp::Ordering::then") and len(vals) == 2:
        # lexicographic composition; the second comparison is pure, so evaluating it eagerly changes nothing
        first = vals[0]
        if first[0] == "adt" and first[1] == "Ordering" and first[2] in ("Less", "Greater"):
            return V(first)
        EQ_ = ("adt", "Ordering", "Equal", ())

        def mk_then(a_, b_):
            # Equal is the unit of the lexicographic composition on both sides
            return b_ if a_ == EQ_ else (a_ if b_ == EQ_ else ("then", a_, b_))
        if p.endswith("then_with"):
            out = []
            for s2, (k2, v2) in sym.apply(vals[1], [], st, n):
                out.append((s2, (k2, mk_then(first, v2))))
            return out
        return V(mk_then(first, vals[1]))
    if p == "std::cmp::Ordering::is_ne":
        return V(("not", ("eq", vals[0], ("adt", "Ordering", "Equal", ()))))
    if p == "std::cmp::Ordering::is_eq":
        return V(("eq", vals[0], ("adt", "Ordering", "Equal", ())))

    # ---- `(a..=b).start()` / `.end()` are a and b ---------------------------------------------------------------------------------
    if last in ("start", "end") and len(vals) == 1 and re.match(r"^std::ops::RangeInclusive(::<[^>]*>)?::(start|end)$", p):
        r_ = vals[0]
        if r_[0] == "call" and r_[1].endswith("::new") and "RangeInclusive" in r_[1] and len(r_[2]) == 2:
            return V(r_[2][0] if last == "start" else r_[2][1])
        if r_[0] == "adt" and r_[1] == "RangeInclusive" and dict(r_[3]).get(last) is not None:
            return V(dict(r_[3])[last])
    # ---- ranges: (a..=b).contains(&x) / (a..b).contains(&x) are the two comparisons ------------------------------------
    if last == "contains" and len(vals) == 2 and re.match(r"^std::ops::Range(Inclusive)?(::<[^>]*>)?::contains$", p):
        r_, x = vals
        lo = hi = None
        incl = "RangeInclusive" in p
        if r_[0] == "call" and r_[1].endswith("::new") and "RangeInclusive" in r_[1] and len(r_[2]) == 2:
            lo, hi = r_[2]
        elif r_[0] == "adt" and r_[1] in ("Range", "RangeInclusive"):
            d_ = dict(r_[3])
            lo, hi = d_.get("start"), d_.get("end")
        if lo is not None and hi is not None:
            out = []
            for s, below in sym.fork_bool(st, ("lt", x, lo)):
                if below:
                    out.append((s, (VAL, FALSE)))
                    continue
                atom = ("lt", hi, x) if incl else ("not", ("lt", x, hi))
                for s2, above in sym.fork_bool(s, atom):
                    out.append((s2, (VAL, FALSE if above else TRUE)))
            return out

    # ---- slice.first(): None when empty, Some(&x[0]) otherwise -------------------------------------------------------
    if p == "core::slice::first" and len(vals) == 1 and not mut_idx:
        out = []
        for s, emp in sym.fork_bool(st, ("empty", vals[0])):
            out.append((s, (VAL, NONE if emp else some(("index", vals[0], lit_int(0))))))
        return out

    # ---- constant folding over literals: "at ".len(), ')'.len_utf8() -------------------------------------------------
    if p == "core::str::len" and len(vals) == 1 and vals[0][0] == "lit" and vals[0][1] == "str":
        return V(lit_int(len(vals[0][2].encode("utf8"))))
    if last == "len_utf8" and len(vals) == 1 and vals[0][0] == "lit" and vals[0][1] == "char":
        return V(lit_int(len(vals[0][2].encode("utf8"))))

    # ---- strings / slices ------------------------------------------------------------------------------------------
    if last == "is_empty" and len(vals) == 1 and not mut_idx:
        return V(("empty", vals[0]))
    raw = f["path"]
    if re.match(r"^core::num::<impl [ui]\w+>::(saturating|wrapping)_add$", raw):
        return V(lin_norm([(vals[0], 1), (vals[1], 1)]))
    if re.match(r"^core::num::<impl [ui]\w+>::(saturating|wrapping)_sub$", raw):
        return V(lin_norm([(vals[0], 1), (vals[1], -1)]))
    if re.match(r"^core::num::<impl [ui]\w+>::checked_(add|sub)$", raw):
        sign = 1 if raw.endswith("add") else -1
        if sign == -1 and re.match(r"^core::num::<impl u\w+>::", raw):
            # unsigned a.checked_sub(b) is Some exactly when !(a < b) (sym.simplify_atom)
            return V(("checked", lin_norm([(vals[0], 1), (vals[1], sign)]), "u-", vals[0], vals[1]))
        return V(("checked", lin_norm([(vals[0], 1), (vals[1], sign)])))

    # ---- the first piece of `x.split_inclusive(p)` (a slice): up to and including the first element matching p, else all of x; an
    # empty x has no piece at all
    if p == "std::iter::Iterator::next" and len(vals) == 1 and vals[0][0] == "call" and vals[0][1] == "core::slice::split_inclusive" and len(vals[0][2]) == 2 \
            and vals[0][2][1][0] in ("closure", "fnref"):
        x_, pr_ = vals[0][2]
        pos_ = ("call", "std::iter::Iterator::position", (("call", "core::slice::iter", (x_,)), pr_))
        out = []
        for s1, is_some in fork_is(sym, st, pos_, "Some"):
            if is_some:
                end_ = lin_norm([(mk_payload(pos_, "Some", "0"), 1)], 1)
                out.append((s1, (VAL, some(("prefix", x_, end_)))))
            else:
                for pol in (True, False):
                    s2 = s1.with_cond(("empty", x_), pol)
                    if s2 is not None:
                        out.append((s2, (VAL, NONE if pol else some(x_))))
        return out
    if last == "len" and len(vals) == 1 and vals[0][0] == "prefix":
        return V(vals[0][2])       # x[..k].len() is k
    if last == "len" and len(vals) == 1 and vals[0][0] == "call" and vals[0][1] == "std::ops::Index::index" and len(vals[0][2]) == 2 \
            and vals[0][2][1][0] == "adt" and vals[0][2][1][1] == "RangeTo" and len(vals[0][2][1][3]) == 1:
        return V(vals[0][2][1][3][0][1])       # x[..k].len() is k (the slicing itself succeeded)
    # `it.rev().position(p)` over a slice iterator counts from the back: Some(len - 1 - i) where i = rposition(p)
    if p == "std::iter::Iterator::position" and len(vals) == 2 and vals[0][0] == "call" and vals[0][1] == "std::iter::Iterator::rev" \
            and len(vals[0][2]) == 1 and vals[0][2][0][0] == "call" and vals[0][2][0][1] == "core::slice::iter" and not mut_idx:
        inner_it = vals[0][2][0]
        xs_ = inner_it[2][0]
        rp_ = ("call", "std::iter::Iterator::rposition", (inner_it, vals[1]))
        ln_ = ("call", "core::slice::len", (xs_,))
        if xs_[0] == "call" and xs_[1] == "std::ops::Index::index" and len(xs_[2]) == 2 and xs_[2][1][0] == "adt" and xs_[2][1][1] == "RangeTo":
            ln_ = xs_[2][1][3][0][1]
        out = []
        for s1, is_some in fork_is(sym, st, rp_, "Some"):
            out.append((s1, (VAL, some(lin_norm([(ln_, 1), (mk_payload(rp_, "Some", "0"), -1)], -1)) if is_some else NONE)))
        return out
    if last == "len" and len(vals) == 1 and vals[0][0] == "const" and vals[0][2]:
        # the length of a byte-array / byte-string constant whose value the compiler printed
        import ast as _ast
        try:
            lit_ = _ast.literal_eval(vals[0][2].lstrip("*&"))
            if isinstance(lit_, (bytes, str)):
                return V(lit_int(len(lit_) if isinstance(lit_, bytes) else len(lit_.encode("utf-8"))))
        except Exception:
            pass

    # ---- the last piece of a split, taken from either end ------------------------------------------------------------------------
    if p == "std::iter::Iterator::next" and len(vals) == 1 and vals[0][0] == "call" and vals[0][1] == "core::str::rsplit" and len(vals[0][2]) == 2:
        return V(("call", "std::iter::Iterator::last", (("call", "core::str::split", vals[0][2]),)))
    if p == "std::iter::DoubleEndedIterator::next_back" and len(vals) == 1 and vals[0][0] == "call" and vals[0][1] == "core::str::split" and len(vals[0][2]) == 2:
        return V(("call", "std::iter::Iterator::last", (vals[0],)))
    if p == "std::iter::Iterator::last" and len(vals) == 1 and vals[0][0] == "call" and vals[0][1] == "core::str::rsplit" and len(vals[0][2]) == 2:
        return V(("call", "std::iter::Iterator::next", (("call", "core::str::split", vals[0][2]),)))

    # ---- str::splitn(2, pat) as the two halves of split_once(pat) ---------------------------------------------------------
    if p == "std::iter::Iterator::next" and len(vals) == 1 and vals[0][0] == "place" and n.get("args"):
        pl = sym.place_of(n["args"][0], st)
        cur = None
        if pl is not None:
            for s2, (k2, v2) in sym.ev(strip_mut(n["args"][0]), st):
                if k2 == VAL:
                    cur = v2
        if cur is not None and cur[0] == "call" and cur[1] in ("core::str::splitn", "core::str::rsplitn") and len(cur[2]) == 3 and cur[2][1] == lit_int(2):
            # splitn(2, p): (before, after) of split_once(p); rsplitn(2, p): (after, before) of rsplit_once(p)
            src, pat = cur[2][0], cur[2][2]
            rev = cur[1].endswith("rsplitn")
            so = ("call", "core::str::rsplit_once" if rev else "core::str::split_once", (src, pat))
            out = []
            for s, is_some in fork_is(sym, st, so, "Some"):
                if is_some:
                    pr = mk_payload(so, "Some", "0")
                    s = sym.write_place(s, pl, ("splitn_tail", some(mk_field(pr, "0" if rev else "1"))))
                    out.append((s, (VAL, some(mk_field(pr, "1" if rev else "0")))))
                else:
                    s = sym.write_place(s, pl, ("splitn_tail", NONE))
                    out.append((s, (VAL, some(src))))
            return out
        if cur is not None and cur[0] == "splitn_tail":
            s = sym.write_place(st, pl, ("splitn_tail", NONE))
            return [(s, (VAL, cur[1]))]
        if cur is not None and cur[0] == "call" and cur[1] == "std::iter::Iterator::map" and len(cur[2]) == 2 and cur[2][1][0] in ("closure", "fnref") \
                and pl is not None and pl[3] is None:
            # next() on `inner.map(f)` held in a local: Some(f(x)) where x is what the underlying iterator yields; the variable keeps
            # being `rest.map(f)`. The effect is recorded as next() on the variable, like for an un-adapted iterator.
            s = st.copy()
            s.n += 1
            t = ("mcall", p, (vals[0],), s.n)
            s.effects = s.effects + (("call", p, (vals[0],), s.n),)
            sym.before.setdefault(t, set()).add(cur[2][0])      # (the entries come from the underlying iterator; `map` keeps their number and order)
            s = sym.write_place(s, pl, ("call", cur[1], (("after", t, 0), cur[2][1])))
            out = []
            for s2, is_some in fork_is(sym, s, t, "Some"):
                if is_some:
                    for s3, (k3, v3) in sym.apply(cur[2][1], [mk_payload(t, "Some", "0")], s2, n):
                        out.append((s3, (VAL, some(v3))))
                else:
                    out.append((s2, (VAL, NONE)))
            return out

    # ---- `TABLE.iter().find(|e| p(e))` over a literal table: the first element satisfying p ---------------------------------------
    if p in ("std::iter::Iterator::find", "std::iter::Iterator::position", "std::iter::Iterator::any") and len(vals) == 2 \
            and vals[1][0] in ("closure", "fnref") and not mut_idx:
        src = vals[0]
        while src[0] == "call" and src[1].endswith(("IntoIterator::into_iter", "core::slice::iter", "core::array::iter")) and len(src[2]) == 1:
            src = src[2][0]
        if src[0] == "array" and 0 < len(src[1]) <= 32 and all(e_[0] in ("tuple", "lit") for e_ in src[1]):
            states = [st]
            out = []
            for i_, el in enumerate(src[1]):
                nxt = []
                for s0 in states:
                    for s1, (k1, v1) in sym.apply(vals[1], [el], s0, n):
                        for s2, hit in sym.fork_bool(s1, v1):
                            if hit:
                                res_ = some(el) if last == "find" else (some(lit_int(i_)) if last == "position" else TRUE)
                                out.append((s2, (VAL, res_)))
                            else:
                                nxt.append(s2)
                states = nxt
            return out + [(s0, (VAL, FALSE if last == "any" else NONE)) for s0 in states]

    # ---- `map.extend(opt)` with a known `Option<(K, V)>`: nothing for None, one `insert(k, v)` for Some((k, v)) ----------------------
    if p == "std::iter::Extend::extend" and len(vals) == 2 and mut_idx == [0] and vals[0][0] == "place" and vals[1][0] == "adt" and vals[1][1] == "Option" \
            and n.get("args") and re.search(r"(BTreeMap|HashMap)<", (strip_mut(n["args"][0]).get("ty") or "") + (n["args"][0].get("ty") or "")):
        if vals[1][2] == "None":
            return V(UNIT)
        pay = vals[1][3][0][1] if vals[1][3] else None
        if vals[1][2] == "Some" and pay is not None and pay[0] == "tuple" and len(pay[1]) == 2:
            kind_ = "BTreeMap" if "BTreeMap<" in ((strip_mut(n["args"][0]).get("ty") or "") + (n["args"][0].get("ty") or "")) else "HashMap"
            s1 = st.copy()
            s1.n += 1
            nm_ = "std::collections::%s::insert" % kind_
            args_ = (vals[0], pay[1][0], pay[1][1])
            s1.effects = s1.effects + (("call", nm_, args_, s1.n),)
            pl = sym.place_of(n["args"][0], s1)
            if pl is not None:
                s1 = sym.write_place(s1, pl, ("after", ("mcall", nm_, args_, s1.n), 0))
            return [(s1, (VAL, UNIT))]

    # ---- `[a, b].into_iter().fold(init, f)` is f(f(init, a), b) -----------------------------------------------------------------------
    if p == "std::iter::Iterator::fold" and len(vals) == 3 and vals[2][0] in ("closure", "fnref"):
        src = vals[0]
        while src[0] == "call" and src[1].endswith(("IntoIterator::into_iter", "core::slice::iter", "core::array::iter")) and len(src[2]) == 1:
            src = src[2][0]
        if src[0] == "array" and len(src[1]) <= 8:
            states = [(st, vals[1])]
            for el in src[1]:
                nxt = []
                for s0, acc in states:
                    for s1, (k1, v1) in sym.apply(vals[2], [acc, el], s0, n):
                        if k1 != VAL:
                            return None
                        nxt.append((s1, v1))
                states = nxt
            return [(s0, (VAL, acc)) for s0, acc in states]

    # ---- `[a, b, c].into_iter().try_for_each(f)`: f(a)?; f(b)?; f(c)?; Ok(()) --------------------------------------------------
    if p == "std::iter::Iterator::try_for_each" and len(vals) == 2 and vals[1][0] in ("closure", "fnref"):
        src = vals[0]
        while src[0] == "call" and src[1].endswith(("IntoIterator::into_iter", "core::slice::iter", "core::array::iter")) and len(src[2]) == 1:
            src = src[2][0]
        if src[0] == "array" and 0 < len(src[1]) <= 8:
            states = [st]
            out = []
            for el in src[1]:
                nxt = []
                for s0 in states:
                    for s1, (k1, v1) in sym.apply(vals[1], [el], s0, n):
                        if v1[0] == "adt" and v1[2] in ("Ok", "Continue"):
                            nxt.append(s1)
                            continue
                        if v1[0] == "adt" and v1[2] in ("Err", "Break"):
                            out.append((s1, (VAL, v1)))
                            continue
                        for s2, is_ok in fork_is(sym, s1, v1, "Ok"):
                            if is_ok:
                                nxt.append(s2)
                            else:
                                out.append((s2, (VAL, err(mk_payload(v1, "Err", "0")))))
                states = nxt
            return out + [(s0, (VAL, ok(UNIT))) for s0 in states]

    # ---- `it.map(|x| <closure with effects on captured places>).collect()` is a loop: `for x in it { v.push(f(x)) }` ------------
    if p == "std::iter::Iterator::collect" and len(vals) == 1 and vals[0][0] == "call" and vals[0][1] == "std::iter::Iterator::map" \
            and len(vals[0][2]) == 2 and vals[0][2][1][0] == "closure" and sym.inline_mut and "Vec<" in (n.get("ty") or ""):
        it, clo = vals[0][2]
        key = ("collect-map", clo[1])
        idx = sym.loops[key]["index"] if key in sym.loops else sym._reserved.get(key)
        if idx is None:
            idx = sym._next_loop
            sym._next_loop += 1
            sym._reserved[key] = idx
        nxt = ("mcall", "std::iter::Iterator::next", (("place", "<mapped>", ()),), 990 + idx)
        elem = mk_payload(nxt, "Some", "0")
        vname = "<collected#%d>" % idx
        # first pass: which captured places does one application mutate?
        try:
            probe = sym.apply(clo, [elem], St(dict(st.env), dict(st.store), st.conds, (), st.n), n)
        except Exception:
            probe = None
        muts = set()
        if probe:
            for s1, o1 in probe:
                for e in s1.effects:
                    if e[0] in ("call", "assign", "opassign"):
                        tgt = e[2][0] if e[0] == "call" and e[2] else (e[1] if e[0] == "assign" else e[2])
                        if isinstance(tgt, tuple) and tgt[:1] == ("place",):
                            muts.add(tgt[1])
        # loop-carried roots: the variables the closure captures by mutable borrow
        root_vids = {}
        cb_ = sym.fx.bodies.get(clo[1])
        pb_ = sym.fx.bodies.get(cb_.get("parent")) if cb_ else None
        if pb_ is None and cb_ is not None:
            pb_ = sym.fx.bodies.get(clo[1].rsplit("::{closure", 1)[0])
        for x in (F.walk(pb_["body"]) if pb_ else ()):
            if x.get("k") == "Closure" and x.get("def") == clo[1]:
                for u in x.get("upvars", []):
                    if u.get("k") == "Borrow" and u.get("mut"):
                        v_ = F.strip(u["e"])
                        if v_.get("k") in ("Var", "Upvar"):
                            root_vids[v_["id"]] = v_["name"]
        if probe and (muts or root_vids):
            entry = St(dict(st.env), dict(st.store), st.conds, (), st.n)
            for vid, nm in root_vids.items():
                entry.env[vid] = ("loop", nm, idx)
                for sk in [sk for sk in entry.store if sk[0] == vid]:
                    del entry.store[sk]
            some_entry = entry.copy()
            some_entry.conds = entry.conds + ((("is", nxt, "Some"), True),)
            try:
                body_paths = sym.apply(clo, [elem], some_entry, n)
            except Exception:
                body_paths = None
            if body_paths:
                paths = []
                for s2, (k2, v2) in body_paths:
                    s3 = s2.copy()
                    s3.n += 1
                    s3.effects = s2.effects + (("call", "std::vec::Vec::push", (("place", vname, ()), v2), s3.n),)
                    paths.append((s3, ("cont", None)))
                end = entry.copy()
                end.conds = entry.conds + ((("is", nxt, "Some"), False),)
                paths.append((end, ("brk", None)))
                if key not in sym.loops:
                    sym.loop_order.append(key)
                    sym.loops[key] = dict(node=dict(k="Loop", sp=n.get("sp", "?"), body=dict(k="Block", stmts=[], tail=None, sp=n.get("sp", "?"))),
                                          entry=entry, paths=paths, index=idx, pre=st, driver=it, synthetic="collect(map)")
                after = st.copy()
                for vid, nm in root_vids.items():
                    after.env[vid] = ("loop", nm, idx)
                    for sk in [sk for sk in after.store if sk[0] == vid]:
                        del after.store[sk]
                after.effects = st.effects + (("loopsum", idx),)
                return [(after, (VAL, ("loop", vname, idx)))]

    # ---- iterators (pure lookahead) -----------------------------------------------------------------------------------
    if p == "std::iter::Peekable::peek":
        v0 = vals[0]
        if v0[0] in ("place", "pl") and n.get("args"):
            for s2, (k2, v2) in sym.ev(strip_mut(n["args"][0]), st):
                if k2 == VAL:
                    v0 = v2
        if v0[0] == "loop" or v0[0] == "place":
            return V(("peek", vals[0]))
        return V(("peek", v0))
    if p in ("std::iter::Iterator::all", "std::iter::Iterator::any") and len(vals) == 2:
        itv = vals[0]
        if itv[0] == "place":
            # the iterator *value* at this point
            pl = sym.place_of(n["args"][0], st) if n.get("args") else None
            if pl is not None:
                for s2, (k, v) in sym.ev(strip_mut(n["args"][0]), st):
                    itv = v
        pred = closure_term(sym, vals[1], 1, st, n)
        if itv[0] == "call" and itv[1] == "std::iter::Iterator::map" and len(itv[2]) == 2 and itv[2][1][0] in ("closure", "fnref"):
            # all/any over `inner.map(f)` with predicate p is all/any over `inner` with p . f
            fterm = closure_term(sym, itv[2][1], 1, st, n)
            if fterm[0] != "cases":
                import fc as _fc
                pred = _fc.rewrite(pred, lambda t_: fterm if t_ == ("bound", 0) else None)
                itv = itv[2][0]
        s = st
        if n.get("args"):
            pl = sym.place_of(n["args"][0], st)
            if pl is not None:
                s = sym.write_place(st, pl, ("exhausted", itv))
        return [(s, (VAL, ("quant", last, itv, pred)))]

    # ---- fmt ---------------------------------------------------------------------------------------------------------------
    if p == "std::fmt::Arguments::new" and len(vals) == 2:
        tpl = vals[0]
        args = vals[1]
        if tpl[0] == "lit" and tpl[1] == "bytes":
            pieces = decode_template(tpl[2])
            av = args[1] if args[0] == "array" else (args,)
            kinds = []
            for a in av:
                if a[0] == "call" and a[1].startswith("core::fmt::rt::Argument::new_"):
                    kinds.append((a[1].split("new_")[-1], a[2][0]))
                else:
                    kinds.append(("?", a))
            pieces, kinds = splice_display_adapters(sym, n, pieces, kinds)
            return V(fold_literal_args(pieces, tuple(kinds)))
    if p == "std::fmt::Arguments::from_str" and len(vals) == 1:
        return V(("fmtargs", (("txt", vals[0][2]),) if vals[0][0] == "lit" else (("dyn", vals[0]),), ()))
    if p == "std::fmt::format" and len(vals) == 1:
        return V(("format", vals[0]))
    # `usize::try_from(x)` / `x.try_into()` from a narrower unsigned type: always Ok(x) (the analysed build is the 64-bit one the
    # crate is built for; `u32 -> usize` fails only on 16-bit targets)
    if p in ("std::convert::TryFrom::try_from", "std::convert::TryInto::try_into") and len(vals) == 1 and len(f.get("targs") or []) == 2:
        ta_ = list(f["targs"])
        dst_, src_ = (ta_[0], ta_[1]) if p.endswith("try_from") else (ta_[1], ta_[0])
        if (src_, dst_) in S_WIDEN and not src_.startswith("i") and not dst_.startswith("i") and dst_ != "char":
            return V(("adt", "Result", "Ok", (("0", vals[0]),)))
    m_ = re.match(r"^core::num::<impl (u8|u16|u32|u64|usize)>::(max_value|min_value)$", f["path"])
    if m_ and not vals:
        bits_ = {"u8": 8, "u16": 16, "u32": 32, "u64": 64, "usize": 64}[m_.group(1)]
        return V(lit_int((1 << bits_) - 1 if m_.group(2) == "max_value" else 0))
    # other spellings of "these strings one after the other": `[a, b].concat()`, `a.to_owned() + b` - the text `format!("{a}{b}")` builds

    def str_parts(v_):
        if v_[0] == "format" and v_[1][0] == "fmtargs":
            return list(v_[1][1]), list(v_[1][2])
        if v_[0] == "lit" and v_[1] == "str":
            return ([("txt", v_[2])] if v_[2] else []), []
        if v_[0] == "call" and v_[1] in ("std::string::String::new",) and not v_[2]:
            return [], []
        return [("hole",)], [("display", v_)]

    def mk_format(vs_):
        pcs_, args_ = [], []
        for v_ in vs_:
            a_, b_ = str_parts(v_)
            pcs_ += a_
            args_ += b_
        merged_ = []
        for pc_ in pcs_:
            if pc_[0] == "txt" and merged_ and merged_[-1][0] == "txt":
                merged_[-1] = ("txt", merged_[-1][1] + pc_[1])
            else:
                merged_.append(pc_)
        return ("format", ("fmtargs", tuple(merged_), tuple(args_)))
    if p == "std::slice::concat" and len(vals) == 1 and vals[0][0] == "array" and n.get("args") and (n["args"][0].get("ty") or "") in ("&[&str]", "&[&str; %d]" % len(vals[0][1])):
        return V(mk_format(list(vals[0][1])))
    if p == "std::ops::Add::add" and len(vals) == 2 and n.get("args") and (n["args"][0].get("ty") or "") == "std::string::String" \
            and (n["args"][1].get("ty") or "") == "&str":
        return V(mk_format([vals[0], vals[1]]))
    # `f.write_str(x)` writes what `write!(f, "{}", x)` writes
    if p in ("std::fmt::Formatter::write_str", "std::fmt::Write::write_str") and len(vals) == 2 and mut_idx == [0]:
        fa_ = mk_format([vals[1]])[1]
        s1 = st.copy()
        s1.n += 1
        nm_ = p[:-len("write_str")] + "write_fmt"
        s1.effects = s1.effects + (("call", nm_, (vals[0], fa_), s1.n),)
        res_ = ("mcall", nm_, (vals[0], fa_), s1.n)
        return [(s1, (VAL, res_))]
    # std::mem::replace(&mut place, v) / take(&mut place): the old value is returned, the place now holds v / Default
    if p in ("std::mem::replace", "std::mem::take") and vals and vals[0][0] == "place" and n.get("args"):
        pl = sym.place_of(n["args"][0], st)
        threaded_ = pl is not None and len(pl) > 3 and pl[3] is not None and sym.thread_places and pl[3][0] == "place"
        if pl is not None and (not (len(pl) > 3 and pl[3] is not None) or threaded_):
            old = None
            for s2, (k2, v2) in sym.ev(strip_mut(n["args"][0]), st):
                if k2 == VAL:
                    old = v2
            newv = vals[1] if p.endswith("replace") else default_of((n["args"][0].get("ty") or "").replace("&mut ", "", 1))
            if old is not None:
                s = sym.write_place(st, pl, newv).eff(("assign", sym.place_term(pl), newv))
                return [(s, (VAL, old))]

    if sym.string_values and p in ("std::string::String::push_str", "std::string::String::push") and mut_idx == [0] and len(vals) == 2 \
            and vals[0][0] == "place" and not vals[0][2]:
        pl = sym.place_of(n["args"][0], st)
        if pl is not None and pl[3] is None and not pl[2]:
            old = sym.read_var({"id": pl[0], "name": pl[1]}, st)
            if old[0] in ("format", "strcat", "lit") or (old[0] == "call" and old[1].endswith(("String::new", "concat", "to_string", "to_owned", "String::from"))):
                s = st.copy()
                s.n += 1
                s.effects = s.effects + (("call", p, tuple(vals), s.n),)
                s = sym.write_place(s, pl, ("strcat", old, vals[1]))
                return [(s, (VAL, UNIT))]
    # OnceLock / OnceCell / LazyLock: the cell's value is what the initialiser returns (each rule that relies on this checks that
    # the cell is only ever reached through get_or_init)
    if re.match(r"^std::(sync|cell)::Once(Lock|Cell)(::<[^>]*>)?::get_or_init$", p) and len(vals) == 2 and vals[1][0] in ("closure", "fnref"):
        return sym.apply(vals[1], [], st, n)
    # calling a closure / fn item through the Fn* traits (a generic `f: impl Fn(..)` parameter applied to arguments)
    if p in ("std::ops::Fn::call", "std::ops::FnMut::call_mut", "std::ops::FnOnce::call_once") and len(vals) == 2 \
            and vals[0][0] in ("closure", "fnref") and vals[1][0] == "tuple":
        return sym.apply(vals[0], list(vals[1][1]), st, n)
    if p.startswith("lazy_static::lazy::Lazy") and last == "get" and len(vals) == 2 and vals[1][0] == "fnref":
        # lazy_static: the static's value is the value its initialiser returns (run once; trusted base)
        return sym.apply(vals[1], [], st, n)
    if p == "std::default::Default::default" and not vals:
        return V(default_of(n.get("ty")))
    return None


def splice_display_adapters(sym, n, pieces, kinds):
    """`write!(w, "{}", Indented(&frame))` with a crate-private adapter whose hand-written `Display` is one
    `write!(f, "    {}", self.0)`: the adapter's template is spliced in place of the hole (what ends up in the output is the same
    text). Only plain `{}` holes, only private types, only single-write impls without conditions."""
    out_p, out_k, i = [], [], 0
    changed = False
    for pc in pieces:
        if pc[0] != "hole":
            out_p.append(pc)
            continue
        kd = kinds[i] if i < len(kinds) else None
        i += 1
        sp = None
        if kd is not None and len(pc) == 1 and kd[0] == "display" and kd[1][0] == "adt" and len(sym.stack) < 12:
            tname = kd[1][1]
            cands = [b_ for q_, b_ in sym.fx.bodies.items() if b_.get("impl_trait") == "std::fmt::Display" and b_.get("name") == "fmt"
                     and b_["krate"] in sym.krates and re.sub(r"<.*$", "", b_.get("impl_self") or "").split("::")[-1] == tname]
            adt_ = [a_ for a_ in sym.fx.all_adts() if a_["path"].split("::")[-1] == tname and a_["path"].split("::")[0] in sym.krates]
            if len(cands) == 1 and len(adt_) == 1 and not adt_[0].get("reachable_pub") and cands[0]["path"] not in sym.stack:
                try:
                    res = sym.eval_body(cands[0], [kd[1], ("place", "<fmt>", ())], St())
                except Exception:
                    res = None
                if res and len(res) == 1 and not res[0][0].conds:
                    effs = [e for e in res[0][0].effects if e[0] == "call"]
                    if len(effs) == 1 and effs[0][1].endswith("write_fmt") and len(effs[0][2]) == 2 and effs[0][2][1][0] == "fmtargs" \
                            and res[0][1][1] == ("mcall",) + tuple(effs[0][1:]):
                        sp = effs[0][2][1]
        if sp is None:
            out_p.append(pc)
            if kd is not None:
                out_k.append(kd)
        else:
            changed = True
            out_p += list(sp[1])
            out_k += list(sp[2])
    out_k += list(kinds[i:])
    return (tuple(out_p), out_k) if changed else (pieces, kinds)


def fold_literal_args(pieces, kinds):
    """`{}` filled with a string literal is that text: write!(w, "{}{}", "Caused by: ", x) is write!(w, "Caused by: {}", x)"""
    out, args, i = [], [], 0
    for pc in pieces:
        if pc[0] == "hole" and len(pc) == 1 and i < len(kinds):
            kd, av = kinds[i]
            i += 1
            if kd == "display" and av[0] == "lit" and av[1] == "str":
                if av[2]:
                    out.append(("txt", av[2]))
                continue
            out.append(pc)
            args.append((kd, av))
        else:
            if pc[0] == "hole":
                if i < len(kinds):
                    args.append(kinds[i])
                i += 1
            out.append(pc)
    args += list(kinds[i:])
    merged = []
    for pc in out:
        if pc[0] == "txt" and merged and merged[-1][0] == "txt":
            merged[-1] = ("txt", merged[-1][1] + pc[1])
        else:
            merged.append(pc)
    return ("fmtargs", tuple(merged), tuple(args))


def strip_mut(a):
    while isinstance(a, dict) and a.get("k") in ("Borrow", "Deref", "Coerce"):
        a = a["e"]
    return a
