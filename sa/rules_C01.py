"""C01 - line-based retrace returns exactly the recorded call stack (FC + PROV + EFF clauses)."""
import facts as F
import sym as S
import fc
import refs as R
import anchors as A
import readers as RD
import builder_rules as BR
import cachefmt as CF
import flow as FL
import census as C
from sym import some, NONE, lit_int, mk_field, mk_payload

LEVEL = "other"
TECHNIQUE = ("fragment canonicalisation of compiler-extracted typed trees (loop-free decision structures -> guarded normal form) "
             "compared with hand-written reference decision structures by propositional equivalence over opaque atoms; provenance and "
             "allowed-mutator rules")
EXPLANATION = ("Structural necessary conditions, each decided for the mapper AND the cache reader: per-entry decision of the line iterator "
               "(range filter with usable-range rule, original-line formula incl. single-line collapse, sourceFile/synthetic/foreign-class "
               "file rule, class rule, method, parameters) equals the reference on every canonical path; iterator dispatch; unknown "
               "class/method -> empty; the sequence handed to the iterator is the per-method vector / equal-range slice un-adapted; the "
               "equal-range computation; record->entry interpretation in both builders (usable range iff start>0 and end>0, identity "
               "default, sentinel encoding); file name set by sourceFile header and reset per class; append-only per-method vectors. "
               "NOT decided: the composition of these clauses into end-to-end equality on all mappings (paper argument, DESIGN.md section 4).")
RULE_TEXT = ("one instance per fragment x implementation; inside a fragment every canonical path (conjunction over atoms) is compared with "
             "the reference under every completion of undetermined atoms; distinct = distinct (rule, fragment, implementation)")
TRUSTED = ["rustc front end (THIR)", "sa/models.py std combinator models", "reference structures in sa/refs.py, sa/builders.py (written from the "
           "property statement)", "valid-file axioms for the cache reader (established by C09.7)"]

MAPPER_EMPTY = ("adt", "RemappedFrameIter", "RemappedFrameIter", (("inner", NONE),))


def call(name, *args):
    return ("call", name, tuple(args))


def check_remap_frame_mapper(fx, rep, rule):
    p = A.one(rep, rule, "ProguardMapper::remap_frame", A.method(fx, A.MAPPER, "remap_frame"))
    if not p:
        return
    rep.fn(p)
    b = fx.bodies[p]
    sy = S.Sym(fx)
    try:
        res = sy.eval_body(b)
    except S.Undecidable as e:
        rep.undecidable(rule, "%s/remap_frame/mapper/shape" % rule, loc=F.loc(e.node) if isinstance(e.node, dict) else "", construct=e.msg)
        return
    slf, fr = ("in", "self"), ("in", "frame")
    GET = "std::collections::HashMap::get"

    def ref(o):
        cls = call(GET, mk_field(slf, "classes"), mk_field(fr, "class"))
        if not o(("is", cls, "Some")):
            return MAPPER_EMPTY
        c = mk_payload(cls, "Some", "0")
        mem = call(GET, mk_field(c, "members"), mk_field(fr, "method"))
        if not o(("is", mem, "Some")):
            return MAPPER_EMPTY
        m = mk_payload(mem, "Some", "0")
        f2 = ("adt", "StackFrame", "StackFrame", (("class", mk_field(c, "original")), ("method", mk_field(fr, "method")),
                                                 ("line", mk_field(fr, "line")), ("file", mk_field(fr, "file")),
                                                 ("parameters", mk_field(fr, "parameters"))))
        if o(("is", mk_field(fr, "parameters"), "Some")):
            t = call(GET, mk_field(m, "mappings_by_params"), mk_payload(mk_field(fr, "parameters"), "Some", "0"))
            if not o(("is", t, "Some")):
                return MAPPER_EMPTY
            seq = call("core::slice::iter", mk_payload(t, "Some", "0"))
        else:
            seq = call("core::slice::iter", mk_field(m, "all_mappings"))
        return ("adt", "RemappedFrameIter", "RemappedFrameIter", (("inner", some(("tuple", (f2, seq)))),))

    def outcome(st, out):
        v = out[1]
        return canon_iter(v)
    bad, n = fc.compare_paths(res, ref, outcome)
    report_cmp(rep, rule, "%s/remap_frame/mapper" % rule, b, res, bad,
               "unknown class/method -> empty iterator; frame.class := class.original; line frames iterate all_mappings of the method, "
               "parameter frames the by-params vector - both through a plain slice iterator (no adaptor)")


def canon_iter(v):
    """normalise field order of StackFrame terms"""
    def f(t):
        if t[0] == "adt" and t[1] == "StackFrame":
            d = dict(t[3])
            return ("adt", "StackFrame", "StackFrame", tuple((k, d.get(k)) for k in ("class", "method", "line", "file", "parameters")))
        return None
    return fc.rewrite(v, f)


def report_cmp(rep, rule, key, b, res, bad, what):
    if not bad:
        rep.ok(rule, key, loc=F.short_file(b["sp"]), found="%d canonical paths equal the reference: %s" % (len(res), what))
    else:
        for conds, impl_o, ref_o, comp in bad[:3]:
            rep.violation(rule, key + "/" + short_hash(S.cstr(conds)), loc=F.short_file(b["sp"]),
                          found="when %s: %s" % (S.cstr(conds)[-600:], S.tstr(impl_o)[:500]), expected=S.tstr(ref_o)[:500])


def short_hash(s):
    import hashlib
    return hashlib.sha1(s.encode()).hexdigest()[:8]


CACHE_HELPERS = ("get_class", "get_class_members", "get_class_members_by_params", "find_range_by_binary_search")


def cache_helper_paths(fx):
    return {nm: A.method(fx, A.CACHE, nm) for nm in CACHE_HELPERS}


def check_remap_frame_cache(fx, rep, rule):
    p = A.one(rep, rule, "ProguardCache::remap_frame", A.method(fx, A.CACHE, "remap_frame"))
    if not p:
        return
    rep.fn(p)
    b = fx.bodies[p]
    helpers = cache_helper_paths(fx)
    hp = {nm: (c[0] if len(c) == 1 else None) for nm, c in helpers.items()}
    for nm, c in hp.items():
        if c is None:
            A.one(rep, rule, "ProguardCache::" + nm, helpers[nm])
            return
    opaque = set(hp.values())
    sy = S.Sym(fx, opaque=lambda q: q in opaque)
    try:
        res = sy.eval_body(b)
    except S.Undecidable as e:
        rep.undecidable(rule, "%s/remap_frame/cache/shape" % rule, loc=F.loc(e.node) if isinstance(e.node, dict) else "", construct=e.msg)
        return
    slf, fr = ("in", "self"), ("in", "frame")
    sp = {nm: S.short_path(c) for nm, c in hp.items()}
    EMPTY = ("adt", "RemappedFrameIter", "RemappedFrameIter", (("inner", NONE),))
    clos = {}

    def ref(o):
        c = call(sp["get_class"], slf, mk_field(fr, "class"))
        if not o(("is", c, "Some")):
            return EMPTY
        cl = mk_payload(c, "Some", "0")
        oc = call(R.READ, mk_field(slf, "string_bytes"), mk_field(cl, "original_name_offset"))
        if not o(("is", oc, "Ok")):
            return EMPTY
        f2 = ("adt", "StackFrame", "StackFrame", (("class", mk_payload(oc, "Ok", "0")), ("method", mk_field(fr, "method")),
                                                 ("line", mk_field(fr, "line")), ("file", mk_field(fr, "file")),
                                                 ("parameters", mk_field(fr, "parameters"))))
        if o(("is", mk_field(fr, "parameters"), "Some")):
            ms = call(sp["get_class_members_by_params"], slf, cl)
            which = "params"
        else:
            ms = call(sp["get_class_members"], slf, cl)
            which = "lines"
        if not o(("is", ms, "Some")):
            return EMPTY
        rng = ("range", which, mk_payload(ms, "Some", "0"))
        if not o(("is", rng, "Some")):
            return EMPTY
        return ("adt", "RemappedFrameIter", "RemappedFrameIter",
                (("inner", some(("tuple", (slf, f2, call("core::slice::iter", mk_payload(rng, "Some", "0")))))),))

    # abstract the find_range call: ("range", which, members) and remember the comparator closure
    def rw(t):
        if t[0] == "call" and t[1] == sp["find_range_by_binary_search"]:
            ms, clo = t[2]
            which = "params" if "by_params" in S.tstr(ms) else "lines"
            clos[which] = clo
            return ("range", which, ms)
        return None

    def outcome(st, out):
        return canon_iter(fc.rewrite(out[1], rw))
    bad, n = fc.compare_paths(res, ref, outcome, rw=rw)
    report_cmp(rep, rule, "%s/remap_frame/cache" % rule, b, res, bad,
               "unknown class -> empty; frame.class := original class name; members slice of the class (by-params slice iff the frame "
               "carries parameters) narrowed by the equal-range search and iterated with a plain slice iterator")
    return clos, sy, b


def check_find_range(fx, rep, rule):
    """C01.R6: equal-range computation"""
    c = A.method(fx, A.CACHE, "find_range_by_binary_search")
    p = A.one(rep, rule, "find_range_by_binary_search", c)
    if not p:
        return
    rep.fn(p)
    b = fx.bodies[p]
    sy = S.Sym(fx)
    try:
        res = sy.eval_body(b)
    except S.Undecidable as e:
        rep.undecidable(rule, "%s/find_range/shape" % rule, loc=F.loc(e.node) if isinstance(e.node, dict) else "", construct=e.msg)
        return
    # the two parameters by position (the slice, the comparison), whatever they are called
    names_ = [prm["pat"]["name"] if prm.get("pat") and prm["pat"].get("k") == "Bind" else None for prm in b["params"]]
    if len(names_) != 2 or None in names_:
        rep.undecidable(rule, "%s/find_range/shape" % rule, loc=F.short_file(b["sp"]), construct="parameters %s (expected the slice and the comparison)" % names_)
        return
    ms, f = ("in", names_[0]), ("in", names_[1])
    # the `matches_not` closure must be |m| f(m).is_ne()
    mn = [cb for cb in fx.closures_of(p)]
    mid_t = call("core::slice::binary_search_by", ms, f)
    mid = mk_payload(mid_t, "Ok", "0")

    def find_closure(res):
        cl = set()

        def g(t):
            if t[0] == "closure":
                cl.add(t)
            return None
        for st, (k, v) in res:
            fc.rewrite(v, g)
            for a, pol in st.conds:
                fc.rewrite(a, g)
        return cl
    cl = find_closure(res)
    ok_pred = False
    pred = None
    positive = False
    same_pred = {}
    pred_desc = "no boundary predicate found"
    # the two linear searches written as cursor loops (`while start > 0 && f(&members[start - 1]).is_eq() { start -= 1 }`): each loop
    # has a closed form over take_while(..).count() - the second accepted form below - with the loop's test as the predicate
    import loopsum as LS
    scans = {}
    if not cl and sy.loop_order:
        for key_ in sy.loop_order:
            r_ = LS.cursor_scan(sy, sy.loops[key_])
            if r_ is not None and r_["seq"] == ms:
                scans[r_["placeholder"]] = r_
    if scans and len(scans) == len(sy.loop_order) and len({r_["pred"] for r_ in scans.values()}) == 1:
        pbody = list(scans.values())[0]["pred"]
        pred = ("lambda", 1, pbody)
        fm = ("bound", 0)
        pos_forms = (("eq", ("apply", f, (fm,)), ("adt", "Ordering", "Equal", ())), ("eq", ("adt", "Ordering", "Equal", ()), ("apply", f, (fm,))),
                     ("eq", call("std::ops::Fn::call", f, ("tuple", (fm,))), ("adt", "Ordering", "Equal", ())),
                     ("eq", ("adt", "Ordering", "Equal", ()), call("std::ops::Fn::call", f, ("tuple", (fm,)))))
        ok_pred = positive = pbody in pos_forms
        pred_desc = S.tstr(pbody) + " (loop test of %d cursor loops)" % len(scans)
        cl = set()
    if len(cl) > 1:
        # the same predicate written out twice (two closure literals): one predicate if their canonical terms are equal
        import models as M0
        try:
            terms = {c_: M0.closure_term(sy, c_, 1, S.St(), {"sp": "?"}) for c_ in cl}
            if len(set(terms.values())) == 1:
                first_c = sorted(cl, key=repr)[0]
                same_pred = {c_: first_c for c_ in cl}
                cl = {first_c}
        except S.Undecidable:
            pass
    if len(cl) == 1:
        pred = list(cl)[0]
        try:
            import models as M
            t = M.closure_term(sy, pred, 1, S.St(), {"sp": "?"})
            want = ("not", ("eq", ("apply", f, (("bound", 0),)), ("adt", "Ordering", "Equal", ())))
            alt = ("not", ("eq", call("std::ops::Fn::call", f, ("tuple", (("bound", 0),))), ("adt", "Ordering", "Equal", ())))
            ok_pred = t in (want, alt)
            if not ok_pred and t in (want[1], alt[1]):
                # the positive predicate |m| f(m) == Equal, used with take_while(..).count() (second accepted form)
                ok_pred = positive = True
            pred_desc = S.tstr(t)
        except S.Undecidable as e:
            pred_desc = e.msg
    elif not scans:
        pred_desc = "%d closures" % len(cl)
    rep.check(rule, "%s/find_range/boundary-predicate" % rule, ok_pred, loc=F.short_file(b["sp"]), found="matches_not = |m| %s" % pred_desc,
              expected="|m| f(m) != Equal (with rposition/position) or |m| f(m) == Equal (with take_while(..).count())")
    before_ = call("std::ops::Index::index", ms, ("adt", "RangeTo", "RangeTo", (("end", mid),)))
    from_ = call("std::ops::Index::index", ms, ("adt", "RangeFrom", "RangeFrom", (("start", mid),)))

    def rw_split(t):
        if t[0] == "loop" and t in scans and pred is not None:
            return LS.closed_form(scans[t], pred)
        if t[0] == "closure" and t in same_pred:
            return same_pred[t] if same_pred[t] != t else None
        # `let (before, from_mid) = members.split_at(mid)` names the same two sub-slices as members[..mid] / members[mid..]
        if t[0] == "field" and t[1][0] == "call" and t[1][1] == "core::slice::split_at" and t[1][2] == (ms, mid):
            return before_ if t[2] == "0" else (from_ if t[2] == "1" else None)
        return None

    def ref(o):
        if not o(("is", mid_t, "Ok")):
            return NONE
        if positive:
            # start = mid - (number of matches directly before mid); end = mid + (number of matches from mid on)
            nb = call("std::iter::Iterator::count", call("std::iter::Iterator::take_while", call("std::iter::Iterator::rev", call("core::slice::iter", before_)), pred))
            nf = call("std::iter::Iterator::count", call("std::iter::Iterator::take_while", call("core::slice::iter", from_), pred))
            return call("core::slice::get", ms, ("adt", "Range", "Range", (("start", S.lin_norm([(mid, 1), (nb, -1)])), ("end", S.lin_norm([(mid, 1), (nf, 1)])))))
        left = call("std::iter::Iterator::rposition", call("core::slice::iter", call("std::ops::Index::index", ms, ("adt", "RangeTo", "RangeTo", (("end", mid),)))), pred)
        right = call("std::iter::Iterator::position", call("core::slice::iter", call("std::ops::Index::index", ms, ("adt", "RangeFrom", "RangeFrom", (("start", mid),)))), pred)
        start = S.lin_norm([(mk_payload(left, "Some", "0"), 1)], 1) if o(("is", left, "Some")) else lit_int(0)
        end = S.lin_norm([(mk_payload(right, "Some", "0"), 1), (mid, 1)]) if o(("is", right, "Some")) else call("core::slice::len", ms)
        return call("core::slice::get", ms, ("adt", "Range", "Range", (("start", start), ("end", end))))

    def rwpos(t):
        # rposition/position take &mut self on a temporary: sym renders them as pure calls already
        return None
    bad, n = fc.compare_paths(res, ref, lambda st, out: fc.rewrite(out[1], rw_split), rw=rw_split)
    report_cmp(rep, rule, "%s/find_range/equal-range" % rule, b, res, bad,
               "mid = binary_search_by(f).ok()?; start = last non-match before mid + 1 (else 0); end = first non-match from mid (else len); get(start..end)")


def check_line_mapping_rule(fx, rep, rule):
    """C01.P1: the parser builds a LineMapping only for a usable range"""
    cands = []
    in_closure = False
    for p, b in fx.bodies.items():
        if b["krate"] != "proguard" or b["kind"] not in ("Fn", "AssocFn", "Closure") or "mapping::" not in p or b.get("exp"):
            continue
        for n in F.walk(b["body"]):
            if n.get("k") == "Adt" and n["adt"].endswith("mapping::LineMapping"):
                if b["kind"] in ("Fn", "AssocFn"):
                    cands.append((p, b))
                else:
                    in_closure = True
                break
    if not cands and in_closure:
        # the LineMapping is built inside a combinator closure (`zip().filter().map(|..| LineMapping {..})`): decided per grammar
        # path by the member-parser wiring rule (same statement, semantic form)
        import parser_rules as _PR3
        if not any("member/capture-wiring" in i_["key"] for i_ in rep.instances):
            _PR3.check_member_parser(fx, rep, rule)
        okw = any("member/capture-wiring" in i_["key"] and i_["status"] == "pass" for i_ in rep.instances)
        rep.check(rule, "%s/line-mapping/usable-range" % rule, okw, loc="src/mapping.rs",
                  found="decided on the grammar paths (member/capture-wiring): Some(LineMapping) iff both obfuscated numbers > 0",
                  expected="Some(LineMapping) iff both obfuscated line numbers are present and > 0", nontrivial=False)
        return
    rep.floor(rule, len(cands), 1, "construction sites of LineMapping in the parser")
    for p, b in cands:
        rep.fn(p)
        # the smallest let-initialiser containing the construction
        init = None
        for n in F.walk(b["body"]):
            if n.get("k") == "Block":
                for s in n["stmts"]:
                    if s["k"] == "Let" and s.get("init") is not None and any(x.get("k") == "Adt" and x["adt"].endswith("mapping::LineMapping") for x in F.walk(s["init"])):
                        init = s["init"]
        if init is None:
            # built in the tail of a helper / directly as a field value: decided per grammar path by the member-parser wiring rule
            import parser_rules as _PR4
            if not any("member/capture-wiring" in i_["key"] for i_ in rep.instances):
                _PR4.check_member_parser(fx, rep, rule)
            okw = any("member/capture-wiring" in i_["key"] and i_["status"] == "pass" for i_ in rep.instances)
            rep.check(rule, "%s/line-mapping/usable-range" % rule, okw, loc=F.short_file(b["sp"]),
                      found="decided on the grammar paths (member/capture-wiring): Some(LineMapping) iff both obfuscated numbers > 0",
                      expected="Some(LineMapping) iff both obfuscated line numbers are present and > 0", nontrivial=False)
            continue
        sy = S.Sym(fx)
        try:
            res = sy.ev(init, S.St())
        except S.Undecidable as e:
            rep.undecidable(rule, "%s/line-mapping/shape" % rule, loc=F.loc(e.node) if isinstance(e.node, dict) else "", construct=e.msg)
            continue
        # wiring: the four numbers in order of their usize captures in the function
        fam = C.Family(fx, p)
        caps = usize_capture_vars(b, fam)
        if len(caps) < 4:
            # the numbers are not bound by four separate `let (n, rest) = ...` statements (e.g. a helper returns a pair): the
            # presence rule is decided per grammar path by the member-parser wiring rule instead (same statement, semantic form)
            import parser_rules as _PR2
            if not any("member/capture-wiring" in i_["key"] for i_ in rep.instances):
                _PR2.check_member_parser(fx, rep, rule)
            okw = any("member/capture-wiring" in i_["key"] and i_["status"] == "pass" for i_ in rep.instances)
            rep.check(rule, "%s/line-mapping/usable-range" % rule, okw, loc=F.short_file(b["sp"]),
                      found="decided on the grammar paths (member/capture-wiring): Some(LineMapping) iff both obfuscated numbers > 0",
                      expected="Some(LineMapping) iff both obfuscated line numbers are present and > 0", nontrivial=False)
            continue
        s_, e_, os_, oe_ = [("in", nm) for nm in caps[:4]]

        def ref(o):
            if o(("is", s_, "Some")) and o(("is", e_, "Some")) and o(("lt", lit_int(0), mk_payload(s_, "Some", "0"))) \
                    and o(("lt", lit_int(0), mk_payload(e_, "Some", "0"))):
                return some(("adt", "LineMapping", "LineMapping", (("startline", mk_payload(s_, "Some", "0")), ("endline", mk_payload(e_, "Some", "0")),
                                                                   ("original_startline", os_), ("original_endline", oe_))))
            return NONE
        bad, n = fc.compare_paths([(st, o) for st, o in res if o[0] == S.VAL], ref, lambda st, out: out[1])
        report_cmp(rep, rule, "%s/line-mapping/usable-range" % rule, b, res, bad,
                   "Some(LineMapping) iff both obfuscated line numbers are present and > 0; fields wired to the 1st..4th number of the line")


def usize_capture_vars(body, fam):
    """names of the variables bound (in statement order) by `let (x, rest) = match parse_usize(..)`-style captures"""
    out = []
    for n in F.walk(body["body"]):
        if n.get("k") == "Block":
            for s in n["stmts"]:
                if s["k"] == "Let" and s.get("init") is not None and s["pat"]["k"] == "Leaf":
                    first = s["pat"]["fields"][0]["pat"] if s["pat"]["fields"] else None
                    if first is None or first["k"] != "Bind" or not first["ty"].startswith("std::option::Option<usize>"):
                        continue
                    import parser_rules as _PR
                    _PR.use(fam.fx)
                    pu_ = _PR.rp("parse_usize")
                    def reaches_parse_usize(x):
                        if x.get("k") != "Call" or "fn" not in x:
                            return False
                        tgt = fam.fx.by_dp.get(x["fn"].get("dp"))
                        if tgt == pu_:
                            return True
                        # a private helper wrapped around parse_usize (`:number` group extracted into a function)
                        return tgt in fam.fx.bodies and fam.fx.bodies[tgt]["krate"] == "proguard" and pu_ in fam.fx.reachable([tgt])
                    if any(reaches_parse_usize(x) for x in F.walk(s["init"])):
                        if first["name"] not in out:
                            out.append(first["name"])
    return out


VEC_OK = ("push", "with_capacity", "new", "iter", "len", "deref", "clone", "default", "into_iter", "extend", "as_bytes", "fmt", "eq", "is_empty")


def check_append_only_mapper(fx, rep, rule):
    """C01.O1 (mapper): per-method vectors are append-only"""
    n_calls = 0
    bad = []
    for p, b in fx.bodies.items():
        if b["krate"] != "proguard" or "::mapper::" not in p:
            continue
        for n in F.walk(b["body"]):
            if n.get("k") == "Call" and "fn" in n and n["args"]:
                t0 = F.strip(n["args"][0]).get("ty", "") + "|" + n["args"][0].get("ty", "")
                import re as _re
                if _re.search(r"(^|\|)(&(mut )?)?std::vec::Vec<mapper::MemberMapping", t0):
                    n_calls += 1
                    if CF.REORDER.search(n["fn"]["path"]):
                        bad.append((n["fn"]["path"].split("::")[-1], F.loc(n)))
    rep.check(rule, "%s/append-only/mapper" % rule, not bad and n_calls >= 4, loc="src/mapper.rs",
              found=bad or "%d calls on Vec<MemberMapping>, none reorders/removes" % n_calls,
              expected="entries stay in file order: no sort/reverse/insert/remove/retain/dedup on the per-method vectors")


def run(ctx, rep):
    fx = ctx.facts("")
    rep.configs.append("default")
    for impl in ("mapper", "cache"):
        wl, wo = RD.iterator_roles(fx, rep, "C01.R", impl)
        if wl:
            RD.check_with_lines(fx, rep, "C01.R", impl, wl, "C01.R")
        if wl and wo:
            nq = RD.check_query_readonly(fx, rep, "C01.R", impl, A.method(fx, impl + "::RemappedFrameIter", "next", trait="Iterator") + [wl, wo], "C01.R")
            rep.floor("C01.R/query-readonly/" + impl, nq, 2, "functions holding the stored query (%s)" % impl)
        n = BR.check_entry_fields(fx, rep, "C01.B", impl)
        rep.floor("C01.B/" + impl, n, 8, "Method-record paths in the %s builder" % impl)
        BR.check_class_header_arms(fx, rep, "C01.B3", impl)
    # extract_class_name twins + reference shape
    check_extract_class_name(fx, rep, "C01.R3")
    check_remap_frame_mapper(fx, rep, "C01.R5")
    check_remap_frame_cache(fx, rep, "C01.R5")
    check_find_range(fx, rep, "C01.R6")
    check_line_mapping_rule(fx, rep, "C01.P1")
    check_append_only_mapper(fx, rep, "C01.O1")
    wv = CF.WriterView(fx, rep, "C01.O1")
    if wv.ok:
        CF.check_order(fx, rep, "C01.O1", wv)
    import api_rules as AR
    AR.check_frame_api(fx, rep, "C01.api")
    AR.check_mapper_constructors(fx, rep, "C01.api")
    AR.check_mapping_wiring(fx, rep, "C01.api")
    import parser_rules as PRM
    PRM.check_parser_premises(fx, rep, "C01.P2")
    # the class block a frame is remapped in is found by the exact class lookup (both implementations)
    import lookup_rules as LR_
    LR_.check_class_lookup(fx, rep, "C01.L")
    # the cache's answers start from the sections `parse` slices out of the file and the per-class windows cut out of them
    LR_.check_section_slices(fx, rep, "C01.S")
    CF.check_parse(fx, rep, "C01.Sp")
    run_controls(ctx, rep)


def check_extract_class_name(fx, rep, rule):
    for impl in ("mapper", "cache"):
        wl, wo = RD.iterator_roles(fx, RD_silent(), rule, impl)
        c = RD.str_helpers(fx, fx.bodies[wl]) if wl else []
        p = A.one(rep, rule, impl + ": outer-simple-name helper called by the line iterator", c)
        if not p:
            continue
        rep.fn(p)
        b = fx.bodies[p]
        sy = S.Sym(fx)
        try:
            res = sy.eval_body(b)
        except S.Undecidable as e:
            rep.undecidable(rule, "%s/outer-simple/%s" % (rule, impl), loc=F.loc(e.node) if isinstance(e.node, dict) else "", construct=e.msg)
            continue
        x = ("in", b["params"][0]["pat"]["name"])
        last = call("std::iter::Iterator::last", call("core::str::split", x, ("lit", "char", ".")))

        def ref(o):
            if not o(("is", last, "Some")):
                return NONE
            return call("std::iter::Iterator::next", call("core::str::split", mk_payload(last, "Some", "0"), ("lit", "char", "$")))
        def rw_last(t):
            # `split(c).next_back()` on a fresh Split is its last segment (clippy::double_ended_iterator_last)
            if t[0] in ("call", "mcall") and t[1].endswith("DoubleEndedIterator::next_back") and t[2] and t[2][0][0] == "call" and t[2][0][1] == "core::str::split":
                return call("std::iter::Iterator::last", t[2][0])
            return None
        bad, n = fc.compare_paths(res, ref, lambda st, out: fc.rewrite(out[1], rw_last), rw=rw_last)
        if bad:
            # the same two cuts spelled with `rsplit_once('.')` / `split_once('$')` and the uncut text as the fallback (a split always has
            # a last and a first piece, so the iterator forms never answer None either)
            def make_ref(cut1_once, cut2_once):
                def ref2(o):
                    if cut1_once:
                        rs = call("core::str::rsplit_once", x, ("lit", "char", "."))
                        simple = mk_field(mk_payload(rs, "Some", "0"), "1") if o(("is", rs, "Some")) else x
                    else:
                        if not o(("is", last, "Some")):
                            return NONE
                        simple = mk_payload(last, "Some", "0")
                    if cut2_once:
                        so = call("core::str::split_once", simple, ("lit", "char", "$"))
                        return some(mk_field(mk_payload(so, "Some", "0"), "0") if o(("is", so, "Some")) else simple)
                    return call("std::iter::Iterator::next", call("core::str::split", simple, ("lit", "char", "$")))
                return ref2
            for c1_, c2_ in ((True, True), (True, False), (False, True)):
                bad2, n2 = fc.compare_paths(res, make_ref(c1_, c2_), lambda st, out: fc.rewrite(out[1], rw_last), rw=rw_last)
                if not bad2:
                    bad = bad2
                    break
        report_cmp(rep, rule, "%s/outer-simple/%s" % (rule, impl), b, res, bad,
                   "segment after the last '.', cut at the first '$' (outer simple class name)")


class RD_silent:
    """a throw-away report (role discovery only; the real instances are recorded by the caller)"""
    def __getattr__(self, name):
        return lambda *a, **k: None
    instances = []


def run_controls(ctx, rep):
    """the comparator must reject a wrong decision structure: controls::shapes"""
    cx = ctx.controls()
    for nm, expect_bad in (("ctl_range_filter_le", True), ("ok_range_filter", False)):
        bs = [b for p, b in cx.bodies.items() if p.endswith("shapes::" + nm)]
        fired = None
        if bs:
            sy = S.Sym(cx, krates=("pgcontrols",))
            res = sy.eval_body(bs[0])
            line, s, e = ("in", "line"), ("in", "start"), ("in", "end")

            def ref(o):
                if o(("lt", lit_int(0), e)) and (o(("lt", line, s)) or o(("lt", e, line))):
                    return S.FALSE
                return S.TRUE
            bad, n = fc.compare_paths(res, ref, lambda st, out: out[1])
            fired = bool(bad)
        rep.control("C01.R", fired == expect_bad, "comparator %s controls::shapes::%s" % ("rejects" if expect_bad else "accepts", nm))
