use proguard::*;
use std::io::Write;

fn cache_bytes(m: &[u8]) -> Vec<u8> { let mut v = Vec::new(); ProguardCache::write(&ProguardMapping::new(m), &mut v).unwrap(); v }

#[test]
fn f1_sourcefile_scan_line_bounded() {
    let m = b"# {\"id\":\"sourceFile\",\"fileName\":\"abc\na.A -> a:\n    void m() -> b\n# x\"}\n";
    let recs: Vec<_> = ProguardMapping::new(m).iter().collect();
    for r in &recs { if let Ok(ProguardRecord::Header{value: Some(v), ..}) = r { assert!(!v.contains('\n'), "header value spans lines: {:?}", v); } }
    assert!(recs.iter().any(|r| matches!(r, Ok(ProguardRecord::Class{..}))), "class line swallowed: {:?}", recs);
}

#[test]
fn f2_by_params_offset() {
    let m = b"x.A -> a:\n    1:1:void f1(int):1:1 -> k\n    1:1:void f2(int):2:2 -> k\nx.B -> b:\n    void g(int) -> k\n";
    let mapper = ProguardMapper::new_with_param_mapping(ProguardMapping::new(m), true);
    let bytes = cache_bytes(m); let cache = ProguardCache::parse(&bytes).unwrap();
    let fr = StackFrame::with_parameters("b", "k", "int");
    let a: Vec<_> = mapper.remap_frame(&fr).collect(); let b: Vec<_> = cache.remap_frame(&fr).collect();
    assert_eq!(a, b);
    assert_eq!(a.len(), 1);
}

#[test]
fn f3_typed_keeps_unknown_throwable() {
    let m = b"x.A -> a:\n    1:1:void f():1:1 -> k\n";
    let mapper = ProguardMapper::new(ProguardMapping::new(m));
    let tr = StackTrace::new(Some(Throwable::with_message("java.lang.RuntimeException", "boom")), vec![StackFrame::new("a","k",1)]);
    let out = mapper.remap_stacktrace_typed(&tr);
    assert!(out.exception().is_some());
    let bytes = cache_bytes(m); let cache = ProguardCache::parse(&bytes).unwrap();
    assert!(cache.remap_stacktrace_typed(&tr).exception().is_some());
    assert_eq!(out.to_string(), mapper.remap_stacktrace(&tr.to_string()).unwrap());
}

#[test]
fn f4_mapper_overflow() {
    let m = b"x.A -> a:\n    1:3:void m():18446744073709551615:2 -> m\n";
    let mapper = ProguardMapper::new(ProguardMapping::new(m));
    let _ : Vec<_> = mapper.remap_frame(&StackFrame::new("a","m",2)).collect();
}
#[test]
fn f4_cache_overflow() {
    let m = b"x.A -> a:\n    5:4294967296:void m() -> m\n";
    let bytes = cache_bytes(m); let cache = ProguardCache::parse(&bytes).unwrap();
    let _ : Vec<_> = cache.remap_frame(&StackFrame::new("a","m",usize::MAX)).collect();
    let m = b"x.A -> a:\n    5:4294967296:void m():3:7 -> m\n";
    let bytes = cache_bytes(m); let cache = ProguardCache::parse(&bytes).unwrap();
    let _ : Vec<_> = cache.remap_frame(&StackFrame::new("a","m",0)).collect();
}

struct OneByte(Vec<u8>);
impl Write for OneByte { fn write(&mut self, b:&[u8])->std::io::Result<usize>{ if b.is_empty(){return Ok(0)} self.0.push(b[0]); Ok(1)} fn flush(&mut self)->std::io::Result<()>{Ok(())} }
#[test]
fn f5_short_writes() {
    let m = b"x.A -> a:\n    1:1:void f():1:1 -> k\n";
    let want = cache_bytes(m);
    let mut s = OneByte(Vec::new());
    ProguardCache::write(&ProguardMapping::new(m), &mut s).unwrap();
    assert_eq!(s.0, want);
}

#[test]
fn f6_header_without_value() {
    let m = b"x.A -> a:\n# sourceFile: X.kt\n# sourceFile\n    1:1:void f():1:1 -> k\n";
    let mapper = ProguardMapper::new(ProguardMapping::new(m));
    let bytes = cache_bytes(m); let cache = ProguardCache::parse(&bytes).unwrap();
    let fr = StackFrame::with_file("a","k",1,"SourceFile");
    let a: Vec<_> = mapper.remap_frame(&fr).collect(); let b: Vec<_> = cache.remap_frame(&fr).collect();
    assert_eq!(a, b);
}
