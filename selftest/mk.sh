#!/bin/bash
# usage: mk.sh <name> <file-under-/repo> <python-regex> <replacement> [count]  -> writes selftest/mutants/<name>.patch
set -e
NAME="$1"; FILE="$2"; PAT="$3"; REP="$4"; CNT="${5:-1}"
cd /repo
git diff --quiet || { echo "/repo dirty"; exit 2; }
python3 - "$FILE" "$PAT" "$REP" "$CNT" <<'PY'
import sys,re
f,pat,rep,cnt=sys.argv[1:5]
s=open(f).read()
n=len(re.findall(pat,s))
assert n>=1, "pattern not found"
s2=re.sub(pat,rep,s,count=int(cnt))
assert s2!=s
open(f,'w').write(s2)
PY
git diff > /verif/selftest/mutants/$NAME.patch
git checkout -- .
echo "wrote $NAME.patch"
