#!/bin/bash
# usage: mk.sh <name> <file-under-repo> <python-regex> <replacement> [count] [dir]  -> writes selftest/<dir>/<name>.patch
# Works on a scratch copy of /repo (never edits /repo). <dir> defaults to mutants.
set -e
NAME="$1"; FILE="$2"; PAT="$3"; REP="$4"; CNT="${5:-1}"; DIR="${6:-mutants}"
HERE="$(cd "$(dirname "$0")/.." && pwd)"
SCR=/tmp/mk_repo_$$
rm -rf "$SCR"; cp -r /repo "$SCR"; rm -rf "$SCR/target" "$SCR/.git"
cd "$SCR"
git init -q . && git add -A >/dev/null && git -c user.email=a@b -c user.name=x commit -qm b >/dev/null
python3 - "$FILE" "$PAT" "$REP" "$CNT" <<'PY'
import sys,re
f,pat,rep,cnt=sys.argv[1:5]
s=open(f).read()
n=len(re.findall(pat,s))
assert n>=1, "pattern not found"
s2=re.sub(pat,rep,s,count=int(cnt))
assert s2!=s
open(f,'w').write(s2)
PY
git diff > "$HERE/selftest/$DIR/$NAME.patch"
cd /; rm -rf "$SCR"
echo "wrote $DIR/$NAME.patch"
