#!/bin/bash
# Developer command: apply one patch to a scratch copy of /repo and run the given checks (default: all) against it.
# Never touches /repo or /verif/evidence. Prints, per check, the exit code and the first reported rule instances.
# usage: selftest/try_patch.sh <patch-file> [Cxx ...]
HERE="$(cd "$(dirname "$0")/.." && pwd)"
P="$(readlink -f "$1")"; shift
CHECKS="${*:-C01 C02 C03 C04 C05 C06 C07 C08 C09 C10 C11 C12 C13 C14 C15 C16 C18 C19 C20}"
TAG=tp_$$
SCR=/tmp/${TAG}_repo; EV=/tmp/${TAG}_ev
rm -rf "$SCR"; cp -r /repo "$SCR"; rm -rf "$SCR/target" "$SCR/.git"
(cd "$SCR" && git init -q . && git add -A >/dev/null && git -c user.email=a@b -c user.name=x commit -qm b >/dev/null && git apply "$P") \
  || { echo "PATCH DOES NOT APPLY: $P"; rm -rf "$SCR"; exit 2; }
cd "$HERE" || exit 2
for c in $CHECKS; do
  out=$(PG_REPO="$SCR" PG_EVIDENCE_DIR="$EV" ./check $c ${TIER:+--tier $TIER} 2>&1); rc=$?
  echo "$c rc=$rc $(echo "$out" | grep -E '^(VIOLATION \[|UNDECIDABLE|ANCHOR|CONTROL|NO VERDICT)' | sed -E 's/ at .*//' | cut -c1-120 | sort -u | head -${NSHOW:-3} | paste -sd';')"
  [ $rc -ge 2 ] && echo "$out" | grep -vE "^WARN" | tail -25
  [ -n "$VERBOSE" ] && [ $rc -ne 0 ] && echo "$out" | grep -vE "^WARN" | head -${VERBOSE}
done
WT=$(echo -n "$(readlink -f "$SCR")" | md5sum | cut -c1-8)
rm -rf "$SCR" "$EV" "$HERE"/.work/facts-${TAG}_repo-* "$HERE"/.work/witness-*-"$WT"
