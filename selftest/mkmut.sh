#!/bin/bash
# usage: mkmut.sh <name> <base-patch|-> <file-under-repo> <old-text> <new-text>  -> writes selftest/mutants/<name>.patch
# A mutant of a refactored form: applies <base-patch> to a scratch copy of /repo, replaces <old-text> by <new-text> once, and
# stores the combined diff against /repo. Never edits /repo.
set -e
HERE="$(cd "$(dirname "$0")/.." && pwd)"
BASEP="$2"; [ "$BASEP" = "-" ] || BASEP="$(readlink -f "$2")"
SCR=/tmp/mkmut_$$
rm -rf "$SCR"; cp -r /repo "$SCR"; rm -rf "$SCR/target" "$SCR/.git"
cd "$SCR"
git init -q . && git add -A >/dev/null && git -c user.email=a@b -c user.name=x commit -qm b >/dev/null
[ "$BASEP" = "-" ] || git apply "$BASEP"
python3 - "$3" "$4" "$5" <<'EOF'
import sys
f, old, new = sys.argv[1:4]
s = open(f).read()
assert old in s, "text not found: " + old
open(f, 'w').write(s.replace(old, new, 1))
EOF
git add -N . >/dev/null 2>&1; git diff > "$HERE/selftest/mutants/$1.patch"
cd /; rm -rf "$SCR"
echo "wrote mutants/$1.patch"
