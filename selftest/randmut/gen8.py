import re, random, os, json
random.seed(77)
SRC = ["src/mapping.rs", "src/mapper.rs", "src/java.rs", "src/stacktrace.rs", "src/cache/mod.rs", "src/cache/raw.rs"]
cands = []
for f in SRC:
    lines = open(os.path.join("/repo", f)).read().split("\n")
    intest = False
    for i, l in enumerate(lines):
        if l.startswith("#[cfg(test)]"):
            intest = True
        if intest or l.strip().startswith("//") or l.strip().startswith("#[") or "error(" in l:
            continue
        for m in re.finditer(r"b?'([^'\\])'", l):
            c = m.group(1)
            rep = m.group(0).replace("'" + c + "'", "'" + ("x" if c != "x" else "y") + "'")
            cands.append((f, i, m.start(), m.end(), rep, "CHAR"))
        for m in re.finditer(r'"([^"\\]{2,})"', l):
            t = m.group(1)
            cands.append((f, i, m.start(), m.end(), '"' + t[:-1] + '"', "STR-TRUNC"))
            if t.lower() != t:
                cands.append((f, i, m.start(), m.end(), '"' + t.lower() + '"', "STR-LOWER"))
random.shuffle(cands)
print(len(cands), "candidates")
json.dump(cands[:110], open("/tmp/mut/cands.json", "w"))
