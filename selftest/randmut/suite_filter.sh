#!/bin/bash
# for each candidate: apply in a scratch copy, build+test (suite), keep survivors as patches in /tmp/mut/surv/
rm -rf /tmp/mut/repo /tmp/mut/surv; mkdir -p /tmp/mut/surv
cp -r /repo /tmp/mut/repo; cd /tmp/mut/repo; rm -rf target .git; git init -q . && git add -A >/dev/null && git -c user.email=a@b -c user.name=x commit -qm b >/dev/null
export CARGO_NET_OFFLINE=true CARGO_TARGET_DIR=/tmp/mut/target
cargo test --offline >/dev/null 2>&1
python3 - <<'PY'
import json, subprocess, os
cands = json.load(open("/tmp/mut/cands.json"))
n = 0
for idx, (f, i, a, b, rep, pat) in enumerate(cands):
    subprocess.run(["git", "checkout", "-q", "--", "."], cwd="/tmp/mut/repo")
    p = os.path.join("/tmp/mut/repo", f)
    lines = open(p).read().split("\n")
    if rep == "DELBLOCK":
        del lines[i:i + a + 1]
    elif rep == "SWAP":
        lines[i], lines[i + 1] = lines[i + 1], lines[i]
    else:
        lines[i] = lines[i][:a] + rep + lines[i][b:]
    open(p, "w").write("\n".join(lines))
    r = subprocess.run("timeout 180 cargo test --offline 2>&1 | grep -E '^test result|^error|FAILED' | head -20", shell=True, cwd="/tmp/mut/repo", capture_output=True, text=True)
    out = r.stdout
    ok = ("error" not in out) and ("FAILED" not in out) and out.count("test result: ok") >= 6
    print(idx, f, i + 1, repr(pat), "SURVIVES" if ok else "killed/uncompilable", flush=True)
    if ok:
        d = subprocess.run(["git", "diff"], cwd="/tmp/mut/repo", capture_output=True, text=True).stdout
        open("/tmp/mut/surv/s%03d.patch" % idx, "w").write(d)
PY
echo DONE
