import re, random, os, sys, json
random.seed(31)
SRC = ["src/mapping.rs", "src/mapper.rs", "src/java.rs", "src/stacktrace.rs", "src/cache/mod.rs", "src/cache/raw.rs"]
OPS = [(r"return false;", "return true;"), (r"return true;", "return false;"), (r"return None;", "return Default::default();"), (r" \+ 1\b", ""), (r" - 1\b", ""),
       (r"\(class, method\)", "(method, class)"), (r"\(obfuscated, arguments, original\)", "(obfuscated, original, arguments)"), (r"\(obfuscated, arguments\)", "(arguments, obfuscated)"),
       (r"frame\.class\b", "frame.method"), (r"frame\.method\b", "frame.class"), (r"\.class\b", ".method"), (r"\bfalse\b", "true"), (r"\btrue\b", "false"),
       (r"\b0\b", "1"), (r"\b1\b", "0"), (r"\b8\b", "4"), (r"\b50\b", "51"), (r"\b3\b", "4"), (r"&& ", "&& !"), (r"\|\| ", "|| !"),
       (r"\.is_some_and\(", ".is_none_or("), (r"\.unwrap_or\(", ".unwrap_or_else(|| "), (r"Some\(first\)", "None"), (r"\.map_or\(\(0, 0\)", ".map_or((0, 1)"),
       (r"\.saturating_sub\(", ".saturating_add("), (r"\.saturating_add\(", ".saturating_sub("), (r"\.checked_add\(", ".checked_mul(")]
cands = []
for f in SRC:
    lines = open(os.path.join("/repo", f)).read().split("\n")
    intest = False
    for i, l in enumerate(lines):
        if l.startswith("#[cfg(test)]"):
            intest = True
        if intest or l.strip().startswith("//") or l.strip().startswith("#[") or l.strip().startswith("///"):
            continue
        for pat, rep in OPS:
            for m in re.finditer(pat, l):
                cands.append((f, i, m.start(), m.end(), rep, pat))
        # swap with the next statement line of the same indentation
        if i + 1 < len(lines) and l.rstrip().endswith(";") and lines[i + 1].rstrip().endswith(";") and re.match(r"^\s+", l) and \
                re.match(r"^(\s+)", l).group(1) == (re.match(r"^(\s*)", lines[i + 1]).group(1)) and not l.strip().startswith("let ") :
            cands.append((f, i, -1, -1, "SWAP", "SWAP"))
random.shuffle(cands)
print(len(cands), "candidates")
json.dump(cands[:220], open("/tmp/mut/cands.json", "w"))
