import re, random, os, sys, subprocess, json
random.seed(int(sys.argv[1]) if len(sys.argv) > 1 else 7)
SRC = ["src/mapping.rs", "src/mapper.rs", "src/java.rs", "src/stacktrace.rs", "src/cache/mod.rs", "src/cache/raw.rs"]
OPS = [(r" < ", " <= "), (r" <= ", " < "), (r" > ", " >= "), (r" >= ", " > "), (r" == ", " != "), (r" != ", " == "), (r" && ", " || "), (r" \|\| ", " && "),
       (r"\.is_some\(\)", ".is_none()"), (r"\.is_none\(\)", ".is_some()"), (r"\.is_empty\(\)", ".len() == 1"), (r" \+ 1\b", " + 2"), (r" - 1\b", " - 0"),
       (r"\bu32::MAX\b", "(u32::MAX - 1)"), (r"\.first\(\)", ".last()"), (r"\.last\(\)", ".first()"), (r"\.next\(\)\?", ".last()?"), (r"\bSome\(0\)", "Some(1)"),
       (r"if !", "if "), (r"\.saturating_sub\(", ".wrapping_sub("), (r"\.saturating_add\(", ".wrapping_add("), (r"\.rsplit_once\(", ".split_once("), (r"\.split_once\(", ".rsplit_once("),
       (r"\.trim\(\)", ".trim_start()"), (r"\bcontinue;", "break;"), (r"\.position\(", ".rposition(")]
root = "/repo"
cands = []
for f in SRC:
    lines = open(os.path.join(root, f)).read().split("\n")
    intest = False
    for i, l in enumerate(lines):
        if l.startswith("#[cfg(test)]"):
            intest = True
        if intest or l.strip().startswith("//") or l.strip().startswith("#["):
            continue
        for pat, rep in OPS:
            for m in re.finditer(pat, l):
                cands.append((f, i, m.start(), m.end(), rep, pat))
random.shuffle(cands)
print(len(cands), "candidates")
json.dump(cands[:int(sys.argv[2]) if len(sys.argv) > 2 else 80], open("/tmp/mut/cands.json", "w"))
