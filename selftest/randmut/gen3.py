import re, random, os, sys, json
random.seed(11)
SRC = ["src/mapping.rs", "src/mapper.rs", "src/java.rs", "src/stacktrace.rs", "src/cache/mod.rs", "src/cache/raw.rs"]
OPS = [(r" < ", " > "), (r" > ", " < "), (r"\.iter\(\)", ".iter().rev()"), (r"\.iter\(\)", ".iter().skip(1)"), (r"\(0, 0\)", "(1, 1)"), (r"map_or\(0,", "map_or(1,"),
       (r"b':'", "b';'"), (r"b' '", "b'\\t'"), (r"'\.'", "'/'"), (r"as u32\b", "as u16 as u32"), (r"\.take\(50\)", ".take(49)"), (r"\bSome\(", "Some(("), 
       (r"\.peekable\(\)", ".skip(1).peekable()"), (r"\.filter_map\(Result::ok\)", ".map_while(Result::ok)"), (r"\.flat_map\(", ".map("), (r"\+= 1;", "+= 2;"),
       (r"\.then_with\(", ".then("), (r"\.cmp\(", ".partial_cmp("), (r"\.lines\(\)", ".split('\\n')"), (r"\.split\('\.'\)", ".split('$')"), (r"\.last\(\)\?", ".next()?"),
       (r"usize::MAX", "(usize::MAX / 2)"), (r"\.ok\(\)\?", ".ok().or(None)?"), (r"\.unwrap_or_default\(\)", ".unwrap_or(\"?\")"), (r"\bNone =>", "None if false =>"),
       (r"\.clone\(\)", ".clone()"), (r" \* ", " + ")]
DEL = re.compile(r"^\s+[A-Za-z_\.\(\)&]+\.(push|insert|clear|extend|push_str|push_back|truncate)\(.*\);\s*$|^\s+[a-z_\.]+ \+= 1;\s*$|^\s+[a-z_\.]+ = [a-z_\.]+;\s*$")
cands = []
for f in SRC:
    lines = open(os.path.join("/repo", f)).read().split("\n")
    intest = False
    for i, l in enumerate(lines):
        if l.startswith("#[cfg(test)]"):
            intest = True
        if intest or l.strip().startswith("//") or l.strip().startswith("#["):
            continue
        if DEL.match(l):
            cands.append((f, i, 0, len(l), "", "DELETE"))
        for pat, rep in OPS:
            if rep == ".clone()" or rep == "Some((":
                continue
            for m in re.finditer(pat, l):
                cands.append((f, i, m.start(), m.end(), rep, pat))
random.shuffle(cands)
print(len(cands), "candidates")
json.dump(cands[:130], open("/tmp/mut/cands.json", "w"))
