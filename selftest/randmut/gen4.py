import re, random, os, sys, json
random.seed(23)
SRC = ["src/mapping.rs", "src/mapper.rs", "src/java.rs", "src/stacktrace.rs", "src/cache/mod.rs", "src/cache/raw.rs"]
OPS = [(r"\.iter\(\)", ".iter().take(1)"), (r"\.into_values\(\)", ".into_values().rev()"), (r"\.values\(\)", ".values().rev()"), (r"\.lines\(\)", ".lines().rev()"),
       (r"as usize\b", "as u16 as usize"), (r"\.len\(\) as u32", ".len() as u8 as u32"), (r"\.chars\(\)", ".chars().rev()"), (r"\.peek\(\)", ".peek().filter(|_| false)"),
       (r"\.all\(", ".any("), (r"\.any\(", ".all("), (r"\.insert\(", ".remove(&"), (r"Ordering::Greater", "Ordering::Less"), (r"Ordering::Equal", "Ordering::Less"),
       (r"\.get\(", ".get_mut("), (r"\.strip_prefix\(", ".strip_suffix("), (r"\.starts_with\(", ".ends_with("), (r"\.ends_with\(", ".starts_with("),
       (r"\.split_once\(", ".rsplit_once("), (r"\.rsplit_once\(", ".split_once("), (r"\.trim_start\(\)", ".trim()"), (r"\.to_owned\(\)", ".trim().to_owned()"),
       (r"\.checked_add\(", ".checked_sub("), (r"\.min\(", ".max("), (r"\.max\(", ".min("), (r"\.and_then\(", ".map("), (r"\bOk\(", "Err("),
       (r"\.join\(\", \"\)", ".join(\",\")"), (r"\"\[\]\"", "\"[ ]\""), (r"\": \"", "\":\""), (r"\"Caused by: \"", "\"Caused by:\""), (r"\"    \{\}\"", "\"   {}\""),
       (r"\.position\(", ".rposition("), (r"\.rposition\(", ".position("), (r"\.binary_search_by\(", ".binary_search_by_key(&(), |_| (), "), (r" \+ mid", " + mid + 1"),
       (r"idx \+ 1", "idx"), (r"\.original_startline", ".startline"), (r"\.original_endline", ".endline"), (r"\.original_class", ".original_file"),
       (r"members_by_params", "members"), (r"\.obfuscated\b", ".original"), (r"\.original\b", ".obfuscated"), (r"obfuscated_name_offset", "original_name_offset"),
       (r"original_name_offset", "obfuscated_name_offset"), (r"\.startline\b", ".endline"), (r"\.endline\b", ".startline")]
cands = []
for f in SRC:
    lines = open(os.path.join("/repo", f)).read().split("\n")
    intest = False
    for i, l in enumerate(lines):
        if l.startswith("#[cfg(test)]"):
            intest = True
        if intest or l.strip().startswith("//") or l.strip().startswith("#[") or l.strip().startswith("pub(crate)") and l.strip().endswith("u32,"):
            continue
        for pat, rep in OPS:
            for m in re.finditer(pat, l):
                cands.append((f, i, m.start(), m.end(), rep, pat))
random.shuffle(cands)
print(len(cands), "candidates")
json.dump(cands[:200], open("/tmp/mut/cands.json", "w"))
