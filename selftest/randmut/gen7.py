import re, random, os, sys, json
random.seed(41)
SRC = ["src/mapping.rs", "src/mapper.rs", "src/java.rs", "src/stacktrace.rs", "src/cache/mod.rs", "src/cache/raw.rs"]
cands = []
for f in SRC:
    lines = open(os.path.join("/repo", f)).read().split("\n")
    intest = False
    for i, l in enumerate(lines):
        if l.startswith("#[cfg(test)]"):
            intest = True
        if intest:
            continue
        m = re.match(r"^(\s+)if (.*) \{$", l)
        if m and not l.strip().startswith("} else"):
            ind = m.group(1)
            for span in (2, 3, 4):
                if i + span < len(lines) and lines[i + span] == ind + "}" and all(x.startswith(ind + "    ") for x in lines[i + 1:i + span]):
                    cands.append((f, i, span, 0, "DELBLOCK", "DELBLOCK"))
                    cands.append((f, i, len(ind) + 3, len(l) - 2, "!(" + m.group(2) + ")", "NEGATE"))
                    break
        # `x?;` statement -> delete the `?` ... skipped (type errors). `let Some(x) = e else { return ..; };` untouched.
        if re.match(r"^\s+(return|break|continue)\b.*;$", l) and not re.match(r"^\s+return (Some|Ok|Err)\(", l):
            pass
        m2 = re.match(r"^(\s+)(\S.*) => (.*),$", l)
        if m2 and "=>" in l and not l.strip().startswith("_"):
            cands.append((f, i, 0, len(l), m2.group(1) + m2.group(2) + " if false => " + m2.group(3) + ",", "ARM-OFF"))
random.shuffle(cands)
print(len(cands), "candidates")
json.dump(cands[:150], open("/tmp/mut/cands.json", "w"))
