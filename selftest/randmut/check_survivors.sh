#!/bin/bash
cd /tmp/vsnap
ls /tmp/mut/surv/*.patch | xargs -P 5 -I{} bash -c 'r=$(NSHOW=1 selftest/try_patch.sh {} 2>&1 | grep "rc=[1-9]" | cut -d" " -f1 | paste -sd" "); echo "$(basename {}): [$r] $(grep "^[-+][^-+]" {} | head -2 | cut -c1-110 | paste -sd"|")"' > /tmp/mut/check.log 2>&1
echo DONE >> /tmp/mut/check.log
