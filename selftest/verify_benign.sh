#!/bin/bash
# Developer command: confirm that a sub-agent's behaviour-preserving refactor applies and keeps the whole suite green in a
# scratch worktree of /repo, then store it under /verif/seeded_benign/. (Equivalence itself is reviewed by reading the diff.)
# usage: verify_benign.sh <Cxx> <k> [features] [root] [outk]
ID="$1"; K="$2"; FEAT="${3:-}"; ROOT="${4:-/tmp/seed3}"; OUTK="${5:-$K}"
SRC=$ROOT/$ID
WT=/tmp/vb_${ID}_$K
TGT=/tmp/vb_tgt_${ID}_$K
FARGS=""; [ -n "$FEAT" ] && FARGS="--features $FEAT"
[ -f "$SRC/benign$K.patch" ] || { echo "$ID-b$K: missing patch"; exit 2; }
rm -rf "$WT"; git -C /repo worktree prune; git -C /repo worktree add -q --detach "$WT" HEAD || exit 2
cd "$WT" || exit 2
export CARGO_TARGET_DIR="$TGT" CARGO_NET_OFFLINE=true
git apply "$SRC/benign$K.patch" || { echo "$ID-b$K: patch does not apply"; cd /; git -C /repo worktree remove --force "$WT"; rm -rf "$TGT"; exit 2; }
if cargo test --offline $FARGS >/tmp/vb_${ID}_$K.suite.log 2>&1; then suite=pass; else suite=FAIL; fi
npass=$(grep -E "^test result: ok" /tmp/vb_${ID}_$K.suite.log | sed -E 's/.*ok\. ([0-9]+) passed.*/\1/' | paste -sd+ | bc)
echo "$ID-b$OUTK: suite-with-change=$suite($npass tests)"
if [ "$suite" = pass ]; then
  D=/verif/seeded_benign/$ID-b$OUTK; mkdir -p "$D"
  cp "$SRC/benign$K.patch" "$D/patch.diff"
  python3 - "$ID" "$OUTK" "$npass" "$SRC" <<'PY'
import sys,json
ID,K,npass,src=sys.argv[1:5]
notes=open(src+'/NOTES.md').read()
json.dump(dict(property=ID, benign=int(K), source="independent sub-agent given only the property text and a scratch worktree; asked for a behaviour-preserving refactor of the code implementing the property",
     suite_with_change="pass (%s tests incl. doctests)"%npass, notes=notes[:8000]), open('/verif/seeded_benign/%s-b%s/meta.json'%(ID,K),'w'), indent=1)
PY
fi
cd /; git -C /repo worktree remove --force "$WT"; rm -rf "$TGT"
