#!/bin/bash
# Developer command: run every check against every patch in selftest/mutants, selftest/benign, seeded/*/patch.diff and seeded_benign/*/patch.diff
# on a scratch copy of /repo (never touches /repo or /verif/evidence). Writes selftest/MATRIX.md.
# usage: selftest/matrix.sh [pattern]
HERE="$(cd "$(dirname "$0")/.." && pwd)"
cd "$HERE" || exit 2
PAT="${1:-}"
SCR=/tmp/st_repo_$$
EV=/tmp/st_ev_$$
mkdir -p "$EV"
OUT="$HERE/selftest/MATRIX.md"
CHECKS="C01 C02 C03 C04 C05 C06 C07 C08 C09 C10 C11 C12 C13 C14 C15 C16 C18 C19 C20"
echo "| patch | kind | checks that fire (exit 1) | no verdict (exit 2) |" > "$OUT.tmp"
echo "|---|---|---|---|" >> "$OUT.tmp"
for P in selftest/mutants/*.patch selftest/benign/*.patch seeded/*/patch.diff seeded_benign/*/patch.diff; do
  rm -rf "$HERE"/.work/facts-st_repo_$$-*
  [ -f "$P" ] || continue
  case "$P" in *"$PAT"*) ;; *) continue;; esac
  rm -rf "$SCR"; git -C /repo worktree prune; cp -r /repo "$SCR"; rm -rf "$SCR/target" "$SCR/.git"
  (cd "$SCR" && git init -q . && git add -A >/dev/null && git -c user.email=a@b -c user.name=x commit -qm base >/dev/null && git apply "$HERE/$P") || { echo "| $P | - | PATCH DOES NOT APPLY | |" >> "$OUT.tmp"; continue; }
  fired=""; nov=""
  for c in $CHECKS; do
    PG_REPO="$SCR" PG_EVIDENCE_DIR="$EV" ./check $c >/dev/null 2>&1; rc=$?
    [ $rc -eq 1 ] && fired="$fired $c"
    [ $rc -eq 2 ] && nov="$nov $c"
  done
  kind=mutant; case "$P" in seeded_benign*) kind=benign-independent;; *benign*) kind=benign;; seeded*) kind=seeded;; esac
  echo "| $(echo $P | sed 's|selftest/||') | $kind |$fired |$nov |" >> "$OUT.tmp"
  echo "$P:$fired / noverdict:$nov"
done
mv "$OUT.tmp" "$OUT"
rm -rf "$SCR" "$EV" "$HERE"/.work/facts-st_repo_$$-*
