#!/bin/bash
# Developer command: like matrix.sh (every check x every patch, each on its own scratch copy of /repo), but N patches at a time.
# Never touches /repo or /verif/evidence. Writes selftest/MATRIX.md (rows in the order of the patch list).
# usage: selftest/matrix_par.sh [jobs=6] [pattern]
HERE="$(cd "$(dirname "$0")/.." && pwd)"
cd "$HERE" || exit 2
JOBS="${1:-6}"; PAT="${2:-}"
OUT="$HERE/selftest/MATRIX.md"
ROWS=$(mktemp -d /tmp/mxrows_XXXXXX)
ls selftest/mutants/*.patch selftest/benign/*.patch seeded/*/patch.diff seeded_benign/*/patch.diff | grep -F -- "$PAT" | nl -w4 -nrz -s' ' > "$ROWS/list"
export HERE ROWS
worker() {
  n="$1"; P="$2"
  cd "$HERE" || exit 2
  res=$(selftest/try_patch.sh "$P" 2>&1)
  if echo "$res" | grep -q "PATCH DOES NOT APPLY"; then
    echo "| $(echo $P | sed 's|selftest/||') | - | PATCH DOES NOT APPLY | |" > "$ROWS/$n.row"; return
  fi
  fired=$(echo "$res" | grep -E "^C[0-9]+ rc=1" | cut -d' ' -f1 | paste -sd' ')
  nov=$(echo "$res" | grep -E "^C[0-9]+ rc=([2-9]|[1-9][0-9])" | cut -d' ' -f1 | paste -sd' ')
  kind=mutant; case "$P" in seeded_benign*) kind=benign-independent;; *benign*) kind=benign;; seeded*) kind=seeded;; esac
  echo "| $(echo $P | sed 's|selftest/||') | $kind | $fired | $nov |" > "$ROWS/$n.row"
  echo "$P: $fired / noverdict: $nov"
  [ -n "$nov" ] && { echo "---- output of the run without a verdict ($P)"; echo "$res" | tail -30; echo "----"; }
}
export -f worker
xargs -P "$JOBS" -L1 bash -c 'worker "$0" "$1"' < "$ROWS/list"
{ echo "| patch | kind | checks that fire (exit 1) | no verdict (exit 2) |"; echo "|---|---|---|---|"; cat "$ROWS"/*.row; } > "$OUT"
rm -rf "$ROWS"
