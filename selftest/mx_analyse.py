import re,sys
log=sys.argv[1]
known_benign=set("C16-b12 C16-b14 C16-b21 C16-b23 C16-b8 C16-b24 C16-b15 C16-b16 C16-b25 C04-b6 C14-b21 C18-b6 C11-b17 C19-b7 C19-b17 C05-b17 C05-b18 C06-b14 C06-b16 C07-b9 C07-b14 C18-b22 C18-b27 C01-b25".split())
n=0
for l in open(log):
    m=re.match(r'(\S+): (.*?) / noverdict: ?(.*)$',l.strip())
    if not m: continue
    n+=1
    P,fired,nov=m.group(1),m.group(2).split(),m.group(3).split()
    name=P.split('/')[-2] if P.endswith('patch.diff') else P.split('/')[-1]
    if nov: print("NOVERDICT",P,nov)
    if 'benign' in P:
        if fired: print("BENIGN ALARM%s"%(" (known)" if name in known_benign else ""),P,fired)
    elif P.startswith('seeded/'):
        owner=name.split('-')[0]
        if owner not in fired: print("OWNER MISS",P,fired)
    else:
        if not fired: print("MUTANT MISS",P)
print("rows",n)
