#!/bin/bash
# Developer command (not a MANIFEST command): apply one patch to /repo, run the given checks, undo.
# usage: selftest/run.sh <patch> <Cxx> [<Cxx>...]   prints exit code per check
P="$(readlink -f "$1")"; shift
cd /repo || exit 2
if ! git diff --quiet; then echo "/repo has uncommitted changes; refusing"; exit 2; fi
git apply "$P" || { echo "patch does not apply"; exit 2; }
for c in "$@"; do
  out=$(cd /verif && ./check "$c" 2>&1); rc=$?
  echo "== $c exit=$rc"
  echo "$out" | grep -E "^(VIOLATION \[|UNDECIDABLE|ANCHOR|CONTROL|KNOWN|NO VERDICT)" | head -8
done
git -C /repo checkout -- . 
