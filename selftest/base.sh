#!/bin/bash
# Developer command: every check, both tiers, on /repo as it is; reports by EXIT CODE (a grep over the output can miss statuses).
cd "$(dirname "$0")/.." || exit 2
bad=0
for c in C01 C02 C03 C04 C05 C06 C07 C08 C09 C10 C11 C12 C13 C14 C15 C16 C18 C19 C20; do
  for t in quick thorough; do
    ./check $c --tier $t >/tmp/base_$c.$t.log 2>&1; rc=$?
    if [ $rc -ne 0 ]; then echo "FAIL $c $t rc=$rc: $(grep -E '^(VIOLATION|UNDECIDABLE|ANCHOR|CONTROL|NO VERDICT)' /tmp/base_$c.$t.log | head -2 | cut -c1-160)"; bad=1; fi
  done
done
# leave the committed evidence in the quick-tier form
for c in C01 C02 C03 C04 C05 C06 C07 C08 C09 C10 C11 C12 C13 C14 C15 C16 C18 C19 C20; do ./check $c >/dev/null 2>&1; done
[ $bad -eq 0 ] && echo "base tree: all 19 checks exit 0 in both tiers"
exit $bad
