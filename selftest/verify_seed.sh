#!/bin/bash
# Developer command: independently confirm a sub-agent's seeded change in a scratch worktree of /repo, then store it under /verif/seeded/.
# usage: verify_seed.sh <Cxx> <k> [features]
ID="$1"; K="$2"; FEAT="${3:-}"; ROOT="${4:-/tmp/seed}"; OUTK="${5:-$K}"
SRC=$ROOT/$ID
WT=/tmp/vs_${ID}_$K
TGT=/tmp/vs_tgt_${ID}_$K
FARGS=""; [ -n "$FEAT" ] && FARGS="--features $FEAT"
[ -f "$SRC/seed$K.patch" ] && [ -f "$SRC/demo$K.rs" ] || { echo "$ID-$K: missing seed/demo"; exit 2; }
rm -rf "$WT"; git -C /repo worktree prune; git -C /repo worktree add -q --detach "$WT" HEAD || exit 2
cd "$WT" || exit 2
export CARGO_TARGET_DIR="$TGT" CARGO_NET_OFFLINE=true
res=""
# (iii) unchanged tree: demo passes
cp "$SRC/demo$K.rs" tests/zz_demo.rs
if cargo test --offline $FARGS --test zz_demo >/tmp/vs_${ID}_$K.base.log 2>&1; then base=pass; else base=FAIL; fi
# apply
rm tests/zz_demo.rs
git apply "$SRC/seed$K.patch" || { echo "$ID-$K: patch does not apply"; cd /; git -C /repo worktree remove --force "$WT"; rm -rf "$TGT"; exit 2; }
# (i) suite without demo passes (baseline command, no features)
if cargo test --offline >/tmp/vs_${ID}_$K.suite.log 2>&1; then suite=pass; else suite=FAIL; fi
npass=$(grep -E "^test result: ok" /tmp/vs_${ID}_$K.suite.log | sed -E 's/.*ok\. ([0-9]+) passed.*/\1/' | paste -sd+ | bc)
# (ii) demo fails with change
cp "$SRC/demo$K.rs" tests/zz_demo.rs
if cargo test --offline $FARGS --test zz_demo >/tmp/vs_${ID}_$K.demo.log 2>&1; then demo=pass; else demo=FAIL; fi
rm tests/zz_demo.rs
echo "$ID-$OUTK: unchanged-demo=$base suite-with-change=$suite($npass tests) demo-with-change=$demo"
if [ "$base" = pass ] && [ "$suite" = pass ] && [ "$demo" = FAIL ]; then
  D=/verif/seeded/$ID-$OUTK; mkdir -p "$D"
  cp "$SRC/seed$K.patch" "$D/patch.diff"; cp "$SRC/demo$K.rs" "$D/demo.rs"
  python3 - "$ID" "$OUTK" "$npass" "$FEAT" "$SRC" <<'PY'
import sys,json,re
ID,K,npass,feat,src=sys.argv[1:6]
notes=open(src+'/NOTES.md').read()
meta=dict(property=ID, seed=int(K), source="independent sub-agent given only the property text and a scratch worktree",
          needs_to_manifest="see notes", notes=notes[:6000],
          confirmed=dict(unchanged_tree_demo="pass", suite_with_change="pass (%s tests incl. doctests)"%npass, demo_with_change="fail"),
          commands=["git apply patch.diff", "cargo test --offline   # baseline suite, demo absent", "cp demo.rs tests/zz_demo.rs && cargo test --offline %s --test zz_demo" % (("--features "+feat) if feat else "")])
json.dump(meta, open('/verif/seeded/%s-%s/meta.json'%(ID,K),'w'), indent=1)
PY
  echo "  kept as $D"
fi
cd /; git -C /repo worktree remove --force "$WT"; rm -rf "$TGT"
